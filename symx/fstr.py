"""f-string conversion of the REAL source of a function (regenerated from the analysed checkout on
every run).

An f-string is evaluated by CPython in C (`format()` must return a real `str`, BUILD_STRING joins real
strings), so a symbolic value cannot flow through it as DATA.  `convert(fn)` recompiles fn from its
current source with every f-string  f"a{x:spec}b{y!r}"  replaced by the call
__symx_fjoin(["a", __symx_fmt(x, -1, "spec"), "b", __symx_fmt(y, 114, None)]), which

  * for plain Python values is `"".join(format(...))`, i.e. exactly what the f-string does, and
  * for symbolic values builds a SymStr: a SymStr formatted with an empty spec is itself; a SymInt
    formatted with  [0]<w>x / [0]<w>X  whose interval guarantees at most w hex digits becomes w
    symbolic digit characters (no fork).  Everything else is a SymbolicEscape (harness error), never
    a silent approximation.

Nothing else in the function is touched.  Harnesses call the converted function only while the engine
is active; the concrete validation run of every path executes the untouched original, so the
conversion itself is validated on every path.
"""
import ast
import inspect
import re
import textwrap
from . import core
from .core import SymInt, SymBool, SymbolicEscape, ite
from .seq import SymStr, SymBytes, _real_isinstance

_HEXSPEC = re.compile(r"^(0?)(\d+)([xX])$")


def sym_format_int(v, spec):
    """SymStr for format(v, spec) of a symbolic integer; only zero/space padded fixed-width hex"""
    m = _HEXSPEC.match(spec or "")
    if not m:
        raise SymbolicEscape(f"format(symbolic int, {spec!r}) not modelled")
    zero, width, case = m.group(1), int(m.group(2)), m.group(3)
    if not zero and width > 1:
        raise SymbolicEscape(f"format(symbolic int, {spec!r}): space padding not modelled")
    if v.lo < 0 or v.hi >= 16 ** width:
        raise SymbolicEscape(f"format(symbolic int in [{v.lo},{v.hi}], {spec!r}): digit count not fixed")
    alpha = 55 if case == "X" else 87
    out = []
    for k in reversed(range(width)):
        n = (v >> (4 * k)) & 0xF
        out.append(ite(n < 10, n + 48, n + alpha) if type(n) is SymInt else ord(format(n, case)))
    return SymStr.make(out)


def _fmt(v, conversion, spec):
    if spec is not None and not _real_isinstance(spec, str):
        raise SymbolicEscape("symbolic format specification")
    t = type(v)
    if t is SymStr:
        if conversion in (-1, 115) and not spec:
            return v
        raise SymbolicEscape(f"format(symbolic str, conversion={conversion}, spec={spec!r}) not modelled")
    if t is SymBool:
        v = v.as_int() if spec else v
        t = type(v)
    if t is SymInt:
        if conversion == -1:
            return sym_format_int(v, spec)
        raise SymbolicEscape("repr/str conversion of a symbolic integer inside an f-string")
    if _real_isinstance(v, SymBytes) or t is SymBool:
        raise SymbolicEscape(f"format({t.__name__}) inside an f-string that may be data")
    if conversion == 115:
        v = str(v)
    elif conversion == 114:
        v = repr(v)
    elif conversion == 97:
        v = ascii(v)
    return format(v, spec or "")


def _fjoin(parts):
    if all(_real_isinstance(p, str) for p in parts):
        return "".join(parts)
    out = []
    for p in parts:
        out.extend(SymStr._cps(p))
    return SymStr.make(out)


class _Conv(ast.NodeTransformer):
    def __init__(self):
        self.converted = 0

    def visit_JoinedStr(self, node):
        self.generic_visit(node)
        self.converted += 1
        parts = []
        for v in node.values:
            if isinstance(v, ast.FormattedValue):
                spec = v.format_spec if v.format_spec is not None else ast.Constant(value=None)
                parts.append(ast.Call(func=ast.Name(id="__symx_fmt", ctx=ast.Load()),
                                      args=[v.value, ast.Constant(value=v.conversion), spec], keywords=[]))
            else:
                parts.append(v)
        return ast.Call(func=ast.Name(id="__symx_fjoin", ctx=ast.Load()),
                        args=[ast.List(elts=parts, ctx=ast.Load())], keywords=[])


def convert(fn, live_globals=True):
    """new function object compiled from fn's current source with f-strings made symbolic-capable.
    live_globals: the new function shares fn's module globals (so that shims injected later are seen)."""
    raw = getattr(fn, "__func__", fn)
    src = textwrap.dedent(inspect.getsource(raw))
    tree = ast.parse(src)
    # drop decorators (staticmethod/classmethod are re-applied by the caller)
    for n in tree.body:
        if isinstance(n, (ast.FunctionDef, ast.AsyncFunctionDef)):
            n.decorator_list = []
    conv = _Conv()
    tree = conv.visit(tree)
    ast.fix_missing_locations(tree)
    glb = raw.__globals__ if live_globals else dict(raw.__globals__)
    glb["__symx_fmt"] = _fmt
    glb["__symx_fjoin"] = _fjoin
    code = compile(tree, inspect.getsourcefile(raw) or "<fstr>", "exec")
    ns = {}
    exec(code, glb, ns)
    new = ns[raw.__name__]
    new.__symx_fstrings__ = conv.converted
    return new
