"""Proof engineering for reference readers of hex text (Intel HEX, S-records).

The hex shims (shims.sym_hexlify) remember for every symbolic hex digit which byte `v` it was made
from (SymInt.tag).  An independent reader decodes the two digits again into a term F(v) that is EQUAL to
v but syntactically large (nested if-then-else over character classes); sums of many such terms defeat
the solver (checksum proofs).  `canon` offers `v` itself in place of F(v) and PROVES the replacement:

  * generic lemma   for a fresh x:  0 <= x <= 255  =>  F(x) == x       (solver, once per shape of F)
  * instantiation   the reader's term is literally F with v.e in place of x (z3.substitute + structural
                    equality), and 0 <= v <= 255 holds by construction of the byte (interval of v)

The same is done for the condition "both characters are hex digits".  If the lemma cannot be proved the
reader's own term is kept.  No trust in the tags is needed for soundness: the lemma is about the very
term the reader computed (z3.substitute of v.e by x, and back), a wrong tag just makes it unprovable.
"""
import z3
from .core import SymInt, SymBool, sym_and

_cache = {}     # id(generic term) -> (generic term, proved?)
stats = dict(proved=0, failed=0, instances=0)


def _generic_ok(term, v):
    x = z3.BitVec("hexlemma!x", v.e.size())
    g = z3.substitute(term.e, (v.e, x))
    hit = _cache.get(g.get_id())
    if hit is not None and hit[0].eq(g):
        return hit[1]
    # (other free variables of g, if any, are universally quantified as well: a stronger lemma)
    s = z3.SolverFor("QF_BV")
    s.set("timeout", 20000)
    s.add(x >= 0, x <= 255, g != x)
    ok = s.check() == z3.unsat
    stats["proved" if ok else "failed"] += 1
    _cache[g.get_id()] = (g, ok)
    return ok


def _generic_true(cond, v):
    """cond is a condition built from v.e only via the digits of v: is it true for every byte value?"""
    x = z3.BitVec("hexlemma!x", v.e.size())
    g = z3.substitute(cond, (v.e, x))
    hit = _cache.get(g.get_id())
    if hit is not None and hit[0].eq(g):
        return hit[1]
    s = z3.SolverFor("QF_BV")
    s.set("timeout", 20000)
    s.add(x >= 0, x <= 255, z3.Not(g))
    ok = s.check() == z3.unsat
    stats["proved" if ok else "failed"] += 1
    _cache[g.get_id()] = (g, ok)
    return ok


def canon(digits, values, valids):
    """(digit code points, decoded byte values, per-byte 'both characters are hex digits' conditions)
    -> (byte values', valids').  An entry is replaced (value by the source byte, validity by True) only
    when the generic lemma was proved and instantiates; otherwise it is handed back unchanged."""
    out, oks = [], []
    for k, val in enumerate(values):
        ok = valids[k]
        th = getattr(digits[2 * k], "tag", None)
        tl = getattr(digits[2 * k + 1], "tag", None)
        if type(val) is SymInt and type(th) is tuple and type(tl) is tuple and len(th) == 4 and len(tl) == 4 \
                and th[2] is tl[2] and th[3] == 1 and tl[3] == 0:
            v = th[2]
            if type(v) is SymInt and v.lo >= 0 and v.hi <= 255:
                stats["instances"] += 1
                if _generic_ok(val, v):
                    val = v
                if isinstance(ok, SymBool) and _generic_true(ok.e, v):
                    ok = True
        out.append(val)
        oks.append(ok)
    return out, oks
