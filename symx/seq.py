"""Sequence proxies: byte strings / byte arrays / strings of CONCRETE length whose
elements may be symbolic (SymInt in 0..255, resp. code points)."""
import z3
from . import core
from .core import SymInt, SymBool, sym_and, EngineError, SymbolicEscape

_real_bytes = bytes
_real_bytearray = bytearray
_real_isinstance = isinstance


def _byte_ok(v):
    """check 0 <= v < 256 the way bytes([v]) would; forks if needed."""
    if type(v) is SymInt:
        if v.lo >= 0 and v.hi <= 255:
            return v
        if not sym_and(v >= 0, v <= 255):
            raise ValueError("bytes must be in range(0, 256)")
        return SymInt(v.e, max(v.lo, 0), min(v.hi, 255))
    if type(v) is SymBool:
        return v.as_int()
    if not (0 <= v <= 255):
        raise ValueError("bytes must be in range(0, 256)")
    return int(v)


def _elems(x):
    if _real_isinstance(x, SymBytes):
        return list(x.lst)
    if _real_isinstance(x, (_real_bytes, _real_bytearray, memoryview)):
        return list(x)
    if _real_isinstance(x, (list, tuple)) or hasattr(x, "__iter__"):
        return [_byte_ok(v) for v in x]
    raise TypeError(f"cannot convert {type(x)} to bytes")


def _maybe_concrete(lst, mutable):
    if any(type(v) is SymInt for v in lst):
        return None
    return _real_bytearray(lst) if mutable else _real_bytes(lst)


class SymBytes:
    """immutable byte string with possibly symbolic elements"""
    mutable = False

    def __init__(self, lst):
        self.lst = list(lst)

    # construction helper: return real bytes when everything is concrete
    @classmethod
    def make(cls, lst):
        if cls.mutable:
            return cls(lst)     # stays a proxy: later writes may be symbolic
        c = _maybe_concrete(lst, cls.mutable)
        return c if c is not None else cls(lst)

    def __len__(self):
        return len(self.lst)

    def __iter__(self):
        return iter(self.lst)

    def __getitem__(self, i):
        if _real_isinstance(i, slice):
            return type(self).make(self.lst[i])
        return self.lst[i]

    def __add__(self, o):
        return type(self).make(self.lst + _elems(o))

    def __radd__(self, o):
        return SymBytes.make(_elems(o) + self.lst)

    def __mul__(self, n):
        return type(self).make(self.lst * n)

    def __eq__(self, o):
        if not _real_isinstance(o, (SymBytes, _real_bytes, _real_bytearray)):
            return False
        ol = list(o)
        if len(ol) != len(self.lst):
            return False
        if not ol:
            return True
        return sym_and(*[a == b for a, b in zip(self.lst, ol)])

    def __ne__(self, o):
        return core.sym_not(self.__eq__(o))

    def __hash__(self):
        return hash(_real_bytes(int(v) for v in self.lst))

    def __bool__(self):
        return bool(self.lst)

    def __contains__(self, v):
        return bool(core.sym_or(*[x == v for x in self.lst])) if self.lst else False

    def __repr__(self):
        return "<symbytes len=%d>" % len(self.lst)

    def hex(self):
        from .shims import sym_hexlify
        return sym_hexlify(self).decode_ascii()

    def startswith(self, p):
        p = _elems(p)
        if len(p) > len(self.lst):
            return False
        return bool(SymBytes(self.lst[: len(p)]) == _real_bytes(p) if not any(
            type(v) is SymInt for v in p) else SymBytes(self.lst[: len(p)]) == SymBytes(p))

    def decode(self, enc="utf-8", errors="strict"):
        enc = enc.lower().replace("-", "")
        if enc in ("ascii", "utf8", "latin1"):
            for v in self.lst:
                if enc != "latin1" and type(v) is SymInt and v.hi > 127:
                    if not (v < 128):
                        raise UnicodeDecodeError(enc, b"", 0, 1, "symbolic non-ascii byte")
            return SymStr.make(list(self.lst))
        raise SymbolicEscape(f"decode({enc}) of symbolic bytes")

    def decode_ascii(self):
        return SymStr.make(list(self.lst))

    def index(self, v):
        for i, x in enumerate(self.lst):
            if x == v:
                return i
        raise ValueError("subsection not found")

    def join(self, parts):
        out = []
        first = True
        for p in parts:
            if not first:
                out.extend(self.lst)
            out.extend(_elems(p))
            first = False
        return SymBytes.make(out)


class SymByteArray(SymBytes):
    mutable = True

    def __setitem__(self, i, v):
        if _real_isinstance(i, slice):
            self.lst[i] = _elems(v)
        else:
            self.lst[i] = _byte_ok(v)

    def __delitem__(self, i):
        del self.lst[i]

    def __iadd__(self, o):
        self.lst.extend(_elems(o))
        return self

    def append(self, v):
        self.lst.append(_byte_ok(v))

    def extend(self, o):
        self.lst.extend(_elems(o))

    def pop(self, i=-1):
        return self.lst.pop(i)

    def insert(self, i, v):
        self.lst.insert(i, _byte_ok(v))

    def clear(self):
        self.lst.clear()

    def copy(self):
        return SymByteArray(self.lst)

    __hash__ = None


def sym_bytes(x=b"", *a):
    """replacement for the builtin ``bytes``"""
    if a:
        return _real_bytes(x, *a)
    if _real_isinstance(x, SymBytes):
        return SymBytes.make(x.lst)
    if _real_isinstance(x, (_real_bytes, _real_bytearray, memoryview)):
        return _real_bytes(x)
    if _real_isinstance(x, str):
        return _real_bytes(x)
    if type(x) is int:
        return _real_bytes(x)
    if type(x) is SymInt:
        return _real_bytes(int(x))
    return SymBytes.make(_elems(x))


def sym_bytearray(x=b"", *a):
    if a:
        return _real_bytearray(x, *a)
    if _real_isinstance(x, SymBytes):
        return SymByteArray(x.lst)   # stays a proxy: later writes may be symbolic
    if type(x) is int:
        return SymByteArray([0] * x)
    if type(x) is SymInt:
        return SymByteArray([0] * int(x))
    if _real_isinstance(x, (_real_bytes, _real_bytearray, memoryview)):
        return SymByteArray(list(x))
    return SymByteArray(_elems(x))


# ---------------------------------------------------------------------------
# Placeholder strings.  CPython forces str()/format()/f-strings/print to produce a REAL str.  A harness
# may opt in (placeholders_begin(), once per path) to have symbolic code points represented inside real
# strings by code points of the unassigned planes 4..13 that index a per-path registry; whoever receives
# the text (a fake file of the harness) maps it back with resolve_str().  Sound as long as the code
# between formatting and the receiver treats the text as opaque (concatenation, slicing, writing): the
# placeholder code points are no whitespace, no digits and have no case mapping.
_PH = {"on": False, "tab": []}
_PH_BASE = 0x40000
_PH_END = 0xE0000


def placeholders_begin():
    _PH["on"] = True
    _PH["tab"] = []


def placeholders_end():
    _PH["on"] = False
    _PH["tab"] = []


def ph_encode(cps):
    tab = _PH["tab"]
    out = []
    for c in cps:
        if type(c) is SymInt:
            k = _PH_BASE + len(tab)
            if k >= _PH_END:
                raise SymbolicEscape("placeholder registry exhausted")
            tab.append(c)
            out.append(chr(k))
        else:
            out.append(chr(c))
    return "".join(out)


def resolve_str(s):
    """real str possibly containing placeholders -> str / SymStr (identity on everything else)"""
    if type(s) is not str:
        return s
    tab = _PH["tab"]
    if not tab:
        return s
    n = len(tab)
    cps = []
    for ch in s:
        o = ord(ch)
        cps.append(tab[o - _PH_BASE] if _PH_BASE <= o < _PH_BASE + n else o)
    return SymStr.make(cps)


def _ascii_case(c, first, delta):
    """str.upper()/lower() on one (possibly symbolic) ASCII code point, no fork"""
    if type(c) is not SymInt:
        ch = chr(c)
        return ord(ch.upper() if delta < 0 else ch.lower()) if c < 128 else _non_ascii_case(ch, delta)
    if c.hi > 127:
        raise SymbolicEscape("case mapping of a symbolic non-ascii character")
    if c.hi < first or c.lo > first + 25:
        return c
    r = core.ite(sym_and(c >= first, c <= first + 25), c + delta, c)
    if type(r) is SymInt and type(c.tag) is tuple and c.tag[0] == "hexdigit":
        r.tag = c.tag      # still the hex digit of the same nibble (int(.,16) is case-insensitive)
    return r


def _non_ascii_case(ch, delta):
    r = ch.upper() if delta < 0 else ch.lower()
    if len(r) != 1:
        raise SymbolicEscape("length-changing case mapping")
    return ord(r)


class SymStr:
    """string of concrete length with possibly symbolic code points"""

    def __init__(self, cps):
        self.cps = list(cps)

    @classmethod
    def make(cls, cps):
        if any(type(c) is SymInt for c in cps):
            return cls(cps)
        return "".join(chr(c) for c in cps)

    @staticmethod
    def _cps(o):
        if _real_isinstance(o, SymStr):
            return list(o.cps)
        if _real_isinstance(o, str):
            return [ord(c) for c in o]
        raise TypeError(f"can only concatenate str (not {type(o).__name__}) to str")

    def __len__(self):
        return len(self.cps)

    def __iter__(self):
        for c in self.cps:
            yield SymStr.make([c])

    def __getitem__(self, i):
        if _real_isinstance(i, slice):
            return SymStr.make(self.cps[i])
        return SymStr.make([self.cps[i]])

    def __add__(self, o):
        return SymStr.make(self.cps + self._cps(o))

    def __radd__(self, o):
        return SymStr.make(self._cps(o) + self.cps)

    def __mul__(self, n):
        return SymStr.make(self.cps * n)

    def __eq__(self, o):
        if not _real_isinstance(o, (SymStr, str)):
            return False
        oc = self._cps(o)
        if len(oc) != len(self.cps):
            return False
        if not oc:
            return True
        return sym_and(*[a == b for a, b in zip(self.cps, oc)])

    def __ne__(self, o):
        return core.sym_not(self.__eq__(o))

    def __hash__(self):
        return hash("".join(chr(int(c)) for c in self.cps))

    def __bool__(self):
        return bool(self.cps)

    def __contains__(self, sub):
        sc = self._cps(sub)
        n = len(sc)
        if n == 0:
            return True
        for i in range(len(self.cps) - n + 1):
            if SymStr(self.cps[i:i + n]) == SymStr(sc):
                return True
        return False

    def __lt__(self, o):
        return self._lex(o) < 0

    def _cmp1(self, o):
        """(a, b) code points when both sides are single characters (comparison without forking)"""
        if len(self.cps) == 1 and _real_isinstance(o, (SymStr, str)) and len(o) == 1:
            return self.cps[0], self._cps(o)[0]
        return None

    def __le__(self, o):
        p = self._cmp1(o)
        return p[0] <= p[1] if p else self._lex(o) <= 0

    def __gt__(self, o):
        p = self._cmp1(o)
        return p[0] > p[1] if p else self._lex(o) > 0

    def __ge__(self, o):
        p = self._cmp1(o)
        return p[0] >= p[1] if p else self._lex(o) >= 0

    def _lex(self, o):
        oc = self._cps(o)
        for a, b in zip(self.cps, oc):
            if a == b:
                continue
            return -1 if a < b else 1
        return (len(self.cps) > len(oc)) - (len(self.cps) < len(oc))

    def __repr__(self):
        return "<symstr len=%d>" % len(self.cps)

    def __str__(self):
        # str()/print()/f-strings must hand back a real str: with placeholders enabled (opt-in by the
        # harness) the symbolic code points survive as registry references, see placeholders_begin()
        if _PH["on"]:
            return ph_encode(self.cps)
        return "<symstr len=%d>" % len(self.cps)

    def __format__(self, spec):
        if _PH["on"] and spec == "":
            return ph_encode(self.cps)
        return "<symstr>"

    def upper(self):
        return SymStr.make([_ascii_case(c, 97, -32) for c in self.cps])

    def lower(self):
        return SymStr.make([_ascii_case(c, 65, 32) for c in self.cps])

    def startswith(self, p, start=0):
        pc = self._cps(p)
        if len(pc) > len(self.cps) - start:
            return False
        return bool(SymStr(self.cps[start:start + len(pc)]) == SymStr(pc))

    def endswith(self, p):
        pc = self._cps(p)
        if len(pc) > len(self.cps):
            return False
        if not pc:
            return True
        return bool(SymStr(self.cps[-len(pc):]) == SymStr(pc))

    def encode(self, enc="utf-8", errors="strict"):
        enc = enc.lower().replace("-", "")
        out = []
        for c in self.cps:
            if type(c) is SymInt and c.hi > 127:
                if enc == "ascii":
                    if not (c < 128):
                        raise UnicodeEncodeError("ascii", "", 0, 1, "ordinal not in range(128)")
                elif enc in ("utf8",):
                    if not (c < 128):
                        raise SymbolicEscape("utf-8 encoding of symbolic non-ascii char")
                elif enc == "latin1":
                    if not (c < 256):
                        raise UnicodeEncodeError("latin-1", "", 0, 1, "ordinal not in range(256)")
            out.append(c)
        return SymBytes.make(out)

    def replace(self, old, new):
        oc = self._cps(old)
        nc = self._cps(new)
        if len(oc) != 1:
            raise SymbolicEscape("SymStr.replace with multi-char pattern")
        out = []
        for c in self.cps:
            if c == oc[0]:
                out.extend(nc)
            else:
                out.append(c)
        return SymStr.make(out)

    def strip(self, chars=None):
        ws = [9, 10, 11, 12, 13, 28, 29, 30, 31, 32, 133, 160] if chars is None else self._cps(chars)

        def isws(c):
            return bool(core.sym_or(*[c == w for w in ws]))
        a, b = 0, len(self.cps)
        while a < b and isws(self.cps[a]):
            a += 1
        while b > a and isws(self.cps[b - 1]):
            b -= 1
        return SymStr.make(self.cps[a:b])

    def find(self, sub, start=0):
        sc = self._cps(sub)
        n = len(sc)
        for i in range(start, len(self.cps) - n + 1):
            if SymStr(self.cps[i:i + n]) == SymStr(sc):
                return i
        return -1

    def index(self, sub, start=0):
        r = self.find(sub, start)
        if r < 0:
            raise ValueError("substring not found")
        return r

    def join(self, parts):
        out = []
        first = True
        for p in parts:
            if not first:
                out.extend(self.cps)
            out.extend(self._cps(p))
            first = False
        return SymStr.make(out)

    def split(self, sep=None):
        if sep is None:
            raise SymbolicEscape("SymStr.split() on whitespace")
        sc = self._cps(sep)
        if len(sc) != 1:
            raise SymbolicEscape("SymStr.split with multi-char separator")
        parts, cur = [], []
        for c in self.cps:
            if c == sc[0]:
                parts.append(SymStr.make(cur))
                cur = []
            else:
                cur.append(c)
        parts.append(SymStr.make(cur))
        return parts


def sym_ord(c):
    if _real_isinstance(c, SymStr):
        if len(c.cps) != 1:
            raise TypeError("ord() expected a character")
        return c.cps[0]
    if _real_isinstance(c, SymBytes):
        if len(c.lst) != 1:
            raise TypeError("ord() expected a character")
        return c.lst[0]
    return ord(c)


def sym_chr(v):
    if type(v) is SymInt:
        if v.lo < 0 or v.hi > 0x10FFFF:
            if not sym_and(v >= 0, v <= 0x10FFFF):
                raise ValueError("chr() arg not in range(0x110000)")
        return SymStr([v])
    return chr(v)
