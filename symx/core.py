"""symx core: proxy-object symbolic execution of Python over z3 bit-vectors.

* SymInt  - signed integer of engine width W with conservative interval tracking
            (an operation whose result interval does not fit W-1 bits raises EngineBound,
            so inside the stated ranges bit-vector arithmetic IS Python arithmetic).
* SymBool - result of comparisons; __bool__ is the fork point.
* Engine  - depth-first exploration by re-execution with a forced decision prefix.

A symbolic value never becomes concrete without a fork recorded in the path condition.
"""
import time
import z3

ENG = None  # the active engine of this process (set by Engine.activate)
# opt-in (checksum-style harnesses): encode ~x as -x-1 (same value) so that z3's polynomial normal
# form cancels  sum + (~sum + 1)  without bit-blasting; bad for bit-twiddling code, hence off by default
INVERT_AS_NEG = False


class Abort(BaseException):
    """Current path is infeasible / assumption failed: drop the path silently."""


class PathCut(BaseException):
    """A declared exploration bound was hit on this path (recorded as 'cut')."""


class EngineError(BaseException):
    """Harness/engine problem (never a verdict)."""


class EngineBound(EngineError):
    """An intermediate value may not fit the engine width."""


class SymbolicEscape(EngineError):
    """A symbolic value would have to become concrete over too large a domain."""


def _is_int(x):
    return type(x) is int or type(x) is bool


# ---------------------------------------------------------------------------
class SymBool:
    __slots__ = ("e",)

    def __init__(self, e):
        self.e = e

    def __bool__(self):
        return ENG.decide(self.e)

    def __and__(self, o):
        return SymBool(z3.And(self.e, tobool(o)))

    __rand__ = __and__

    def __or__(self, o):
        return SymBool(z3.Or(self.e, tobool(o)))

    __ror__ = __or__

    def __xor__(self, o):
        return SymBool(z3.Xor(self.e, tobool(o)))

    __rxor__ = __xor__

    def __invert__(self):
        return SymBool(z3.Not(self.e))

    def __eq__(self, o):
        if isinstance(o, (SymBool, bool)):
            return SymBool(self.e == tobool(o))
        return self.as_int() == o

    def __ne__(self, o):
        if isinstance(o, (SymBool, bool)):
            return SymBool(self.e != tobool(o))
        return self.as_int() != o

    def __hash__(self):
        return hash(bool(self))

    def as_int(self):
        return SymInt(z3.If(self.e, z3.BitVecVal(1, ENG.W), z3.BitVecVal(0, ENG.W)), 0, 1)

    def __index__(self):
        return int(bool(self))

    def __int__(self):
        return int(bool(self))

    def __add__(self, o):
        return self.as_int() + o

    __radd__ = __add__

    def __mul__(self, o):
        return self.as_int() * o

    __rmul__ = __mul__

    def __lshift__(self, o):
        return self.as_int() << o

    def __sub__(self, o):
        return self.as_int() - o

    def __rsub__(self, o):
        return o - self.as_int()

    def __repr__(self):
        return "<symbool>"


def tobool(x):
    """z3 Bool for a python bool / SymBool / SymInt (truthiness)."""
    if isinstance(x, SymBool):
        return x.e
    if isinstance(x, SymInt):
        return x.e != 0
    if z3.is_expr(x):
        return x
    return z3.BoolVal(bool(x))


def sym_not(x):
    if isinstance(x, (SymBool, SymInt)):
        return SymBool(z3.Not(tobool(x)))
    return not x


def sym_and(*xs):
    if any(isinstance(x, (SymBool, SymInt)) for x in xs):
        return SymBool(z3.And(*[tobool(x) for x in xs]))
    return all(xs)


def sym_or(*xs):
    if any(isinstance(x, (SymBool, SymInt)) for x in xs):
        return SymBool(z3.Or(*[tobool(x) for x in xs]))
    return any(xs)


def implies(a, b):
    return sym_or(sym_not(a), b)


def ite(c, a, b):
    """If-then-else without forking; works on concrete values as well."""
    if isinstance(c, SymInt):
        c = c != 0
    if not isinstance(c, SymBool):
        return a if c else b
    if isinstance(a, (SymBool, bool)) and isinstance(b, (SymBool, bool)):
        return SymBool(z3.If(c.e, tobool(a), tobool(b)))
    if isinstance(a, SymBool):
        a = a.as_int()
    if isinstance(b, SymBool):
        b = b.as_int()
    ea, la, ha = _parts(a)
    eb, lb, hb = _parts(b)
    if type(a) is SymInt and type(b) is SymInt and ea.eq(-eb) and c.e.eq(eb < z3.BitVecVal(0, ENG.W)):
        # ite(b < 0, -b, b) is |b|: the interval is that of the absolute value (exact refinement)
        lo = 0 if lb <= 0 <= hb else min(abs(lb), abs(hb))
        return _mk(z3.If(c.e, ea, eb), lo, max(abs(lb), abs(hb)))
    return SymInt(z3.If(c.e, ea, eb), min(la, lb), max(ha, hb))


# ---------------------------------------------------------------------------
def _parts(x):
    """(z3 expr, lo, hi) for int / SymInt / SymBool; None if not numeric."""
    if type(x) is SymInt:
        return x.e, x.lo, x.hi
    if type(x) is int or type(x) is bool:
        x = int(x)
        W = ENG.W
        if not (-(1 << (W - 1)) <= x < (1 << (W - 1))):
            raise EngineBound(f"constant {x:#x} does not fit engine width {W}")
        return z3.BitVecVal(x, W), x, x
    if type(x) is SymBool:
        y = x.as_int()
        return y.e, 0, 1
    return None


def _bitlen_bound(lo, hi):
    """k such that every value in [lo,hi] fits in k bits two's complement magnitude."""
    return max(abs(lo).bit_length(), abs(hi).bit_length(), (abs(lo) - 1).bit_length() if lo < 0 else 0)


def _mk(e, lo, hi):
    W = ENG.W
    if lo < -(1 << (W - 1)) or hi >= (1 << (W - 1)):
        raise EngineBound(f"value range [{lo:#x},{hi:#x}] exceeds engine width {W}")
    if lo == hi:
        return lo
    return SymInt(e, lo, hi)


class SymInt:
    __slots__ = ("e", "lo", "hi", "tag")

    def __init__(self, e, lo, hi):
        self.e = e
        self.lo = lo
        self.hi = hi
        self.tag = None    # optional provenance note set by shims (e.g. hex digit of a nibble); never semantics

    # -- arithmetic -------------------------------------------------------
    def __add__(s, o):
        p = _parts(o)
        if p is None:
            return NotImplemented
        return _mk(s.e + p[0], s.lo + p[1], s.hi + p[2])

    __radd__ = __add__

    def __sub__(s, o):
        p = _parts(o)
        if p is None:
            return NotImplemented
        return _mk(s.e - p[0], s.lo - p[2], s.hi - p[1])

    def __rsub__(s, o):
        p = _parts(o)
        if p is None:
            return NotImplemented
        return _mk(p[0] - s.e, p[1] - s.hi, p[2] - s.lo)

    def __mul__(s, o):
        if _is_int(o):
            o = int(o)
            if o == 0:
                return 0
            if o > 0 and (o & (o - 1)) == 0:
                return s << (o.bit_length() - 1)
        p = _parts(o)
        if p is None:
            return NotImplemented
        c = [s.lo * p[1], s.lo * p[2], s.hi * p[1], s.hi * p[2]]
        return _mk(s.e * p[0], min(c), max(c))

    __rmul__ = __mul__

    def __neg__(s):
        return _mk(-s.e, -s.hi, -s.lo)

    def __pos__(s):
        return s

    def __abs__(s):
        if s.lo >= 0:
            return s
        if s.hi <= 0:
            return -s
        return _mk(z3.If(s.e < 0, -s.e, s.e), 0, max(-s.lo, s.hi))

    def __invert__(s):
        if INVERT_AS_NEG:
            return _mk(-s.e - 1, -s.hi - 1, -s.lo - 1)
        return _mk(~s.e, -s.hi - 1, -s.lo - 1)

    # -- bit operations ---------------------------------------------------
    def __and__(s, o):
        p = _parts(o)
        if p is None:
            return NotImplemented
        e, lo, hi = p
        if s.lo >= 0 and lo >= 0:
            r = (0, min(s.hi, hi))
        elif s.lo >= 0:
            r = (0, s.hi)
        elif lo >= 0:
            r = (0, hi)
        else:
            k = max(_bitlen_bound(s.lo, s.hi), _bitlen_bound(lo, hi))
            r = (-(1 << k), (1 << k) - 1)
        if lo == hi and lo > 0:
            # constant mask m: all values of [s.lo, s.hi] agree on the bits >= j when s.lo >> j == s.hi >> j
            # (>> is monotone).  j = lowest set bit of m: the result is a constant;  m = 2^k - 1 and j = k:
            # the low k bits run through [s.lo & m, s.hi & m]  (exact interval refinements, no solver query)
            j = (lo & -lo).bit_length() - 1
            if (s.lo >> j) == (s.hi >> j):
                return s.lo & lo
            if (lo & (lo + 1)) == 0 and (s.lo >> lo.bit_length()) == (s.hi >> lo.bit_length()):
                r = (s.lo & lo, s.hi & lo)
        # x & (2^k - 1): extract (keeps the terms small)
        if lo == hi and lo > 0 and (lo & (lo + 1)) == 0:
            k = lo.bit_length()
            W = ENG.W
            if k < W:
                return _mk(z3.ZeroExt(W - k, z3.Extract(k - 1, 0, s.e)), r[0], r[1])
        return _mk(s.e & e, r[0], r[1])

    __rand__ = __and__

    def _orxor(s, o, f):
        p = _parts(o)
        if p is None:
            return NotImplemented
        e, lo, hi = p
        k = max(_bitlen_bound(s.lo, s.hi), _bitlen_bound(lo, hi))
        if s.lo >= 0 and lo >= 0:
            r = (0, (1 << k) - 1)
        else:
            r = (-(1 << k), (1 << k) - 1)
        return _mk(f(s.e, e), r[0], r[1])

    def __or__(s, o):
        return s._orxor(o, lambda a, b: a | b)

    __ror__ = __or__

    def __xor__(s, o):
        return s._orxor(o, lambda a, b: a ^ b)

    __rxor__ = __xor__

    @staticmethod
    def _shift_count(o):
        """returns (expr, lo, hi) of a non-negative count; forks/raises on negative."""
        p = _parts(o)
        if p is None:
            return None
        e, lo, hi = p
        if lo < 0:
            if ENG.decide(e < 0):
                raise ValueError("negative shift count")
            lo = 0
        return e, lo, hi

    @staticmethod
    def _lshift(a, b):
        ea, la, ha = a
        eb, lb, hb = b
        W = ENG.W
        if hb > 2 * W or (max(abs(la), abs(ha)) << hb) >= (1 << (W - 1)):
            # the interval is wide, but the path condition may bound the count: ask the solver
            # (pure queries, no fork) for the least upper bound by bisection
            lo_, hi_ = max(lb, 0), min(hb, 2 * W)
            if ENG._check(eb > hi_)[0] != "unsat":
                raise EngineBound("left shift count range too large")
            while lo_ < hi_:
                mid = (lo_ + hi_) // 2
                if ENG._check(eb > mid)[0] == "unsat":
                    hi_ = mid
                else:
                    lo_ = mid + 1
            hb = hi_
        c = [la << lb, la << hb, ha << lb, ha << hb]
        return _mk(ea << eb, min(c), max(c))

    @staticmethod
    def _rshift(a, b):
        ea, la, ha = a
        eb, lb, hb = b
        c = [la >> lb, la >> min(hb, 4096), ha >> lb, ha >> min(hb, 4096)]
        return _mk(ea >> eb, min(c), max(c))

    def __lshift__(s, o):
        b = SymInt._shift_count(o)
        if b is None:
            return NotImplemented
        return SymInt._lshift((s.e, s.lo, s.hi), b)

    def __rlshift__(s, o):
        a = _parts(o)
        if a is None:
            return NotImplemented
        return SymInt._lshift(a, SymInt._shift_count(s))

    def __rshift__(s, o):
        b = SymInt._shift_count(o)
        if b is None:
            return NotImplemented
        return SymInt._rshift((s.e, s.lo, s.hi), b)

    def __rrshift__(s, o):
        a = _parts(o)
        if a is None:
            return NotImplemented
        return SymInt._rshift(a, SymInt._shift_count(s))

    # -- division ---------------------------------------------------------
    @staticmethod
    def _divmod(a, b, want):
        ea, la, ha = a
        eb, lb, hb = b
        W = ENG.W
        if lb == hb:
            d = lb
            if d == 0:
                raise ZeroDivisionError("integer division or modulo by zero")
            if d > 0 and (d & (d - 1)) == 0:
                k = d.bit_length() - 1
                if want == "div":
                    return _mk(ea >> k, la >> k, ha >> k)
                if k == 0:
                    return 0
                hi = d - 1 if not (la >= 0 and ha < d) else ha
                lo = 0 if not (la >= 0 and ha < d) else la
                return _mk(z3.ZeroExt(W - k, z3.Extract(k - 1, 0, ea)), lo, hi)
        else:
            if lb <= 0 <= hb:
                if ENG.decide(eb == 0):
                    raise ZeroDivisionError("integer division or modulo by zero")
        # general floor division built from truncating division
        if la >= 0 and lb >= 0:
            # both operands non-negative (a zero divisor was forked away above): unsigned division is exact
            # the divider is built only as wide as the operand intervals need (both operands and
            # hence quotient and remainder fit k bits unsigned): keeps division terms small
            k = max(ha.bit_length(), hb.bit_length(), 1)
            if k < W:
                xa, xb = z3.Extract(k - 1, 0, ea), z3.Extract(k - 1, 0, eb)
                xq, xr = z3.UDiv(xa, xb), z3.URem(xa, xb)
                q = z3.ZeroExt(W - k, xq)
                r = z3.ZeroExt(W - k, xr)
            else:
                xa, xb = ea, eb
                q = xq = z3.UDiv(ea, eb)
                r = xr = z3.URem(ea, eb)
            # theorems about unsigned division handed to the solver as redundant facts (a bit-blasted
            # divider does not give them away cheaply): remainder < divisor, remainder/quotient <= dividend
            if want == "div":
                ENG.lemma(z3.Implies(xb != 0, z3.ULE(xq, xa)))
            else:
                ENG.lemma(z3.And(z3.Implies(xb != 0, z3.ULT(xr, xb)), z3.ULE(xr, xa)))
            if want == "div":
                return _mk(q, la // max(hb, 1), ha // max(lb, 1))
            return _mk(r, 0, min(ha, max(hb, 1) - 1))
        m = max(abs(la), abs(ha))
        mb = max(abs(lb), abs(hb))
        # k bits two's complement hold both operands, the truncated quotient (|q| <= |a|, so even
        # MIN / -1 fits because of the extra bit), q - 1, the remainder and r + b
        k = max(_bitlen_bound(la, ha), _bitlen_bound(lb, hb)) + 2
        if k < W:
            xa, xb = z3.Extract(k - 1, 0, ea), z3.Extract(k - 1, 0, eb)
            q = xa / xb  # bvsdiv (truncating)
            r = z3.SRem(xa, xb)
            adj = z3.And(r != 0, (r < 0) != (xb < 0))
            if want == "div":
                return _mk(z3.SignExt(W - k, z3.If(adj, q - 1, q)), -m - 1, m + 1)
            return _mk(z3.SignExt(W - k, z3.If(adj, r + xb, r)), -mb, mb)
        q = ea / eb  # bvsdiv (truncating)
        r = z3.SRem(ea, eb)
        adj = z3.And(r != 0, (r < 0) != (eb < 0))
        if want == "div":
            return _mk(z3.If(adj, q - 1, q), -m - 1, m + 1)
        return _mk(z3.If(adj, r + eb, r), -mb, mb)

    def __floordiv__(s, o):
        p = _parts(o)
        if p is None:
            return NotImplemented
        return SymInt._divmod((s.e, s.lo, s.hi), p, "div")

    def __rfloordiv__(s, o):
        p = _parts(o)
        if p is None:
            return NotImplemented
        return SymInt._divmod(p, (s.e, s.lo, s.hi), "div")

    def __mod__(s, o):
        p = _parts(o)
        if p is None:
            return NotImplemented
        return SymInt._divmod((s.e, s.lo, s.hi), p, "mod")

    def __rmod__(s, o):
        p = _parts(o)
        if p is None:
            return NotImplemented
        return SymInt._divmod(p, (s.e, s.lo, s.hi), "mod")

    def __divmod__(s, o):
        return s // o, s % o

    def __truediv__(s, o):
        hook = getattr(ENG, "truediv_hook", None)      # opt-in: a harness may supply a model of int / int
        if hook is not None:
            return hook(s, o)
        raise SymbolicEscape("true division of a symbolic integer (float)")

    def __rtruediv__(s, o):
        hook = getattr(ENG, "truediv_hook", None)
        if hook is not None:
            return hook(o, s)
        raise SymbolicEscape("true division of a symbolic integer (float)")

    def __pow__(s, o, mod=None):
        if _is_int(o) and mod is None and 0 <= o <= 4:
            r = 1
            for _ in range(o):
                r = r * s
            return r
        raise SymbolicEscape("pow with symbolic base")

    def __rpow__(s, o):
        if _is_int(o) and o == 2:
            return 1 << s
        v = s.__index__()
        return o ** v

    # -- comparisons ------------------------------------------------------
    def _cmp(s, o, f, const):
        p = _parts(o)
        if p is None:
            return NotImplemented
        r = const(s.lo, s.hi, p[1], p[2])
        if r is not None:
            return r
        return SymBool(f(s.e, p[0]))

    def __lt__(s, o):
        return s._cmp(o, lambda a, b: a < b,
                      lambda al, ah, bl, bh: True if ah < bl else (False if al >= bh else None))

    def __le__(s, o):
        return s._cmp(o, lambda a, b: a <= b,
                      lambda al, ah, bl, bh: True if ah <= bl else (False if al > bh else None))

    def __gt__(s, o):
        return s._cmp(o, lambda a, b: a > b,
                      lambda al, ah, bl, bh: True if al > bh else (False if ah <= bl else None))

    def __ge__(s, o):
        return s._cmp(o, lambda a, b: a >= b,
                      lambda al, ah, bl, bh: True if al >= bh else (False if ah < bl else None))

    def _bitlen_is(s, c):
        """s = v.bit_length(): the test s == c for a constant c, stated on v (exact):
        c == 0: v == 0;  c > 0: 2**(c-1) <= |v| < 2**c"""
        v = s.tag[1]
        if c < 0 or c > s.hi:
            return False
        if c == 0:
            return v == 0
        a = abs(v)
        if _is_int(a):
            return a.bit_length() == c
        return sym_and(a >= (1 << (c - 1)), a < (1 << c))

    def __eq__(s, o):
        if type(o) is int and type(s.tag) is tuple and s.tag[0] == "bitlen":
            return s._bitlen_is(o)
        try:
            p = _parts(o)
        except EngineBound:
            return False
        if p is None:
            return False
        if s.hi < p[1] or s.lo > p[2]:
            return False
        return SymBool(s.e == p[0])

    def __ne__(s, o):
        if type(o) is int and type(s.tag) is tuple and s.tag[0] == "bitlen":
            return sym_not(s._bitlen_is(o))
        try:
            p = _parts(o)
        except EngineBound:
            return True
        if p is None:
            return True
        if s.hi < p[1] or s.lo > p[2]:
            return True
        return SymBool(s.e != p[0])

    def __bool__(s):
        if s.lo > 0 or s.hi < 0:
            return True
        return ENG.decide(s.e != 0)

    # -- conversions ------------------------------------------------------
    def __index__(s):
        return ENG.choose(s)

    __int__ = __index__

    def __hash__(s):
        if ENG.hash_collapse:
            # opt-in (harness sets ENG.hash_collapse): every symbolic integer hashes alike and dict/set
            # lookups fall through to ==, which forks.  Sound only for containers whose integer keys are
            # ALL symbolic (a concrete int key hashes differently and would never be compared).
            return 0x5CA1AB1E
        return hash(ENG.choose(s))

    def __float__(s):
        raise SymbolicEscape("float() of a symbolic integer")

    def __format__(s, spec):
        ENG.stats["formatted"] += 1
        from . import shims
        r = shims.format_symint(s, spec)   # None unless a harness opted in (seq.placeholders_begin)
        return "<sym>" if r is None else r

    def __repr__(s):
        if ENG is not None:
            ENG.stats["formatted"] += 1
        return "<sym>"

    __str__ = __repr__

    def bit_length(s):
        W = ENG.W
        a = z3.If(s.e < 0, -s.e, s.e)
        n = z3.BitVecVal(0, W)
        x = a
        sh = 1
        while sh < W:
            sh <<= 1
        sh >>= 1
        while sh >= 1:
            hi = z3.LShR(x, sh)
            c = hi != 0
            n = z3.If(c, n + sh, n)
            x = z3.If(c, hi, x)
            sh >>= 1
        n = z3.If(x != 0, n + 1, n)
        m = max(abs(s.lo), abs(s.hi))
        r = _mk(n, 0, m.bit_length())
        if type(r) is SymInt:
            r.tag = ("bitlen", s)     # lets `v.bit_length() == constant` be stated as a range test on v
        return r

    def to_bytes(s, length=1, byteorder="big", *, signed=False):
        from .seq import SymBytes
        if signed:
            ok = sym_and(s >= -(1 << (8 * length - 1)), s < (1 << (8 * length - 1)))
        else:
            ok = sym_and(s >= 0, s < (1 << (8 * length)))
        if not ok:
            raise OverflowError("int too big to convert")
        bs = [(s >> (8 * i)) & 0xFF for i in range(length)]
        if byteorder == "big":
            bs.reverse()
        return SymBytes(bs)

    def conjugate(s):
        return s

    @property
    def real(s):
        return s

    @property
    def imag(s):
        return 0

    @property
    def numerator(s):
        return s

    @property
    def denominator(s):
        return 1


# ---------------------------------------------------------------------------
def z3val(v):
    """python int of a z3 numeral (signed interpretation for bit-vectors)."""
    if z3.is_bv_value(v):
        return v.as_signed_long()
    if z3.is_true(v):
        return True
    if z3.is_false(v):
        return False
    if z3.is_int_value(v):
        return v.as_long()
    raise EngineError(f"not a value: {v}")


class Engine:
    def __init__(self, W=96, timeout_ms=20000, max_paths=100000, max_decisions=2000,
                 choose_limit=64):
        self.W = W
        self.timeout_ms = timeout_ms
        self.max_paths = max_paths
        self.max_decisions = max_decisions
        self.choose_limit = choose_limit
        self.hash_collapse = False
        # opt-in (harness sets ENG.staged_check): a feasibility query the incremental solver does not decide
        # within staged_quick_ms is tried through the exact linear-integer translation (symx/solve.py: systems of
        # linear inequalities are hard to bit-blast), then handed to a fresh QF_BV tactic solver (much better
        # at unsatisfiable arithmetic), then tried with * / % abstracted to uninterpreted functions (only
        # 'unsat' transfers), before it counts as unknown
        self.staged_check = False
        self.staged_quick_ms = 1500
        self.solver = z3.Solver()
        self.solver.set("timeout", timeout_ms)
        self.stats = dict(paths=0, decisions=0, feas_queries=0, feas_unknown=0, solver_s=0.0,
                          cut_paths=0, aborted_paths=0, formatted=0, chooses=0)
        self.inputs = {}       # name -> SymInt / SymBool (declared symbolic inputs)
        self.base = []         # constraints from declared input ranges / assumptions made
        self.prefix = []
        self.pos = 0
        self.pc = []
        self.model = None
        self.new_alts = []
        self.path_started = False

    def activate(self):
        global ENG
        ENG = self
        return self

    # -- declared inputs ---------------------------------------------------
    def int(self, name, lo, hi):
        assert lo <= hi
        if name in self.inputs:
            raise EngineError(f"duplicate input {name}")
        if lo == hi:
            self.inputs[name] = lo
            return lo
        v = z3.BitVec(name, self.W)
        s = SymInt(v, lo, hi)
        self._add(z3.And(v >= lo, v <= hi))
        self.inputs[name] = s
        return s

    def bool(self, name):
        v = z3.Bool(name)
        s = SymBool(v)
        self.inputs[name] = s
        return s

    def _add(self, c):
        self.pc.append(c)
        self.solver.add(c)
        if self.model is not None:
            try:
                if not z3.is_true(self.model.eval(c, model_completion=True)):
                    self.model = None
            except z3.Z3Exception:
                self.model = None

    # -- solver plumbing ---------------------------------------------------
    def _check(self, *extra):
        t0 = time.time()
        self.stats["feas_queries"] += 1
        scoped = bool(extra) or self.staged_check   # (a scope also selects z3's incremental core from the first query on)
        if scoped:
            self.solver.push()
            self.solver.add(*extra)
        m = None
        if self.staged_check:
            self.solver.set("timeout", min(self.staged_quick_ms, self.timeout_ms))
            r = self.solver.check()
            self.solver.set("timeout", self.timeout_ms)
            if r == z3.sat:
                m = self.solver.model()
            elif r == z3.unknown:
                from . import solve
                r, m = solve.check_int(self.pc, extra, min(10000, self.timeout_ms))
                if r != z3.unknown:
                    self.stats["int_checks"] = self.stats.get("int_checks", 0) + 1
                else:
                    r, m = solve.check_fresh(list(self.pc) + list(extra), self.timeout_ms)
                    self.stats["fresh_checks"] = self.stats.get("fresh_checks", 0) + 1
                if r == z3.unknown and solve.uf_unsat(list(self.pc) + list(extra), min(5000, self.timeout_ms)):
                    r = z3.unsat
                    self.stats["uf_pruned"] = self.stats.get("uf_pruned", 0) + 1
        else:
            r = self.solver.check()
            m = self.solver.model() if r == z3.sat else None
        if scoped:
            self.solver.pop()
        self.stats["solver_s"] += time.time() - t0
        if r == z3.unknown:
            self.stats["feas_unknown"] += 1
        return str(r), m

    def current_model(self):
        """A model of the current path condition (None if infeasible/unknown)."""
        if self.model is None:
            r, m = self._check()
            self.model = m
        return self.model

    def _eval_bool(self, cond):
        m = self.current_model()
        if m is None:
            return None
        v = m.eval(cond, model_completion=True)
        if z3.is_true(v):
            return True
        if z3.is_false(v):
            return False
        return None

    # -- forking -----------------------------------------------------------
    def decide(self, cond):
        cond = z3.simplify(cond)
        if z3.is_true(cond):
            return True
        if z3.is_false(cond):
            return False
        if self.pos < len(self.prefix):
            kind, d = self.prefix[self.pos]
            if kind != "b":
                raise EngineError("non-deterministic re-execution (expected bool decision)")
            self.pos += 1
            self._add(cond if d else z3.Not(cond))
            return d
        if len(self.prefix) >= self.max_decisions:
            raise PathCut("max decisions per path")
        self.stats["decisions"] += 1
        guess = self._eval_bool(cond)
        if guess is None:
            # no model: query both sides
            rt, mt = self._check(cond)
            rf, mf = self._check(z3.Not(cond))
            t = rt != "unsat"
            f = rf != "unsat"
            if t and f:
                self.new_alts.append(self.prefix[: self.pos] + [("b", False)])
                take = True
                self.model = mt
            elif t:
                take = True
                self.model = mt
            elif f:
                take = False
                self.model = mf
            else:
                raise Abort()
        else:
            other = z3.Not(cond) if guess else cond
            ro, mo = self._check(other)
            if ro != "unsat":
                self.new_alts.append(self.prefix[: self.pos] + [("b", not guess)])
            take = guess
        self.prefix = self.prefix[: self.pos] + [("b", take)]
        self.pos += 1
        m = self.model
        self._add(cond if take else z3.Not(cond))
        self.model = m  # still a model: it satisfies the side taken
        return take

    def choose(self, s):
        """Concretise a SymInt by forking over its feasible values (bounded)."""
        e = z3.simplify(s.e)
        if z3.is_bv_value(e):
            return e.as_signed_long()
        if self.pos < len(self.prefix):
            kind, v = self.prefix[self.pos]
            if kind != "v":
                raise EngineError("non-deterministic re-execution (expected value choice)")
            self.pos += 1
            self._add(e == v)
            return v
        if len(self.prefix) >= self.max_decisions:
            raise PathCut("max decisions per path")
        self.stats["chooses"] += 1
        vals = []
        self.solver.push()
        try:
            while True:
                t0 = time.time()
                self.stats["feas_queries"] += 1
                r = self.solver.check()
                self.stats["solver_s"] += time.time() - t0
                if r == z3.unsat:
                    break
                if r == z3.unknown:
                    raise SymbolicEscape("unknown while enumerating values of a symbolic index")
                v = self.solver.model().eval(e, model_completion=True).as_signed_long()
                vals.append(v)
                if len(vals) > self.choose_limit:
                    raise SymbolicEscape(
                        f"symbolic value used as index/hash has more than {self.choose_limit} feasible values")
                self.solver.add(e != v)
        finally:
            self.solver.pop()
        if not vals:
            raise Abort()
        vals.sort()
        for v in vals[1:]:
            self.new_alts.append(self.prefix[: self.pos] + [("v", v)])
        v = vals[0]
        self.prefix = self.prefix[: self.pos] + [("v", v)]
        self.pos += 1
        self._add(e == v)
        return v

    def lemma(self, c):
        """Record a VALID bit-vector fact (true under every assignment) that helps the solver;
        being a theorem it changes neither the set of paths nor any verdict."""
        self._add(c)

    def assume(self, b):
        """Constrain the path without forking; abort the path if infeasible."""
        if isinstance(b, (SymBool, SymInt)):
            c = z3.simplify(tobool(b))
            if z3.is_true(c):
                return
            if z3.is_false(c):
                raise Abort()
            self._add(c)
            if self.current_model() is None:
                r, m = self._check()
                if r == "unsat":
                    raise Abort()
        elif not b:
            raise Abort()

    # -- exploration -------------------------------------------------------
    def explore(self, body, on_path):
        """Run body() once per feasible path.  on_path(kind, value) is called with
        kind in {'done','cut'}; body returns the value for 'done'."""
        stack = [[]]
        while stack:
            if self.stats["paths"] >= self.max_paths:
                self.stats["cut_paths"] += len(stack)
                return False
            prefix = stack.pop()
            self.prefix = prefix
            self.pos = 0
            self.pc = []
            self.model = None
            self.new_alts = []
            self.inputs = {}
            self.solver.reset()
            self.solver.set("timeout", self.timeout_ms)
            try:
                r = body()
                self.stats["paths"] += 1
                on_path("done", r)
            except Abort:
                self.stats["aborted_paths"] += 1
            except PathCut as c:
                self.stats["paths"] += 1
                self.stats["cut_paths"] += 1
                on_path("cut", str(c))
            stack.extend(self.new_alts)
        return True

    # -- model helpers -----------------------------------------------------
    def model_inputs(self, model):
        out = {}
        for k, v in self.inputs.items():
            out[k] = evaluate(v, model)
        return out


def evaluate(obj, model):
    """Replace every symbolic leaf of a plain data structure by its value in model."""
    from .seq import SymBytes, SymByteArray, SymStr
    if type(obj) is SymInt:
        return model.eval(obj.e, model_completion=True).as_signed_long()
    if type(obj) is SymBool:
        return z3.is_true(model.eval(obj.e, model_completion=True))
    if isinstance(obj, SymStr):
        return "".join(chr(evaluate(c, model)) for c in obj.cps)
    if isinstance(obj, SymByteArray):
        return bytearray(evaluate(c, model) & 0xFF for c in obj.lst)
    if isinstance(obj, SymBytes):
        return bytes(evaluate(c, model) & 0xFF for c in obj.lst)
    if isinstance(obj, tuple):
        return tuple(evaluate(x, model) for x in obj)
    if isinstance(obj, list):
        return [evaluate(x, model) for x in obj]
    if isinstance(obj, dict):
        return {evaluate(k, model): evaluate(v, model) for k, v in obj.items()}
    return obj


def sym_eq(a, b):
    """Structural equality of plain data that may contain symbolic leaves -> bool/SymBool."""
    from .seq import SymBytes, SymStr
    if isinstance(a, (SymInt, SymBool)) or isinstance(b, (SymInt, SymBool)):
        return a == b
    if isinstance(a, (SymBytes, SymStr)):
        return a == b
    if isinstance(b, (SymBytes, SymStr)):
        return b == a
    if isinstance(a, (tuple, list)) and isinstance(b, (tuple, list)):
        if len(a) != len(b):
            return False
        return sym_and(*[sym_eq(x, y) for x, y in zip(a, b)]) if a else True
    if isinstance(a, dict) and isinstance(b, dict):
        if set(a) != set(b):
            return False
        return sym_and(*[sym_eq(a[k], b[k]) for k in a]) if a else True
    return a == b


def is_sym(x):
    return isinstance(x, (SymInt, SymBool))


# ---------------------------------------------------------------------------
# bridges between SymInt and fixed-width z3 terms (used by reference definitions)
def to_bv(x, n):
    """low n bits of an int / SymInt as a z3 bit-vector of width n"""
    if type(x) is SymInt:
        W = ENG.W
        if n <= W:
            return z3.Extract(n - 1, 0, x.e)
        return z3.SignExt(n - W, x.e)
    if type(x) is SymBool:
        return to_bv(x.as_int(), n)
    return z3.BitVecVal(int(x) & ((1 << n) - 1), n)


def from_bv(e, signed=False):
    """SymInt holding the (un)signed value of a z3 bit-vector term narrower than W"""
    n = e.size()
    W = ENG.W
    if n >= W:
        raise EngineBound(f"from_bv: width {n} does not fit engine width {W}")
    if signed:
        return _mk(z3.SignExt(W - n, e), -(1 << (n - 1)), (1 << (n - 1)) - 1)
    return _mk(z3.ZeroExt(W - n, e), 0, (1 << n) - 1)


def any_sym(*xs):
    return any(type(x) in (SymInt, SymBool) for x in xs)
