"""If-conversion of the REAL source of a function (regenerated from /repo on every run).

An `if` whose branches only assign local names with exception-free integer expressions
(+ - * & | ^ ~, shifts by constants, comparisons, conditional expressions) is rewritten so
that, when its test is symbolic, both branches are executed and the assigned locals are
merged with if-then-else terms instead of forking.  The transformation is semantics-
preserving for such bodies; everything else in the function is left untouched.
"""
import ast
import inspect
import textwrap
import z3
from . import core
from .core import SymInt, SymBool, ite, SymbolicEscape

_SAFE_BIN = (ast.Add, ast.Sub, ast.Mult, ast.BitAnd, ast.BitOr, ast.BitXor)
_SHIFT = (ast.LShift, ast.RShift)


def _pure_expr(e):
    if isinstance(e, (ast.Name, ast.Constant)):
        return True
    if isinstance(e, ast.BinOp):
        if isinstance(e.op, _SAFE_BIN):
            return _pure_expr(e.left) and _pure_expr(e.right)
        if isinstance(e.op, _SHIFT):
            return _pure_expr(e.left) and isinstance(e.right, ast.Constant) and \
                isinstance(e.right.value, int) and e.right.value >= 0
        return False
    if isinstance(e, ast.UnaryOp):
        return isinstance(e.op, (ast.USub, ast.Invert, ast.UAdd)) and _pure_expr(e.operand)
    return False


def _pure_stmts(stmts, names):
    for s in stmts:
        if isinstance(s, ast.Assign):
            if len(s.targets) != 1 or not isinstance(s.targets[0], ast.Name) or not _pure_expr(s.value):
                return False
            names.add(s.targets[0].id)
        elif isinstance(s, ast.AugAssign):
            if not isinstance(s.target, ast.Name) or not _pure_expr(s.value):
                return False
            if not isinstance(s.op, _SAFE_BIN) and not (
                    isinstance(s.op, _SHIFT) and isinstance(s.value, ast.Constant)):
                return False
            names.add(s.target.id)
        elif isinstance(s, ast.Pass):
            pass
        elif isinstance(s, ast.If):
            if not (_pure_stmts(s.body, names) and _pure_stmts(s.orelse, names)):
                return False
        else:
            return False
    return True


class _Conv(ast.NodeTransformer):
    def __init__(self):
        self.n = 0
        self.converted = 0

    def visit_If(self, node):
        self.generic_visit(node)
        names = set()
        if not (_pure_stmts(node.body, names) and _pure_stmts(node.orelse, names)) or not names:
            return node
        self.converted += 1
        k = self.n
        self.n += 1
        ns = sorted(names)
        tup = lambda ctx: ast.Tuple(elts=[ast.Name(id=n, ctx=ctx()) for n in ns], ctx=ctx())
        c = f"__c{k}"
        src = f"""
{c} = __symx_test(0)
if {c} is True:
    pass
elif {c} is False:
    pass
else:
    __s{k} = 0
    pass
    __t{k} = 0
    __r{k} = __s{k}
    pass
    __e{k} = 0
    __m{k} = __symx_merge({c}, __t{k}, __e{k})
"""
        tmpl = ast.parse(textwrap.dedent(src)).body
        tmpl[0].value.args = [node.test]
        iff = tmpl[1]
        iff.body = node.body
        el = iff.orelse[0]
        el.body = node.orelse or [ast.Pass()]
        sym = el.orelse
        import copy
        sym[0].value = tup(ast.Load)
        sym[1:2] = copy.deepcopy(node.body)
        i = 1 + len(node.body)
        sym[i].value = tup(ast.Load)                       # __t = (...)
        sym[i + 1] = ast.Assign(targets=[tup(ast.Store)], value=ast.Name(id=f"__s{k}", ctx=ast.Load()))
        sym[i + 2:i + 3] = copy.deepcopy(node.orelse) or [ast.Pass()]
        j = i + 2 + max(len(node.orelse), 1)
        sym[j].value = tup(ast.Load)                       # __e = (...)
        sym[j + 1] = ast.Assign(targets=[tup(ast.Store)],
                                value=ast.Call(func=ast.Name(id="__symx_merge", ctx=ast.Load()),
                                               args=[ast.Name(id=c, ctx=ast.Load()),
                                                     ast.Name(id=f"__t{k}", ctx=ast.Load()),
                                                     ast.Name(id=f"__e{k}", ctx=ast.Load())], keywords=[]))
        return tmpl


def _test(x):
    if type(x) is SymInt:
        x = x != 0
    if type(x) is SymBool:
        e = z3.simplify(x.e)
        if z3.is_true(e):
            return True
        if z3.is_false(e):
            return False
        return x
    return bool(x)


def _merge(c, t, e):
    out = []
    for a, b in zip(t, e):
        if a is b:
            out.append(a)
        elif isinstance(a, (int, SymInt, SymBool)) and isinstance(b, (int, SymInt, SymBool)):
            out.append(ite(c, a, b))
        else:
            raise SymbolicEscape("if-conversion: cannot merge non-integer locals")
    return tuple(out)


def convert(fn):
    """return a new function object compiled from fn's current source with pure ifs converted"""
    src = textwrap.dedent(inspect.getsource(fn))
    tree = ast.parse(src)
    conv = _Conv()
    tree = conv.visit(tree)
    ast.fix_missing_locations(tree)
    glb = dict(fn.__globals__)
    glb["__symx_test"] = _test
    glb["__symx_merge"] = _merge
    code = compile(tree, inspect.getsourcefile(fn) or "<ifconv>", "exec")
    ns = {}
    exec(code, glb, ns)
    new = ns[fn.__name__]
    new.__symx_converted__ = conv.converted
    return new
