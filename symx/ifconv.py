"""If-conversion of the REAL source of a function (regenerated from /repo on every run).

An `if` whose branches only assign local names with exception-free integer expressions
(+ - * & | ^ ~, shifts by constants, comparisons, conditional expressions) is rewritten so
that, when its test is symbolic, both branches are executed and the assigned locals are
merged with if-then-else terms instead of forking.  The transformation is semantics-
preserving for such bodies; everything else in the function is left untouched.
"""
import ast
import inspect
import textwrap
import z3
from . import core
from .core import SymInt, SymBool, ite, SymbolicEscape

_SAFE_BIN = (ast.Add, ast.Sub, ast.Mult, ast.BitAnd, ast.BitOr, ast.BitXor)
_SHIFT = (ast.LShift, ast.RShift)


_EXT = [False]     # extended mode (convert(fn, extended=True)): `not x` and pure conditional expressions count as pure


def _pure_expr(e):
    if isinstance(e, (ast.Name, ast.Constant)):
        return True
    if _EXT[0]:
        if isinstance(e, ast.UnaryOp) and isinstance(e.op, ast.Not):
            return _pure_expr(e.operand)
        if isinstance(e, ast.IfExp):
            return _pure_expr(e.test) and _pure_expr(e.body) and _pure_expr(e.orelse)
        if isinstance(e, ast.Call) and isinstance(e.func, ast.Name) and not e.keywords:
            # the calls this transformer itself puts in place of `not x` / `a if t else b`
            if e.func.id == "__symx_not":
                return all(_pure_expr(a) for a in e.args)
            if e.func.id == "__symx_ifexp":
                return _pure_expr(e.args[0]) and all(_pure_expr(a.body) for a in e.args[1:])
    if isinstance(e, ast.BinOp):
        if isinstance(e.op, _SAFE_BIN):
            return _pure_expr(e.left) and _pure_expr(e.right)
        if isinstance(e.op, _SHIFT):
            return _pure_expr(e.left) and isinstance(e.right, ast.Constant) and \
                isinstance(e.right.value, int) and e.right.value >= 0
        return False
    if isinstance(e, ast.UnaryOp):
        return isinstance(e.op, (ast.USub, ast.Invert, ast.UAdd)) and _pure_expr(e.operand)
    return False


def _pure_stmts(stmts, names):
    for s in stmts:
        if isinstance(s, ast.Assign):
            if len(s.targets) != 1 or not isinstance(s.targets[0], ast.Name) or not _pure_expr(s.value):
                return False
            names.add(s.targets[0].id)
        elif isinstance(s, ast.AugAssign):
            if not isinstance(s.target, ast.Name) or not _pure_expr(s.value):
                return False
            if not isinstance(s.op, _SAFE_BIN) and not (
                    isinstance(s.op, _SHIFT) and isinstance(s.value, ast.Constant)):
                return False
            names.add(s.target.id)
        elif isinstance(s, ast.Pass):
            pass
        elif isinstance(s, ast.If):
            if not (_pure_stmts(s.body, names) and _pure_stmts(s.orelse, names)):
                return False
        else:
            return False
    return True


class _Conv(ast.NodeTransformer):
    def __init__(self, extended=False):
        self.n = 0
        self.converted = 0
        self.extended = extended

    # -- extended mode (opt-in) --------------------------------------------------------------------
    # * `if T: return A` directly followed by `return B`  ==  `return A if T else B`  (always)
    # * `A if T else B` with exception-free integer expressions A, B: T is evaluated once, as before; when
    #   it is symbolic both A and B are evaluated (pure) and merged with if-then-else instead of forking
    # * `not x` -> sym_not(x) (identical on concrete values; no fork on a symbolic truth value)
    def _fold_returns(self, body):
        out = []
        i = 0
        while i < len(body):
            s = body[i]
            if (isinstance(s, ast.If) and not s.orelse and len(s.body) == 1 and isinstance(s.body[0], ast.Return)
                    and s.body[0].value is not None and i + 1 < len(body) and isinstance(body[i + 1], ast.Return)
                    and body[i + 1].value is not None):
                out.append(ast.Return(value=ast.IfExp(test=s.test, body=s.body[0].value, orelse=body[i + 1].value)))
                i += 2
                continue
            out.append(s)
            i += 1
        return out

    def visit_FunctionDef(self, node):
        if self.extended:
            node.body = self._fold_returns(node.body)
        self.generic_visit(node)
        return node

    def visit_IfExp(self, node):
        if not self.extended or not (_pure_expr(node.body) and _pure_expr(node.orelse)):
            self.generic_visit(node)
            return node
        self.generic_visit(node)
        self.converted += 1
        noargs = ast.arguments(posonlyargs=[], args=[], kwonlyargs=[], kw_defaults=[], defaults=[])
        return ast.Call(func=ast.Name(id="__symx_ifexp", ctx=ast.Load()),
                        args=[node.test, ast.Lambda(args=noargs, body=node.body),
                              ast.Lambda(args=copy_args(noargs), body=node.orelse)], keywords=[])

    def visit_UnaryOp(self, node):
        self.generic_visit(node)
        if self.extended and isinstance(node.op, ast.Not):
            return ast.Call(func=ast.Name(id="__symx_not", ctx=ast.Load()), args=[node.operand], keywords=[])
        return node

    def visit_If(self, node):
        self.generic_visit(node)
        names = set()
        if not (_pure_stmts(node.body, names) and _pure_stmts(node.orelse, names)) or not names:
            return node
        self.converted += 1
        k = self.n
        self.n += 1
        ns = sorted(names)
        tup = lambda ctx: ast.Tuple(elts=[ast.Name(id=n, ctx=ctx()) for n in ns], ctx=ctx())
        c = f"__c{k}"
        src = f"""
{c} = __symx_test(0)
if {c} is True:
    pass
elif {c} is False:
    pass
else:
    __s{k} = 0
    pass
    __t{k} = 0
    __r{k} = __s{k}
    pass
    __e{k} = 0
    __m{k} = __symx_merge({c}, __t{k}, __e{k})
"""
        tmpl = ast.parse(textwrap.dedent(src)).body
        tmpl[0].value.args = [node.test]
        iff = tmpl[1]
        iff.body = node.body
        el = iff.orelse[0]
        el.body = node.orelse or [ast.Pass()]
        sym = el.orelse
        import copy
        sym[0].value = tup(ast.Load)
        if self.extended:
            # a name first bound inside the branches (e.g. `sign` in if/else) is not readable yet:
            # save/restore through locals() with a sentinel; merging a still-unbound name escapes
            sym[0].value = ast.parse("__symx_snap(locals(), %r)" % (tuple(ns),)).body[0].value
        sym[1:2] = copy.deepcopy(node.body)
        i = 1 + len(node.body)
        sym[i].value = tup(ast.Load)                       # __t = (...)
        sym[i + 1] = ast.Assign(targets=[tup(ast.Store)], value=ast.Name(id=f"__s{k}", ctx=ast.Load()))
        sym[i + 2:i + 3] = copy.deepcopy(node.orelse) or [ast.Pass()]
        j = i + 2 + max(len(node.orelse), 1)
        sym[j].value = tup(ast.Load)                       # __e = (...)
        sym[j + 1] = ast.Assign(targets=[tup(ast.Store)],
                                value=ast.Call(func=ast.Name(id="__symx_merge", ctx=ast.Load()),
                                               args=[ast.Name(id=c, ctx=ast.Load()),
                                                     ast.Name(id=f"__t{k}", ctx=ast.Load()),
                                                     ast.Name(id=f"__e{k}", ctx=ast.Load())], keywords=[]))
        return tmpl


def _test(x):
    if type(x) is SymInt:
        x = x != 0
    if type(x) is SymBool:
        e = z3.simplify(x.e)
        if z3.is_true(e):
            return True
        if z3.is_false(e):
            return False
        return x
    return bool(x)


def copy_args(a):
    import copy
    return copy.deepcopy(a)


def _ifexp(c, fa, fb):
    c = _test(c)
    if c is True:
        return fa()
    if c is False:
        return fb()
    return _merge(c, (fa(),), (fb(),))[0]


class _Unbound:
    def __repr__(self):
        return "<unbound local>"


_UNBOUND = _Unbound()


def _merge(c, t, e):
    out = []
    for a, b in zip(t, e):
        if a is b:
            out.append(a)
        elif a is _UNBOUND or b is _UNBOUND:
            raise SymbolicEscape("if-conversion: local bound on one side of a symbolic branch only")
        elif isinstance(a, (int, SymInt, SymBool)) and isinstance(b, (int, SymInt, SymBool)):
            out.append(ite(c, a, b))
        else:
            raise SymbolicEscape("if-conversion: cannot merge non-integer locals")
    return tuple(out)


def convert(fn, extended=False):
    """return a new function object compiled from fn's current source with pure ifs converted
    (extended=True: additionally early-return ifs, pure conditional expressions and `not`, see _Conv)"""
    src = textwrap.dedent(inspect.getsource(fn))
    tree = ast.parse(src)
    conv = _Conv(extended)
    _EXT[0] = bool(extended)
    try:
        tree = conv.visit(tree)
    finally:
        _EXT[0] = False
    ast.fix_missing_locations(tree)
    glb = dict(fn.__globals__)
    glb["__symx_test"] = _test
    glb["__symx_merge"] = _merge
    glb["__symx_ifexp"] = _ifexp
    glb["__symx_not"] = core.sym_not
    glb["__symx_snap"] = lambda loc, names: tuple(loc.get(n, _UNBOUND) for n in names)
    code = compile(tree, inspect.getsourcefile(fn) or "<ifconv>", "exec")
    ns = {}
    exec(code, glb, ns)
    new = ns[fn.__name__]
    new.__symx_converted__ = conv.converted
    return new
