"""Check driver: runs a property module's jobs on a process pool, aggregates results,
writes evidence/<id>.json, prints KNOWN-FINDING / VIOLATION / INCONCLUSIVE lines, sets the exit code.

Exit codes: 0 = property held on everything explored (or only listed known findings);
            1 = violation (reproduced concretely on the real code);
            3 = harness/engine error (non-reproducing model, escape, vacuity ...).
"""
import os
import sys
import json
import time
import signal
import importlib
import traceback
import multiprocessing as mp

ROOT = os.path.dirname(os.path.dirname(os.path.abspath(__file__)))
REPO = os.environ.get("PPCI_REPO", "/repo")


def _setup_path():
    if REPO not in sys.path:
        sys.path.insert(0, REPO)
    if ROOT not in sys.path:
        sys.path.insert(0, ROOT)
    sys.dont_write_bytecode = True


class JobTimeout(BaseException):
    pass


def _alarm(signum, frame):
    raise JobTimeout()


def _worker(args):
    prop, job, known_path, hard_timeout = args
    _setup_path()
    sys.setrecursionlimit(10000)
    from symx import harness as H
    name, kwargs = job
    t0 = time.time()
    try:
        mod = importlib.import_module(f"props.{prop}")
        signal.signal(signal.SIGALRM, _alarm)
        signal.alarm(int(hard_timeout))
        try:
            obj = getattr(mod, name)(**kwargs)
            if isinstance(obj, H.Harness):
                known = H.load_known(known_path, prop)
                res = H.run_harness(obj, known, deadline=t0 + hard_timeout * 0.9)
            else:
                res = obj
        finally:
            signal.alarm(0)
        res.setdefault("job", [name, kwargs])
        return res
    except JobTimeout:
        return dict(job=[name, kwargs], harness=f"{name}{kwargs}", timeout=True, wall_s=time.time() - t0,
                    errors=[], violations=[], known_hits=[],
                    inconclusive=[dict(harness=f"{name}{kwargs}", what=f"job timeout after {hard_timeout}s")])
    except BaseException as e:
        return dict(job=[name, kwargs], harness=f"{name}{kwargs}", wall_s=time.time() - t0,
                    errors=[dict(kind="worker-exception", harness=f"{name}{kwargs}", error=repr(e),
                                 tb=traceback.format_exc()[-2000:])],
                    violations=[], known_hits=[], inconclusive=[])


def run_property(prop, tier, seed, nproc=None):
    _setup_path()
    t0 = time.time()
    mod = importlib.import_module(f"props.{prop}")
    os.environ["VERIF_TIER_ACTIVE"] = tier
    jobs = mod.jobs(tier, seed)
    known_path = os.path.join(ROOT, "known_findings.json")
    hard = getattr(mod, "JOB_TIMEOUT", {"quick": 300, "thorough": 1800})[tier]
    nproc = nproc or int(os.environ.get("VERIF_NPROC", "0"))
    if not nproc:
        nproc = min(16, os.cpu_count() or 4)
        try:    # shared machine: do not pile 16 more workers onto an overloaded box
            load = os.getloadavg()[0]
            if load > 2 * nproc:
                nproc = max(4, nproc // 4)
        except OSError:
            pass
    args = [(prop, j, known_path, hard) for j in jobs]
    results = []
    if nproc == 1 or len(jobs) == 1:
        for a in args:
            results.append(_worker(a))
    else:
        ctx = mp.get_context("fork")
        with ctx.Pool(min(nproc, len(jobs)), maxtasksperchild=getattr(mod, "TASKS_PER_CHILD", 8)) as pool:
            for r in pool.imap_unordered(_worker, args, chunksize=1):
                results.append(r)
    return finish(prop, mod, tier, seed, jobs, results, time.time() - t0)


def finish(prop, mod, tier, seed, jobs, results, wall):
    from symx import shims
    os.makedirs(os.path.join(ROOT, "evidence"), exist_ok=True)
    os.makedirs(os.path.join(ROOT, "replays"), exist_ok=True)
    violations, known_hits, inconclusive, errors = [], [], [], []
    funcs = set()
    samples = []
    tot = dict(paths=0, decisions=0, obligations=0, discharged=0, validated=0, reached=0, twin=0,
               feas_queries=0, cut_paths=0, programs=0, disagreements=0)
    solver = {}
    solver_s = 0.0
    per_harness = []
    exhaustive = True
    nontrivial = 0
    for r in results:
        violations += r.get("violations", [])
        known_hits += r.get("known_hits", [])
        inconclusive += r.get("inconclusive", [])
        errors += r.get("errors", [])
        funcs.update(r.get("funcs", []))
        for s in r.get("samples", [])[:1]:
            if len(samples) < 12:
                samples.append(s)
        st = r.get("stats", {})
        tot["paths"] += st.get("paths", 0)
        tot["decisions"] += st.get("decisions", 0) + st.get("chooses", 0)
        tot["feas_queries"] += st.get("feas_queries", 0)
        tot["cut_paths"] += st.get("cut_paths", 0)
        tot["obligations"] += r.get("obligations", 0)
        tot["discharged"] += r.get("discharged", 0)
        tot["validated"] += r.get("validated", 0)
        tot["reached"] += r.get("reached", 0)
        tot["twin"] += r.get("twin_violated", 0)
        tot["programs"] += r.get("programs", 0)
        tot["disagreements"] += r.get("disagreements_checked", 0)
        solver_s += st.get("solver_s", 0.0) + r.get("solver", {}).get("solver_s", 0.0)
        for k, v in r.get("solver", {}).items():
            if k != "solver_s":
                solver[k] = solver.get(k, 0) + v
        if not r.get("exhaustive", False):
            exhaustive = False
        if st.get("paths", 0) > 1 or r.get("nontrivial", 0):
            nontrivial += r.get("nontrivial", 1)
        per_harness.append(dict(harness=r.get("harness"), paths=st.get("paths", 0),
                                obligations=r.get("obligations", 0), discharged=r.get("discharged", 0),
                                outcomes=r.get("outcomes", {}), wall_s=round(r.get("wall_s", 0.0), 2),
                                exhaustive=r.get("exhaustive", False)))
    # replay files + lines
    lines = []
    seen_known = {}
    for k in known_hits:
        seen_known.setdefault(k["ident"], k)
    for ident, k in sorted(seen_known.items()):
        lines.append(f"KNOWN-FINDING: property={prop} {ident}: {k['what']} (e.g. inputs {json.dumps(k['inputs'])[:200]})")
    for i, v in enumerate(violations):
        path = os.path.join(ROOT, "replays", f"{prop}-{i}.json")
        with open(path, "w") as f:
            json.dump(dict(property=prop, **v), f, indent=1)
        lines.append(f"VIOLATION property={prop} replay={path}")
        lines.append(f"  harness={v['harness']} label={v.get('label')} inputs={json.dumps(v['inputs'])[:300]}")
    for x in inconclusive[:30]:
        lines.append(f"INCONCLUSIVE property={prop} {json.dumps(x)[:300]}")
    for e in errors[:30]:
        lines.append(f"HARNESS-ERROR property={prop} {json.dumps(e)[:1500]}")
    level = getattr(mod, "LEVEL", "model_checking")
    cov = dict(
        states=max(tot["paths"], 1),
        transitions=max(tot["decisions"], 1),
        traces_validated_against_impl=tot["validated"],
        obligations=tot["obligations"],
        discharged=tot["discharged"],
        samples=samples or [dict(note="no path explored")],
        exhaustive=bool(exhaustive and not inconclusive and not errors),
        evaluations=max(len(results), 1),
        distinct_nontrivial=nontrivial,
        rule=getattr(mod, "RULE", "one evaluation = one harness job (all paths of the real code for all inputs "
                                  "in the stated ranges); non-trivial = explored more than one path"),
        harness_jobs=len(results),
        paths_explored=tot["paths"],
        cut_paths=tot["cut_paths"],
        reachability_twins_violated=tot["twin"],
        feasibility_queries=tot["feas_queries"],
        obligation_queries_by_backend=solver,
        solver_seconds=round(solver_s, 2),
        inconclusive=len(inconclusive),
        known_findings_hit=sorted(seen_known),
        functions_encoded=sorted(funcs),
        bounds=getattr(mod, "BOUNDS", {}).get(tier, getattr(mod, "BOUNDS", {})),
        outside_claim=getattr(mod, "OUTSIDE", []),
        per_harness=per_harness if len(per_harness) <= 400 else per_harness[:400],
    )
    if level == "translation_validation":
        # a job = one (program, configuration); every path's symbolic outcome is compared with a concrete run
        cov["programs"] = tot["programs"] or max(len(results), 1)
        cov["disagreements_checked"] = tot["disagreements"] or tot["validated"]
    ev = dict(property_id=prop, tier=tier, seed=seed, level=level, coverage=cov,
              assumptions=list(getattr(mod, "ASSUMPTIONS", [])) +
              [f"shim: {k}: {v}" for k, v in shims.SHIM_NOTES.items() if k in getattr(mod, "SHIMS_USED", shims.SHIM_NOTES)],
              wall_s=round(wall, 2), violations=len(violations))
    with open(os.path.join(ROOT, "evidence", f"{prop}.json"), "w") as f:
        json.dump(ev, f, indent=1, default=str)
    for ln in lines:
        print(ln)
    print(f"{prop} tier={tier}: jobs={len(results)} paths={tot['paths']} obligations={tot['obligations']} "
          f"discharged={tot['discharged']} validated={tot['validated']} known={len(seen_known)} "
          f"violations={len(violations)} inconclusive={len(inconclusive)} errors={len(errors)} "
          f"wall={wall:.1f}s")
    if violations:
        return 1
    if errors:
        return 3
    return 0


def replay(path):
    """Re-execute a recorded counterexample on the real code, concretely, no shims."""
    _setup_path()
    from symx import harness as H
    d = json.load(open(path))
    mod = importlib.import_module(d["module"])
    job = d.get("job")
    h = None
    if job:
        h = getattr(mod, job[0])(**job[1])
    else:
        h = getattr(mod, d["cls"])(**d["params"])
    inp, out = H.concrete_run(h, d["inputs"])
    posts = H.concrete_post(h, inp, out)
    print("inputs :", d["inputs"])
    print("outcome:", out.plain())
    print("post   :", posts)
    bad = [k for k, v in posts.items() if v is False]
    if bad:
        print(f"VIOLATION property={d['property']} replay={path}")
        return 1
    print("does not reproduce")
    return 0
