"""Shims: replacements for the handful of CPython C-level names ppci code reaches.
They are injected per module (module-global of the same name) by ``inject`` and
removed again by ``restore``; plus one process-wide patch of builtins.isinstance
(active only while shims are on).  Every shim is an assumption listed in evidence.
"""
import builtins
import struct as _struct
import binascii as _binascii
import types
from . import core
from .core import SymInt, SymBool, sym_and, SymbolicEscape, EngineError
from .seq import (SymBytes, SymByteArray, SymStr, sym_bytes, sym_bytearray, sym_ord, sym_chr,
                  _real_bytes, _real_bytearray)

_real_isinstance = builtins.isinstance
_real_int = int
_real_range = range
_real_len = len

SHIM_NOTES = {
    "isinstance": "builtins.isinstance treats symbolic integers as int, symbolic byte strings as bytes/bytearray, symbolic strings as str",
    "int": "int(x) of an integer is x; int.from_bytes/to_bytes are little/big endian base-256",
    "range": "v in range(a,b[,s]) <=> a <= v < b (and (v-a) % s == 0); iteration needs concrete bounds",
    "bytes": "bytes/bytearray have value semantics of sequences of integers 0..255 (ValueError outside)",
    "struct": "struct.pack/unpack: standard sizes, two's complement, struct.error when out of range (CPython docs); no floats",
    "hex": "binascii.hexlify/unhexlify/bytes.fromhex/bytes.hex/hex()/int(s,16) are the usual mutually inverse hex-digit maps",
    "ord": "ord/chr are the identity on code points",
    "bool": "bool(x) of a symbolic integer is its symbolic truth value x != 0",
    "format": "str()/format()/f-string/print of symbolic text or of a symbolic integer with a hex spec ('X', '02X', ...) yields the "
              "same characters as CPython (digit count decided by forking); carried through real str objects as opaque placeholders",
}


def _sym_isinstance(obj, cls):
    t = type(obj)
    if t is SymInt:
        if cls is _real_int or cls is int_shim:
            return True
        if type(cls) is tuple:
            return any(_sym_isinstance(obj, c) for c in cls)
        return _real_isinstance(obj, cls)
    if t is SymBool:
        if cls is bool or cls is _real_int or cls is int_shim:
            return True
        if type(cls) is tuple:
            return any(_sym_isinstance(obj, c) for c in cls)
        return _real_isinstance(obj, cls)
    if t is SymBytes:
        if cls is _real_bytes or cls is sym_bytes:
            return True
        if type(cls) is tuple:
            return any(_sym_isinstance(obj, c) for c in cls)
        return _real_isinstance(obj, cls)
    if t is SymByteArray:
        if cls is _real_bytearray or cls is sym_bytearray:
            return True
        if cls is _real_bytes or cls is sym_bytes:
            return False
        if type(cls) is tuple:
            return any(_sym_isinstance(obj, c) for c in cls)
        return _real_isinstance(obj, cls) and cls is not SymBytes
    if t is SymStr:
        if cls is str:
            return True
        if type(cls) is tuple:
            return any(_sym_isinstance(obj, c) for c in cls)
        return _real_isinstance(obj, cls)
    if cls is int_shim:
        return _real_isinstance(obj, _real_int)
    if cls is sym_bytes:
        return _real_isinstance(obj, _real_bytes)
    if cls is sym_bytearray:
        return _real_isinstance(obj, _real_bytearray)
    if type(cls) is tuple and (int_shim in cls or sym_bytes in cls or sym_bytearray in cls):
        return any(_sym_isinstance(obj, c) for c in cls)
    return _real_isinstance(obj, cls)


# -- int ----------------------------------------------------------------------
_HEXVAL = {c: i for i, c in enumerate("0123456789abcdef")}


def hexdigit_value(c):
    """value of a (possibly symbolic) hex digit code point; forks into the 3 digit classes"""
    if type(c) is not SymInt:
        return _real_int(chr(c), 16)
    if type(c.tag) is tuple and c.tag[0] == "hexdigit":
        return c.tag[1]     # c was produced by _nibble_char(n) (+ case mapping): its digit value is n
    if sym_and(c >= 48, c <= 57):
        return c - 48
    if sym_and(c >= 97, c <= 102):
        return c - 87
    if sym_and(c >= 65, c <= 70):
        return c - 55
    raise ValueError("invalid literal for int() with base 16")


class _IntMeta(type):
    def __instancecheck__(cls, obj):
        return _sym_isinstance(obj, _real_int)

    def __subclasscheck__(cls, sub):
        return issubclass(sub, _real_int)

    def __call__(cls, x=0, *a, **k):
        if type(x) is SymInt:
            return x
        if type(x) is SymBool:
            return x.as_int()
        if hasattr(type(x), "__symint__"):
            return x.__symint__()      # harness-supplied proxy (e.g. model of a float quotient): its integer value
        if type(x) is SymStr:
            base = a[0] if a else k.get("base", 10)
            if base != 16:
                raise SymbolicEscape("int(symbolic str) only for base 16")
            cps = list(x.cps)
            if len(cps) >= 2 and cps[0] == 48 and type(cps[1]) is not SymInt and cps[1] in (88, 120):
                cps = cps[2:]
            v = 0
            for c in cps:
                v = (v << 4) | hexdigit_value(c)
            return v
        return _real_int(x, *a, **k)

    def __eq__(cls, o):
        return o is cls or o is _real_int

    def __hash__(cls):
        return hash(_real_int)


class int_shim(metaclass=_IntMeta):
    @staticmethod
    def from_bytes(b, byteorder="big", *, signed=False):
        if not _real_isinstance(b, SymBytes):
            return _real_int.from_bytes(b, byteorder, signed=signed)
        lst = list(b.lst)
        if byteorder == "big":
            lst.reverse()
        v = 0
        for i, x in enumerate(lst):
            v = v | (x << (8 * i))
        n = len(lst)
        if signed and n:
            v = core.ite(v >= (1 << (8 * n - 1)), v - (1 << (8 * n)), v)
        return v


# -- range --------------------------------------------------------------------
class range_shim:
    def __new__(cls, *a):
        if not any(type(x) in (SymInt, SymBool) for x in a):
            return _real_range(*a)
        return object.__new__(cls)

    def __init__(self, *a):
        if len(a) == 1:
            self.start, self.stop, self.step = 0, a[0], 1
        elif len(a) == 2:
            self.start, self.stop = a
            self.step = 1
        else:
            self.start, self.stop, self.step = a

    def __contains__(self, v):
        if type(self.step) is SymInt:
            raise SymbolicEscape("range with symbolic step")
        if self.step == 1:
            return bool(sym_and(self.start <= v, v < self.stop))
        if self.step > 1:
            return bool(sym_and(self.start <= v, v < self.stop, (v - self.start) % self.step == 0))
        raise SymbolicEscape("range with negative step and symbolic bounds")

    def __iter__(self):
        return iter(_real_range(_real_int(self.start), _real_int(self.stop), _real_int(self.step)))

    def __len__(self):
        return _real_len(_real_range(_real_int(self.start), _real_int(self.stop), _real_int(self.step)))


def _range_contains(r, v):
    """symbolic v in a concrete range"""
    if r.step == 1:
        return bool(sym_and(r.start <= v, v < r.stop))
    if r.step > 1:
        return bool(sym_and(r.start <= v, v < r.stop, (v - r.start) % r.step == 0))
    return bool(sym_and(r.start >= v, v > r.stop, (r.start - v) % (-r.step) == 0))


class _RangeWrap:
    """concrete range whose __contains__ accepts symbolic values"""
    __slots__ = ("r",)

    def __init__(self, r):
        self.r = r

    def __contains__(self, v):
        if type(v) is SymInt:
            return _range_contains(self.r, v)
        if type(v) is SymBool:
            return _range_contains(self.r, v.as_int())
        return v in self.r

    def __iter__(self):
        return iter(self.r)

    def __len__(self):
        return _real_len(self.r)

    def __getitem__(self, i):
        return self.r[i]

    def __reversed__(self):
        return reversed(self.r)

    def __eq__(self, o):
        return self.r == (o.r if type(o) is _RangeWrap else o)

    def __hash__(self):
        return hash(self.r)

    def __repr__(self):
        return repr(self.r)

    @property
    def start(self):
        return self.r.start

    @property
    def stop(self):
        return self.r.stop

    @property
    def step(self):
        return self.r.step


def sym_range(*a):
    if any(type(x) in (SymInt, SymBool) for x in a):
        return range_shim(*a)
    return _RangeWrap(_real_range(*a))


# -- struct ---------------------------------------------------------------------
_SIZES = {"b": (1, True), "B": (1, False), "h": (2, True), "H": (2, False),
          "i": (4, True), "I": (4, False), "l": (4, True), "L": (4, False),
          "q": (8, True), "Q": (8, False), "c": (1, False), "?": (1, False)}
_NATIVE_L = _struct.calcsize("l")


def _parse_fmt(fmt):
    if _real_isinstance(fmt, _real_bytes):
        fmt = fmt.decode()
    order = "@"
    if fmt and fmt[0] in "@=<>!":
        order = fmt[0]
        fmt = fmt[1:]
    items = []
    num = ""
    for ch in fmt:
        if ch.isdigit():
            num += ch
            continue
        if ch.isspace():
            continue
        n = _real_int(num) if num else 1
        num = ""
        if ch == "x":
            items.extend([("x", 1, False)] * n)
        elif ch == "s":
            items.append(("s", n, False))
        elif ch in _SIZES:
            size, signed = _SIZES[ch]
            if ch in "lL" and order == "@":
                size = _NATIVE_L
            items.extend([(ch, size, signed)] * n)
        else:
            raise SymbolicEscape(f"struct format {ch!r} not modelled")
    if order == "@":
        # native alignment is only trivially handled: reject if padding would be needed
        off = 0
        for ch, size, _ in items:
            if ch not in "xs" and off % size:
                raise SymbolicEscape("native-aligned struct format with padding not modelled")
            off += size
    little = order in "<" or (order in "@=" and _struct.pack("=H", 1)[0] == 1)
    return little, items


class struct_shim:
    error = _struct.error
    calcsize = staticmethod(_struct.calcsize)
    Struct = _struct.Struct
    iter_unpack = staticmethod(_struct.iter_unpack)

    @staticmethod
    def pack(fmt, *vals):
        if not any(type(v) in (SymInt, SymBool) or _real_isinstance(v, SymBytes) for v in vals):
            return _struct.pack(fmt, *vals)
        little, items = _parse_fmt(fmt)
        out = []
        vi = 0
        for ch, size, signed in items:
            if ch == "x":
                out.append(0)
                continue
            if vi >= _real_len(vals):
                raise _struct.error("pack expected more items for packing")
            v = vals[vi]
            vi += 1
            if ch == "s":
                bs = list(v)[:size]
                bs += [0] * (size - _real_len(bs))
                out.extend(bs)
                continue
            if type(v) is SymBool:
                v = v.as_int()
            if type(v) is not SymInt and not _real_isinstance(v, _real_int):
                raise _struct.error("required argument is not an integer")
            if signed:
                lo, hi = -(1 << (8 * size - 1)), (1 << (8 * size - 1)) - 1
            else:
                lo, hi = 0, (1 << (8 * size)) - 1
            if not sym_and(v >= lo, v <= hi):
                raise _struct.error(f"'{ch}' format requires {lo} <= number <= {hi}")
            bs = [(v >> (8 * i)) & 0xFF for i in _real_range(size)]
            if not little:
                bs.reverse()
            out.extend(bs)
        if vi != _real_len(vals):
            raise _struct.error("pack got too many items")
        return SymBytes.make(out)

    @staticmethod
    def unpack(fmt, data):
        if not _real_isinstance(data, SymBytes):
            return _struct.unpack(fmt, data)
        little, items = _parse_fmt(fmt)
        total = sum(s for _, s, _ in items)
        if total != _real_len(data):
            raise _struct.error(f"unpack requires a buffer of {total} bytes")
        res = []
        off = 0
        lst = data.lst
        for ch, size, signed in items:
            chunk = lst[off:off + size]
            off += size
            if ch == "x":
                continue
            if ch == "s":
                res.append(SymBytes.make(chunk))
                continue
            if not little:
                chunk = chunk[::-1]
            v = 0
            for i, b in enumerate(chunk):
                v = v | (b << (8 * i))
            if signed:
                v = core.ite(v >= (1 << (8 * size - 1)), v - (1 << (8 * size)), v)
            res.append(v)
        return tuple(res)

    @staticmethod
    def unpack_from(fmt, data, offset=0):
        size = _struct.calcsize(fmt)
        return struct_shim.unpack(fmt, data[offset:offset + size])


# -- hex ------------------------------------------------------------------------
def _nibble_char(n):
    """ascii code of lowercase hex digit for (possibly symbolic) nibble n (no fork)"""
    if type(n) is not SymInt:
        return ord("0123456789abcdef"[n])
    c = core.ite(n < 10, n + 48, n + 87)
    if type(c) is SymInt and n.lo >= 0 and n.hi <= 15:
        c.tag = ("hexdigit", n)
    return c


def format_symint(v, spec):
    """format(v, spec) for a symbolic integer and hex specs '[0][width](x|X)': the digit count is
    decided by forking, the digits stay symbolic (placeholder string, see seq.placeholders_begin).
    Returns None when placeholders are off or the spec is not modelled."""
    from . import seq
    if not seq._PH["on"]:
        return None
    import re
    m = re.fullmatch(r"(0?)(\d*)([xX])", spec)
    if not m or v.lo < 0:
        return None
    zero, width, kind = m.group(1), _real_int(m.group(2) or 0), m.group(3)
    nd = max(1, (v.lo.bit_length() + 3) // 4)
    ndmax = max(1, (v.hi.bit_length() + 3) // 4)
    while nd < ndmax:
        if v < (1 << (4 * nd)):
            break
        nd += 1
    cps = []
    for i in _real_range(nd - 1, -1, -1):
        c = _nibble_char((v >> (4 * i)) & 0xF)
        if kind == "X":
            c = seq._ascii_case(c, 97, -32)
        cps.append(c)
    pad = [48 if zero else 32] * max(0, width - nd)
    return seq.ph_encode(pad + cps)


def sym_hexlify(b):
    if not _real_isinstance(b, SymBytes):
        return _binascii.hexlify(b)
    out = []
    for v in b.lst:
        hi = _nibble_char((v >> 4) & 0xF)
        lo = _nibble_char(v & 0xF)
        if type(hi) is SymInt and type(lo) is SymInt and hi.tag and lo.tag and 0 <= v.lo and v.hi <= 255:
            hi.tag = hi.tag + (v, 1)     # provenance: high / low digit of the byte v
            lo.tag = lo.tag + (v, 0)
        out.append(hi)
        out.append(lo)
    return SymBytes.make(out)


def sym_unhexlify(s):
    if _real_isinstance(s, SymStr):
        cps = s.cps
    elif _real_isinstance(s, SymBytes):
        cps = s.lst
    else:
        return _binascii.unhexlify(s)
    if _real_len(cps) % 2:
        raise _binascii.Error("Odd-length string")
    out = []
    for i in _real_range(0, _real_len(cps), 2):
        th, tl = getattr(cps[i], "tag", None), getattr(cps[i + 1], "tag", None)
        if type(th) is tuple and type(tl) is tuple and _real_len(th) == 4 and _real_len(tl) == 4 \
                and th[0] == tl[0] == "hexdigit" and th[2] is tl[2] and th[3] == 1 and tl[3] == 0:
            out.append(th[2])            # the two digits sym_hexlify made of one byte: that byte
            continue
        try:
            hi = hexdigit_value(cps[i])
            lo = hexdigit_value(cps[i + 1])
        except ValueError:
            raise _binascii.Error("Non-hexadecimal digit found")
        out.append((hi << 4) | lo)
    return SymBytes.make(out)


class binascii_shim:
    Error = _binascii.Error
    hexlify = staticmethod(sym_hexlify)
    unhexlify = staticmethod(sym_unhexlify)
    b2a_hex = staticmethod(sym_hexlify)
    a2b_hex = staticmethod(sym_unhexlify)
    crc32 = staticmethod(_binascii.crc32)


class _BytesMeta(type):
    def __instancecheck__(cls, obj):
        return _sym_isinstance(obj, _real_bytes)

    def __call__(cls, *a, **k):
        return sym_bytes(*a, **k)

    def __eq__(cls, o):
        return o is cls or o is _real_bytes

    def __hash__(cls):
        return hash(_real_bytes)


class bytes_shim(metaclass=_BytesMeta):
    @staticmethod
    def fromhex(s):
        if _real_isinstance(s, SymStr):
            return sym_unhexlify(s)
        return _real_bytes.fromhex(s)

    join = _real_bytes.join


class _ByteArrayMeta(type):
    def __instancecheck__(cls, obj):
        return _sym_isinstance(obj, _real_bytearray)

    def __call__(cls, *a, **k):
        return sym_bytearray(*a, **k)

    def __eq__(cls, o):
        return o is cls or o is _real_bytearray

    def __hash__(cls):
        return hash(_real_bytearray)


class bytearray_shim(metaclass=_ByteArrayMeta):
    pass


def sym_hex(v):
    if type(v) is SymInt:
        raise SymbolicEscape("hex() of a symbolic integer needs a declared width (use harness helper)")
    return hex(v)


def sym_len(x):
    return _real_len(x)


def sym_min(*a, **k):
    if _real_len(a) == 1:
        a = tuple(a[0])
    if not any(type(x) is SymInt for x in a) or k:
        return min(*a, **k) if _real_len(a) > 1 else min(a, **k)
    r = a[0]
    for x in a[1:]:
        r = core.ite(x < r, x, r)
    return r


def sym_max(*a, **k):
    if _real_len(a) == 1:
        a = tuple(a[0])
    if not any(type(x) is SymInt for x in a) or k:
        return max(*a, **k) if _real_len(a) > 1 else max(a, **k)
    r = a[0]
    for x in a[1:]:
        r = core.ite(x > r, x, r)
    return r


class _BoolMeta(type):
    def __instancecheck__(cls, obj):
        return type(obj) is SymBool or _real_isinstance(obj, bool)

    def __call__(cls, x=False):
        if type(x) is SymInt:
            return x != 0
        if type(x) is SymBool:
            return x
        return bool(x)

    def __eq__(cls, o):
        return o is cls or o is bool

    def __hash__(cls):
        return hash(bool)


class bool_shim(metaclass=_BoolMeta):
    """bool(x) of a symbolic integer is the symbolic truth value (no fork until it is branched on)"""


DEFAULT = {
    "bool": bool_shim,
    "int": int_shim,
    "range": sym_range,
    "bytes": bytes_shim,
    "bytearray": bytearray_shim,
    "struct": struct_shim,
    "binascii": binascii_shim,
    "hexlify": sym_hexlify,
    "unhexlify": sym_unhexlify,
    "ord": sym_ord,
    "chr": sym_chr,
    "isinstance": _sym_isinstance,
    "min": sym_min,
    "max": sym_max,
}

_MISSING = object()
_installed = []   # (module, name, previous value)
_active = False


def inject(modules, names=None, extra=None):
    """Install shims as module globals of the given ppci modules (idempotent per call;
    undone by restore()).  Only names that the module already uses as a global/builtin
    matter; a module-level name shadows the builtin for code in that module."""
    global _active
    table = dict(DEFAULT)
    if extra:
        table.update(extra)
    for mod in modules:
        for name, val in table.items():
            if names is not None and name not in names:
                continue
            prev = mod.__dict__.get(name, _MISSING)
            if name in ("struct", "binascii") and prev is _MISSING:
                continue   # module does not import it
            if name in ("hexlify", "unhexlify") and prev is _MISSING:
                continue
            if prev is val:
                continue
            _installed.append((mod, name, prev))
            mod.__dict__[name] = val
    builtins.isinstance = _sym_isinstance
    _active = True


def restore():
    global _active
    while _installed:
        mod, name, prev = _installed.pop()
        if prev is _MISSING:
            mod.__dict__.pop(name, None)
        else:
            mod.__dict__[name] = prev
    builtins.isinstance = _real_isinstance
    _active = False


class shims_off:
    """context manager: run the real code with no shim at all (concrete validation / replay)"""

    def __enter__(self):
        self.was_active = _active
        # remember what is installed now, then put every original value back
        self._cur = [(mod, name, mod.__dict__.get(name, _MISSING)) for mod, name, _ in _installed]
        for mod, name, prev in reversed(_installed):
            if prev is _MISSING:
                mod.__dict__.pop(name, None)
            else:
                mod.__dict__[name] = prev
        builtins.isinstance = _real_isinstance
        return self

    def __exit__(self, *a):
        for mod, name, val in self._cur:
            if val is not _MISSING:
                mod.__dict__[name] = val
        if self.was_active:
            builtins.isinstance = _sym_isinstance
        return False
