"""Harness protocol and the per-job driver.

A Harness describes one unit-level obligation family:

    inputs(mk)      declare symbolic inputs (mk.int(name, lo, hi), mk.bool(name), mk.bytes(name, n) ...)
                    and return them in any structure; in concrete mode mk hands back model values
    run(inp)        call the REAL ppci code; return plain data (ints/bytes/tuples/lists/dicts) or raise
    post(inp, out)  the property: returns bool/SymBool or {label: bool/SymBool}; out is an Outcome
    params          picklable description (for replay files)

The driver explores all paths of run() (+ post(), which may fork as well), proves every
obligation with the solver portfolio, validates every path's symbolic outcome against a
concrete shim-free execution of the real code on a model, replays counterexamples
concretely before they are reported, and honours known findings.
"""
import os
import sys
import time
import json
import traceback
import z3
from . import core, shims, solve
from .core import (Engine, SymInt, SymBool, Abort, PathCut, EngineError, evaluate, tobool,
                   sym_eq)
from .seq import SymBytes, SymByteArray, SymStr

REPO = os.environ.get("PPCI_REPO", "/repo")


class Outcome:
    __slots__ = ("ok", "value", "exc", "exc_obj")

    def __init__(self, ok, value=None, exc=None, exc_obj=None):
        self.ok = ok
        self.value = value
        self.exc = exc
        self.exc_obj = exc_obj

    def raised(self, *names):
        return (not self.ok) and (not names or self.exc in names)

    def plain(self):
        return ("ok", self.value) if self.ok else ("exc", self.exc)

    def __repr__(self):
        return f"Outcome({self.plain()!r})"


class SymMaker:
    def __init__(self, eng):
        self.eng = eng

    def int(self, name, lo, hi):
        return self.eng.int(name, lo, hi)

    def bool(self, name):
        return self.eng.bool(name)

    def bytes(self, name, n):
        return SymBytes.make([self.eng.int(f"{name}[{i}]", 0, 255) for i in range(n)])

    def bytearray(self, name, n):
        return SymByteArray([self.eng.int(f"{name}[{i}]", 0, 255) for i in range(n)])

    def str(self, name, n, lo=0, hi=127):
        return SymStr.make([self.eng.int(f"{name}[{i}]", lo, hi) for i in range(n)])

    def assume(self, c):
        self.eng.assume(c)

    symbolic = True


class ConcreteMaker:
    """hands back the values of a model / replay file under the same names"""

    def __init__(self, values):
        self.values = values

    def int(self, name, lo, hi):
        if lo == hi:
            return lo
        return int(self.values[name])

    def bool(self, name):
        return bool(self.values[name])

    def bytes(self, name, n):
        return bytes(self.int(f"{name}[{i}]", 0, 255) for i in range(n))

    def bytearray(self, name, n):
        return bytearray(self.int(f"{name}[{i}]", 0, 255) for i in range(n))

    def str(self, name, n, lo=0, hi=127):
        return "".join(chr(self.int(f"{name}[{i}]", lo, hi)) for i in range(n))

    def assume(self, c):
        if not c:
            raise Abort()

    symbolic = False


class Harness:
    name = "?"
    W = 96
    max_paths = 20000
    max_decisions = 4000
    choose_limit = 64
    timeout_ms = 20000
    prove_timeout_ms = 60000
    cut_allowance = 0          # number of cut paths tolerated
    shim_modules = ()          # module names (strings) to inject shims into
    shim_names = None          # None = all default shims
    params = {}
    stop_on_violation = True
    prove_int_first = False    # try the exact linear-integer translation of an obligation before bit-blasting

    def inputs(self, mk):
        raise NotImplementedError

    def run(self, inp):
        raise NotImplementedError

    def post(self, inp, out):
        raise NotImplementedError

    def shim_extra(self):
        return None

    # hook: modules must be imported lazily so that /repo's working tree is what is analysed
    def modules(self):
        import importlib
        return [importlib.import_module(m) for m in self.shim_modules]


def _norm(x):
    """normalise plain data for comparing a symbolic outcome (under a model) with a concrete run"""
    if isinstance(x, (bytes, bytearray)):
        return ("bytes", bytes(x))
    if isinstance(x, bool):
        return int(x)
    if isinstance(x, (tuple, list)):
        return [_norm(v) for v in x]
    if isinstance(x, dict):
        return {repr(_norm(k)): _norm(v) for k, v in x.items()}
    if isinstance(x, (int, str, type(None), float)):
        return x
    return ("obj", type(x).__name__)


def run_outcome(h, inp):
    try:
        v = h.run(inp)
        return Outcome(True, v)
    except (Abort, PathCut, EngineError):
        raise
    except Exception as e:  # noqa: only Exception - engine control flow is BaseException
        return Outcome(False, None, type(e).__name__, e)


def concrete_run(h, values):
    """Run the real code concretely with shims off; returns (inputs, Outcome)."""
    with shims.shims_off():
        saved = core.ENG
        core.ENG = None
        try:
            inp = h.inputs(ConcreteMaker(values))
            out = run_outcome(h, inp)
        finally:
            core.ENG = saved
    return inp, out


def concrete_post(h, inp, out):
    with shims.shims_off():
        saved = core.ENG
        core.ENG = None
        try:
            r = h.post(inp, out)
        finally:
            core.ENG = saved
    if not isinstance(r, dict):
        r = {"post": r}
    return {k: bool(v) for k, v in r.items()}


class FuncTracer:
    """collect ppci functions executed (first path of a harness)"""

    def __init__(self):
        self.funcs = set()

    def __call__(self, frame, event, arg):
        if event == "call":
            co = frame.f_code
            fn = co.co_filename
            if "/ppci/" in fn:
                mod = fn.split("/ppci/", 1)[1].rsplit(".", 1)[0].replace("/", ".")
                self.funcs.add("ppci." + mod + ":" + getattr(co, "co_qualname", co.co_name))
        return None


def run_harness(h, known=(), want_trace=True, deadline=None):
    """Explore one harness.  Returns a result dict (picklable)."""
    t0 = time.time()
    eng = Engine(W=h.W, timeout_ms=h.timeout_ms, max_paths=h.max_paths,
                 max_decisions=h.max_decisions, choose_limit=h.choose_limit).activate()
    res = dict(harness=h.name, params=h.params, W=h.W, obligations=0, discharged=0,
               violations=[], known_hits=[], inconclusive=[], errors=[], validated=0,
               outcomes={}, funcs=[], samples=[], reached=0, twin_violated=0,
               solver={}, exhaustive=False)
    mods = h.modules()
    shims.inject(mods, h.shim_names, h.shim_extra())
    tracer = FuncTracer()
    state = dict(first=True, stop=False)
    prover = solve.Prover(timeout_ms=h.prove_timeout_ms, int_first=getattr(h, "prove_int_first", False),
                          arrays=getattr(h, "prove_arrays", None), uf_first=getattr(h, "prove_uf_first", False),
                          fresh_smt=getattr(h, "prove_fresh_smt", False))

    def body():
        if deadline and time.time() > deadline:
            raise PathCut("job deadline")
        mk = SymMaker(eng)
        inp = h.inputs(mk)
        if state["first"] and want_trace:
            sys.setprofile(tracer)
        try:
            out = run_outcome(h, inp)
        finally:
            if state["first"] and want_trace:
                sys.setprofile(None)
                state["first"] = False
        posts = h.post(inp, out)
        if not isinstance(posts, dict):
            posts = {"post": posts}
        return inp, out, posts

    def on_path(kind, val):
        if kind == "cut":
            return
        inp, out, posts = val
        key = "ok" if out.ok else "exc:" + out.exc
        res["outcomes"][key] = res["outcomes"].get(key, 0) + 1
        pc = list(eng.pc)
        model = eng.current_model()
        if model is None:
            # path condition not (known) satisfiable: nothing can be claimed or refuted here
            res["inconclusive"].append(dict(harness=h.name, what="path feasibility unknown"))
            return
        res["reached"] += 1
        res["twin_violated"] += 1      # post := False would be violated here (pc is satisfiable)
        values = eng.model_inputs(model)
        # -- encoding validation: concrete shim-free run must agree with the symbolic outcome
        try:
            cinp, cout = concrete_run(h, values)
            sym_plain = _norm(evaluate(out.plain(), model))
            con_plain = _norm(cout.plain())
            if sym_plain != con_plain:
                res["errors"].append(dict(kind="encoding-mismatch", harness=h.name, inputs=_jsonable(values),
                                          symbolic=repr(sym_plain)[:300], concrete=repr(con_plain)[:300]))
                state["stop"] = True
                return
            res["validated"] += 1
        except Abort:
            pass
        if len(res["samples"]) < 3:
            res["samples"].append(dict(harness=h.name, inputs=_jsonable(values),
                                       outcome=repr(_norm(evaluate(out.plain(), model)))[:200],
                                       path_decisions=len(eng.prefix)))
        # -- obligations
        for label, cond in posts.items():
            res["obligations"] += 1
            verdict, m = prover.prove(pc, cond, eng)
            if verdict == "unsat":
                res["discharged"] += 1
                continue
            if verdict == "unknown":
                res["inconclusive"].append(dict(harness=h.name, label=label, what="solver unknown"))
                continue
            # sat: candidate violation.  known findings first.
            cvals = eng.model_inputs(m)
            regions = [k for k in known if k.matches(h, label)]
            if regions:
                excl = []
                for k in regions:
                    try:
                        excl.append(tobool(k.region(inp, out)))
                    except Exception as e:
                        res["errors"].append(dict(kind="known-finding-region-error", harness=h.name,
                                                  finding=k.ident, error=repr(e)))
                hit = [k for k, r in zip(regions, excl)
                       if z3.is_true(m.eval(r, model_completion=True))]
                v2, m2 = prover.prove(pc + [z3.Not(z3.Or(*excl))] if excl else pc, cond, eng)
                if v2 == "unsat":
                    # every violation on this path lies inside a listed region: confirm it reproduces
                    ok = _replays(h, cvals, label)
                    for k in (hit or regions[:1]):
                        res["known_hits"].append(dict(ident=k.ident, what=k.what, reproduced=ok,
                                                      inputs=_jsonable(cvals)))
                    res["discharged"] += 0
                    continue
                if v2 == "unknown":
                    res["inconclusive"].append(dict(harness=h.name, label=label,
                                                    what="unknown outside known-finding regions"))
                    for k in (hit or regions[:1]):
                        res["known_hits"].append(dict(ident=k.ident, what=k.what, reproduced=None,
                                                      inputs=_jsonable(cvals)))
                    continue
                m = m2
                cvals = eng.model_inputs(m)
            ok = _replays(h, cvals, label)
            if ok:
                res["violations"].append(dict(harness=h.name, params=h.params, label=label,
                                              inputs=_jsonable(cvals), module=type(h).__module__,
                                              cls=type(h).__name__))
                if h.stop_on_violation:
                    state["stop"] = True
            else:
                res["errors"].append(dict(kind="non-reproducing-counterexample", harness=h.name,
                                          label=label, inputs=_jsonable(cvals)))
                state["stop"] = True

    class _Stop(BaseException):
        pass

    def on_path_guard(kind, val):
        on_path(kind, val)
        if state["stop"]:
            raise _Stop()

    try:
        try:
            done = eng.explore(body, on_path_guard)
            res["exhaustive"] = bool(done) and eng.stats["cut_paths"] <= h.cut_allowance \
                and eng.stats["feas_unknown"] == 0
            if eng.stats["cut_paths"] > h.cut_allowance:
                res["inconclusive"].append(dict(harness=h.name, what=f"{eng.stats['cut_paths']} cut paths "
                                                                      f"(allowance {h.cut_allowance})"))
        except _Stop:
            pass
        except EngineError as e:
            res["errors"].append(dict(kind=type(e).__name__, harness=h.name, error=str(e),
                                      tb=traceback.format_exc()[-1500:]))
            if isinstance(e, core.SymbolicEscape):
                # the code left the modelled fragment (float(), ...): nothing can be PROVEN for this harness and
                # the error above stands; but a violation can still be SHOWN - probe boundary values concretely
                try:
                    _escape_probe(h, eng, res, known)
                except Exception as e2:  # noqa
                    res["errors"].append(dict(kind="escape-probe-error", harness=h.name, error=repr(e2)))
        except Exception as e:
            res["errors"].append(dict(kind="harness-exception", harness=h.name, error=repr(e),
                                      tb=traceback.format_exc()[-1500:]))
    finally:
        sys.setprofile(None)
        shims.restore()
        core.ENG = None
    if res["reached"] == 0 and not res["errors"] and not res["inconclusive"]:
        res["errors"].append(dict(kind="vacuous", harness=h.name,
                                  error="no path reached the post-condition with a satisfiable path condition"))
    res["stats"] = dict(eng.stats)
    res["solver"] = prover.stats
    res["funcs"] = sorted(tracer.funcs)
    res["wall_s"] = time.time() - t0
    return res


def _escape_probe(h, eng, res, known, budget=4000):
    """After a SymbolicEscape: run the real code CONCRETELY (no shims) on boundary values of every declared
    integer input (one input varied at a time around the base points 0, 1, -1, 3: range ends, 0, +-1, 2**k-1, 2**k,
    2**k+1 and their negatives).  A failing post-condition is a replayed violation by construction.  Finding nothing proves
    nothing: the SymbolicEscape error is kept, so the check still does not pass."""
    decl = dict(eng.inputs)
    runs = 0
    found = set()
    for b0 in (0, 1, -1, 3):
        base = {}
        for k, v in decl.items():
            if isinstance(v, SymInt):
                base[k] = min(max(b0, v.lo), v.hi)
            elif isinstance(v, SymBool):
                base[k] = False
            else:
                base[k] = v
        runs = _probe_around(h, decl, base, res, known, found, runs, budget)
        if runs >= budget:
            return


def _probe_around(h, decl, base, res, known, found, runs, budget):
    for k, v in decl.items():
        if not isinstance(v, SymInt):
            continue
        cands = {v.lo, v.hi, 0, 1, -1}
        n = max(abs(v.lo), abs(v.hi)).bit_length() + 1
        for b in range(n + 1):
            for c in ((1 << b) - 1, 1 << b, (1 << b) + 1):
                cands.update((c, -c))
        for c in sorted(x for x in cands if v.lo <= x <= v.hi):
            if runs >= budget:
                return runs
            runs += 1
            values = dict(base)
            values[k] = c
            try:
                inp, out = concrete_run(h, values)
                posts = concrete_post(h, inp, out)
            except (Abort, PathCut):
                continue
            for label, okv in posts.items():
                if okv is not False or label in found:
                    continue
                inside = False
                for kf in known:
                    if kf.matches(h, label):
                        try:
                            inside = inside or bool(kf.region(inp, out))
                        except Exception:
                            inside = True
                if inside:
                    continue
                found.add(label)
                res["violations"].append(dict(harness=h.name, params=h.params, label=label,
                                              inputs=_jsonable(values), module=type(h).__module__,
                                              cls=type(h).__name__, found_by="concrete boundary probe after SymbolicEscape"))
    return runs


def _replays(h, values, label):
    """does the counterexample reproduce on the real code, concretely, with no shims?"""
    try:
        inp, out = concrete_run(h, values)
        posts = concrete_post(h, inp, out)
    except Abort:
        return False
    except Exception:
        return False
    return posts.get(label, True) is False


def _jsonable(values):
    out = {}
    for k, v in values.items():
        out[str(k)] = int(v) if not isinstance(v, bool) else v
    return out


class KnownFinding:
    """One entry of known_findings.json (status 'known').  region is a Python expression over
    the harness inputs (names as declared by inputs(); also `inp`, `out`, `P` = harness params,
    helpers And/Or/Not) describing where the recorded defect manifests."""

    def __init__(self, d):
        self.d = d
        self.ident = d["id"]
        self.prop = d["property"]
        self.what = d["what"]
        self.harness = d["harness"]
        self.label = d.get("label")
        self.expr = d.get("region", "True")
        self._hp = None

    def matches(self, h, label):
        import fnmatch
        pats = self.harness if isinstance(self.harness, list) else [self.harness]
        if not any(h.name == p or fnmatch.fnmatch(h.name, p.replace('[', '[[]')) for p in pats):
            return False
        if self.label and not fnmatch.fnmatch(label, self.label):
            return False
        self._hp = h.params
        return True

    def region(self, inp, out):
        env = dict(inp=inp, out=out, P=self._hp or {}, And=core.sym_and, Or=core.sym_or,
                   Not=core.sym_not, ite=core.ite, dual_range=dual_range, dual_range_ks=dual_range_ks)
        if isinstance(inp, dict):
            env.update({k: v for k, v in inp.items() if isinstance(k, str)})
        if self._hp:
            env.update({k: v for k, v in self._hp.items() if isinstance(k, str) and k not in env})
        return eval(self.expr, {"__builtins__": {"abs": abs, "len": len, "min": min, "max": max,
                                                  "True": True, "False": False}}, env)


def dual_range(v1, v2, kmax=64):
    """v1 < 0 <= v2 are the signed and the unsigned reading of one k-bit pattern:
    v2 - v1 == 2**k and -2**(k-1) <= v1 < 0 (hence 2**(k-1) <= v2 < 2**k) for some k"""
    return core.sym_or(*[core.sym_and(v2 - v1 == (1 << k), v1 >= -(1 << (k - 1)), v1 < 0)
                         for k in range(1, kmax + 1)])


def dual_range_ks(v1, v2, ks):
    """dual_range restricted to the listed field widths k"""
    return core.sym_or(*[core.sym_and(v2 - v1 == (1 << k), v1 >= -(1 << (k - 1)), v1 < 0) for k in ks])


def load_known(path, prop):
    if not os.path.exists(path):
        return []
    data = json.load(open(path))
    return [KnownFinding(d) for d in data.get("findings", [])
            if d.get("status") == "known" and d.get("property") == prop]
