import os
import sys
import argparse

sys.path.insert(0, os.path.dirname(os.path.dirname(os.path.abspath(__file__))))


def main():
    ap = argparse.ArgumentParser()
    ap.add_argument("prop", nargs="?")
    ap.add_argument("--tier", default=os.environ.get("VERIF_TIER", "quick"), choices=["quick", "thorough"])
    ap.add_argument("--replay")
    ap.add_argument("--nproc", type=int, default=0)
    ap.add_argument("--only", default=None, help="substring filter on job descriptions (debugging)")
    a = ap.parse_args()
    from symx import runner
    if a.replay:
        sys.exit(runner.replay(a.replay))
    seed = int(os.environ.get("VERIF_SEED", "0") or 0)
    if a.only:
        os.environ["VERIF_ONLY"] = a.only
    sys.exit(runner.run_property(a.prop, a.tier, seed, a.nproc or None))


main()
