"""Obligation prover: portfolio z3 (fresh QF_BV solver) -> cvc5 (bit-vectors as integers) -> cvc5.
Returns 'unsat' (holds on this path for all inputs), 'sat' (+ z3 model) or 'unknown'."""
import os
import re
import time
import subprocess
import tempfile
import z3
from .core import SymBool, SymInt, tobool

CVC5 = "/usr/bin/cvc5"


class Prover:
    def __init__(self, timeout_ms=60000, cvc5_timeout_s=120, use_cvc5=True):
        self.timeout_ms = timeout_ms
        self.cvc5_timeout_s = cvc5_timeout_s
        self.use_cvc5 = use_cvc5 and os.path.exists(CVC5)
        self.stats = dict(z3_unsat=0, z3_sat=0, z3_unknown=0, trivial=0, cvc5_unsat=0, cvc5_sat=0,
                          cvc5_unknown=0, cvc5_error=0, solver_s=0.0, queries=0)

    def prove(self, pc, cond, eng):
        """is pc => cond valid?  'unsat' means yes."""
        if isinstance(cond, (SymBool, SymInt)):
            c = z3.simplify(tobool(cond))
        else:
            c = z3.BoolVal(bool(cond))
        if z3.is_true(c):
            self.stats["trivial"] += 1
            return "unsat", None
        self.stats["queries"] += 1
        t0 = time.time()
        s = z3.SolverFor("QF_BV")
        s.set("timeout", self.timeout_ms)
        s.add(*pc)
        s.add(z3.Not(c))
        r = s.check()
        self.stats["solver_s"] += time.time() - t0
        if r == z3.unsat:
            self.stats["z3_unsat"] += 1
            return "unsat", None
        if r == z3.sat:
            self.stats["z3_sat"] += 1
            return "sat", s.model()
        self.stats["z3_unknown"] += 1
        if not self.use_cvc5:
            return "unknown", None
        for extra in (["--solve-bv-as-int=sum"], []):
            t0 = time.time()
            v, vals = run_cvc5(s, extra, self.cvc5_timeout_s)
            self.stats["solver_s"] += time.time() - t0
            if v == "unsat":
                self.stats["cvc5_unsat"] += 1
                return "unsat", None
            if v == "sat":
                self.stats["cvc5_sat"] += 1
                # turn cvc5's assignment into a z3 model by solving with the values pinned
                s2 = z3.SolverFor("QF_BV")
                s2.set("timeout", self.timeout_ms)
                s2.add(*pc)
                s2.add(z3.Not(c))
                for name, (val, width) in vals.items():
                    s2.add(z3.BitVec(name, width) == z3.BitVecVal(val, width))
                if s2.check() == z3.sat:
                    return "sat", s2.model()
                self.stats["cvc5_error"] += 1
                return "unknown", None
            if v == "error":
                self.stats["cvc5_error"] += 1
            else:
                self.stats["cvc5_unknown"] += 1
        return "unknown", None


def _decls(smt):
    out = []
    for m in re.finditer(r"\(declare-fun\s+(\|[^|]*\||\S+)\s+\(\)\s+\(_ BitVec (\d+)\)\)", smt):
        out.append((m.group(1), int(m.group(2))))
    return out


def run_cvc5(solver, extra, timeout_s):
    smt = solver.to_smt2()
    decls = _decls(smt)
    smt = "(set-logic QF_BV)\n(set-option :produce-models true)\n" + \
        smt.replace("(check-sat)", "(check-sat)")
    if decls:
        smt += "\n(get-value (" + " ".join(n for n, _ in decls) + "))\n"
    fd, path = tempfile.mkstemp(suffix=".smt2")
    try:
        with os.fdopen(fd, "w") as f:
            f.write(smt)
        try:
            p = subprocess.run([CVC5, "--lang=smt2", f"--tlimit={int(timeout_s * 1000)}"] + extra + [path],
                               capture_output=True, text=True, timeout=timeout_s + 10)
        except subprocess.TimeoutExpired:
            return "unknown", {}
    finally:
        try:
            os.unlink(path)
        except OSError:
            pass
    out = p.stdout
    first = out.strip().splitlines()[0].strip() if out.strip() else ""
    if first == "unsat":
        if "(error" in out.replace("get-value", "") and "unsat" != first:
            return "error", {}
        return "unsat", {}
    if first == "sat":
        vals = {}
        widths = dict((n.strip("|"), w) for n, w in decls)
        for m in re.finditer(r"\((\|[^|]*\||\S+)\s+(#b[01]+|#x[0-9a-fA-F]+|\(_ bv(\d+) (\d+)\))\)", out):
            name = m.group(1).strip("|")
            lit = m.group(2)
            if lit.startswith("#b"):
                v = int(lit[2:], 2)
            elif lit.startswith("#x"):
                v = int(lit[2:], 16)
            else:
                v = int(m.group(3))
            if name in widths:
                vals[name] = (v, widths[name])
        return "sat", vals
    if "(error" in out or p.returncode not in (0,):
        return "error", {}
    return "unknown", {}
