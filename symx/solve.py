"""Obligation prover: portfolio z3 (fresh QF_BV solver) -> cvc5 (bit-vectors as integers) -> cvc5.
Returns 'unsat' (holds on this path for all inputs), 'sat' (+ z3 model) or 'unknown'."""
import os
import re
import time
import subprocess
import tempfile
import z3
from .core import SymBool, SymInt, tobool

CVC5 = "/usr/bin/cvc5"


class Prover:
    def __init__(self, timeout_ms=60000, cvc5_timeout_s=120, use_cvc5=True, int_first=False,
                 int_timeout_ms=20000, arrays=None, uf_first=False, uf_timeout_ms=10000, fresh_smt=False):
        self.timeout_ms = timeout_ms
        # opt-in: hand cvc5 the ORIGINAL assertions (a z3 solver that answered 'unknown' may print its preprocessed
        # goal -- renamed, sign-extensions as concat chains -- which defeats cvc5's bit-vectors-as-integers mode)
        self.fresh_smt = fresh_smt
        self.uf_first = uf_first            # opt-in: try the obligation with * / % abstracted to uninterpreted functions first
        self.uf_timeout_ms = uf_timeout_ms
        self.arrays = arrays                # None = detect per query; False/True = declared by the harness
        self.int_first = int_first          # try the exact integer-arithmetic translation first
        self.int_timeout_ms = int_timeout_ms
        self._int = None                    # _IntContext, created on first use
        self.cvc5_timeout_s = cvc5_timeout_s
        self.use_cvc5 = use_cvc5 and os.path.exists(CVC5)
        self.stats = dict(z3_unsat=0, z3_sat=0, z3_unknown=0, trivial=0, cvc5_unsat=0, cvc5_sat=0,
                          cvc5_unknown=0, cvc5_error=0, solver_s=0.0, queries=0)

    def prove(self, pc, cond, eng):
        """is pc => cond valid?  'unsat' means yes."""
        if isinstance(cond, (SymBool, SymInt)):
            c = z3.simplify(tobool(cond))
        else:
            c = z3.BoolVal(bool(cond))
        if z3.is_true(c):
            self.stats["trivial"] += 1
            return "unsat", None
        self.stats["queries"] += 1
        if self.int_first:
            t0 = time.time()
            if self._int is None:
                self._int = _IntContext(self.int_timeout_ms)
            v, m = self._int.prove(pc, c)
            self.stats["solver_s"] += time.time() - t0
            self.stats["int_" + v] = self.stats.get("int_" + v, 0) + 1
            if v == "unsat":
                return "unsat", None
            if v == "sat":
                return "sat", m
            # unknown / unsupported operator: the bit-vector portfolio decides
        if self.uf_first:
            t0 = time.time()
            v = prove_uf_abstracted(pc, c, self.uf_timeout_ms)
            self.stats["solver_s"] += time.time() - t0
            self.stats["uf_" + v] = self.stats.get("uf_" + v, 0) + 1
            if v == "unsat":
                return "unsat", None
        t0 = time.time()
        arrays = self.arrays if self.arrays is not None else _has_arrays(list(pc) + [c])
        s = z3.SolverFor("QF_ABV" if arrays else "QF_BV")
        s.set("timeout", self.timeout_ms)
        s.add(*pc)
        s.add(z3.Not(c))
        r = s.check()
        self.stats["solver_s"] += time.time() - t0
        if r == z3.unsat:
            self.stats["z3_unsat"] += 1
            return "unsat", None
        if r == z3.sat:
            self.stats["z3_sat"] += 1
            return "sat", s.model()
        self.stats["z3_unknown"] += 1
        if not self.use_cvc5 or arrays:
            return "unknown", None
        cands = [s]
        if self.fresh_smt:
            f = z3.SolverFor("QF_BV")
            f.add(*pc)
            f.add(z3.Not(c))
            # fresh_smt == "both": the original assertions first, then z3's preprocessed solver state
            # (either can be the easier one for cvc5); only 'unsat' is taken from the preprocessed form
            cands = [f, s] if self.fresh_smt == "both" else [f]
        for extra, s in [(e, x) for e in (["--solve-bv-as-int=sum"], []) for x in cands]:
            t0 = time.time()
            v, vals = run_cvc5(s, extra, self.cvc5_timeout_s)
            self.stats["solver_s"] += time.time() - t0
            if v == "unsat":
                self.stats["cvc5_unsat"] += 1
                return "unsat", None
            if v == "sat" and len(cands) > 1 and s is cands[1]:
                self.stats["cvc5_unknown"] += 1
                continue
            if v == "sat":
                self.stats["cvc5_sat"] += 1
                # turn cvc5's assignment into a z3 model by solving with the values pinned
                s2 = z3.SolverFor("QF_BV")
                s2.set("timeout", self.timeout_ms)
                s2.add(*pc)
                s2.add(z3.Not(c))
                for name, (val, width) in vals.items():
                    s2.add(z3.BitVec(name, width) == z3.BitVecVal(val, width))
                if s2.check() == z3.sat:
                    return "sat", s2.model()
                self.stats["cvc5_error"] += 1
                return "unknown", None
            if v == "error":
                self.stats["cvc5_error"] += 1
            else:
                self.stats["cvc5_unknown"] += 1
        return "unknown", None


# ---------------------------------------------------------------------------------------------
# Over-approximation for equivalence obligations: every non-linear operator application (division,
# remainder, multiplication of two non-constant terms) is replaced by an application of one
# uninterpreted function per operator and width.  Whatever holds for all functions holds for the
# real operators, so 'unsat' transfers; anything else is inconclusive (the exact portfolio decides).
# It proves "both sides compute the same thing from equal operands" by congruence, where
# bit-blasting would have to prove two divider/multiplier circuits equivalent.
_UF_OPS = {}
for _n, _u in (("BSDIV", "sdiv"), ("BSDIV_I", "sdiv"), ("BUDIV", "udiv"), ("BUDIV_I", "udiv"), ("BSREM", "srem"),
               ("BSREM_I", "srem"), ("BUREM", "urem"), ("BUREM_I", "urem"), ("BSMOD", "smod"), ("BSMOD_I", "smod")):
    if hasattr(z3, "Z3_OP_" + _n):
        _UF_OPS[getattr(z3, "Z3_OP_" + _n)] = _u


def _uf(name, width, arity=2):
    bv = z3.BitVecSort(width)
    return z3.Function(f"uf!{name}!{width}", *([bv] * arity + [bv]))


def uf_abstract(exprs, axioms=None):
    """returns (abstracted expressions, number of abstracted applications); instances of the commutativity
    of the multiplication function for the abstracted products are appended to `axioms` (a list)"""
    memo = {}
    count = [0]
    if axioms is None:
        axioms = []

    def build(e, ch):
        k = e.decl().kind()
        if z3.is_bv(e):
            if k in _UF_OPS and len(ch) == 2:
                count[0] += 1
                return _uf(_UF_OPS[k], e.size())(ch[0], ch[1])
            if k == z3.Z3_OP_BMUL:
                consts = [c for c in ch if z3.is_bv_value(c)]
                rest = [c for c in ch if not z3.is_bv_value(c)]
                if len(rest) >= 2:
                    count[0] += 1
                    f = _uf("mul", e.size())
                    r = rest[0]
                    for c in rest[1:]:
                        axioms.append(f(r, c) == f(c, r))
                        r = f(r, c)
                    for c in consts:
                        r = c * r
                    return r
        if not ch:
            return e
        return e.decl()(*ch)

    for root in exprs:
        stack = [(root, False)]
        while stack:
            e, done = stack.pop()
            i = e.get_id()
            if i in memo:
                continue
            if not z3.is_app(e):
                memo[i] = (e, e)
                continue
            ch = e.children()
            if done:
                memo[i] = (e, build(e, [memo[c.get_id()][1] for c in ch]))
            else:
                stack.append((e, True))
                for c in ch:
                    if c.get_id() not in memo:
                        stack.append((c, False))
    return [memo[e.get_id()][1] for e in exprs], count[0]


def prove_uf_abstracted(pc, c, timeout_ms):
    """'unsat' (pc => c holds for every interpretation of the abstracted operators, hence for the real
    ones) | 'skip' (nothing to abstract) | 'unknown'"""
    axioms = []
    try:
        exprs, n = uf_abstract([z3.simplify(f) for f in pc] + [c], axioms)
    except Exception:
        return "unknown"
    if n == 0:
        return "skip"
    s = z3.Solver()
    s.set("timeout", timeout_ms)
    s.add(*exprs[:-1])
    s.add(*axioms)
    s.add(z3.Not(exprs[-1]))
    return "unsat" if s.check() == z3.unsat else "unknown"


_INT = None


def check_int(pc, extra, timeout_ms):
    """pc and extra through the exact linear-integer translation (_IntContext): (z3 result, model or None);
    z3.unknown also when some operator is outside the linear fragment"""
    global _INT
    if _INT is None or _INT.timeout_ms != timeout_ms:
        _INT = _IntContext(timeout_ms)
    v, m = _INT.prove(list(pc), z3.Not(z3.And(*extra)) if extra else z3.BoolVal(False))
    return {"unsat": z3.unsat, "sat": z3.sat}.get(v, z3.unknown), m


def check_fresh(constraints, timeout_ms):
    """one-shot check of a conjunction with z3's QF_BV tactic solver: (z3 result, model or None)"""
    s = z3.SolverFor("QF_ABV" if _has_arrays(constraints) else "QF_BV")
    s.set("timeout", timeout_ms)
    s.add(*constraints)
    r = s.check()
    return r, (s.model() if r == z3.sat else None)


def uf_unsat(constraints, timeout_ms):
    """True if the conjunction is unsatisfiable already with * / % abstracted to uninterpreted functions"""
    axioms = []
    try:
        exprs, n = uf_abstract([z3.simplify(f) for f in constraints], axioms)
    except Exception:
        return False
    if n == 0:
        return False
    s = z3.Solver()
    s.set("timeout", timeout_ms)
    s.add(*exprs)
    s.add(*axioms)
    return s.check() == z3.unsat


def _has_arrays(exprs):
    """does any sub-term have array sort?  (memoised DFS over the DAG)"""
    seen = set()
    stack = list(exprs)
    while stack:
        e = stack.pop()
        i = e.get_id()
        if i in seen:
            continue
        seen.add(i)
        if z3.is_array(e):
            return True
        stack.extend(e.children())
    return False


def _decls(smt):
    out = []
    for m in re.finditer(r"\(declare-fun\s+(\|[^|]*\||\S+)\s+\(\)\s+\(_ BitVec (\d+)\)\)", smt):
        out.append((m.group(1), int(m.group(2))))
    return out


def run_cvc5(solver, extra, timeout_s):
    smt = solver.to_smt2()
    # z3 prints its internal total division operators (bvudiv_i, bvsrem_i ...: the SMT-LIB 2.6
    # operators with the standard value for a zero divisor) which other solvers do not parse;
    # they denote the same functions as the standard names.
    smt = re.sub(r"\b(bvudiv|bvsdiv|bvurem|bvsrem|bvsmod)_i\b", r"\1", smt)
    decls = _decls(smt)
    smt = "(set-logic QF_BV)\n(set-option :produce-models true)\n" + \
        smt.replace("(check-sat)", "(check-sat)")
    if decls:
        smt += "\n(get-value (" + " ".join(n for n, _ in decls) + "))\n"
    fd, path = tempfile.mkstemp(suffix=".smt2")
    try:
        with os.fdopen(fd, "w") as f:
            f.write(smt)
        try:
            p = subprocess.run([CVC5, "--lang=smt2", f"--tlimit={int(timeout_s * 1000)}"] + extra + [path],
                               capture_output=True, text=True, timeout=timeout_s + 10)
        except subprocess.TimeoutExpired:
            return "unknown", {}
    finally:
        try:
            os.unlink(path)
        except OSError:
            pass
    out = p.stdout
    first = out.strip().splitlines()[0].strip() if out.strip() else ""
    if first == "unsat":
        if "(error" in out.replace("get-value", "") and "unsat" != first:
            return "error", {}
        return "unsat", {}
    if first == "sat":
        vals = {}
        widths = dict((n.strip("|"), w) for n, w in decls)
        for m in re.finditer(r"\((\|[^|]*\||\S+)\s+(#b[01]+|#x[0-9a-fA-F]+|\(_ bv(\d+) (\d+)\))\)", out):
            name = m.group(1).strip("|")
            lit = m.group(2)
            if lit.startswith("#b"):
                v = int(lit[2:], 2)
            elif lit.startswith("#x"):
                v = int(lit[2:], 16)
            else:
                v = int(m.group(3))
            if name in widths:
                vals[name] = (v, widths[name])
        return "sat", vals
    if "(error" in out or p.returncode not in (0,):
        return "error", {}
    return "unknown", {}


# ---------------------------------------------------------------------------------------------
# Exact translation of the linear fragment of QF_BV (signed comparisons, +, -, unary -, ite,
# constants, boolean structure) into integer arithmetic.  Every bit-vector term is represented
# by the integer equal to its SIGNED value; + and - wrap explicitly (one conditional correction
# is exact because both operands are in range), variables are constrained to the signed range.
# Hence the integer formula is equisatisfiable with the bit-vector one: 'unsat' transfers, and a
# model is turned into a bit-vector model by pinning the variables (as for cvc5).  Order-only
# obligations (interval reasoning) that are erratic when bit-blasted become trivial for simplex.
class _Unsupported(Exception):
    pass


class _IntContext:
    """translation memo (holds the source terms, so z3 ids stay unique) + one incremental integer
    solver per path condition (the obligations of one path share it)"""

    def __init__(self, timeout_ms):
        self.timeout_ms = timeout_ms
        self.memo = {}          # z3 ast id -> (source term, integer/boolean translation)
        self.bvvars = {}        # name -> width
        self.key = None
        self.solver = None

    @staticmethod
    def _wrap(t, W):
        half, full = 1 << (W - 1), 1 << W
        return z3.If(t >= half, t - full, z3.If(t < -half, t + full, t))

    def tr(self, e):
        k = e.get_id()
        r = self.memo.get(k)
        if r is None:
            r = (e, self._tr1(e))
            self.memo[k] = r
        return r[1]

    def _tr1(self, e):
        tr = self.tr
        wrap = self._wrap
        d = e.decl().kind()
        ch = e.children()
        if z3.is_bv(e):
            W = e.size()
            if z3.is_bv_value(e):
                return z3.IntVal(e.as_signed_long())
            if d == z3.Z3_OP_UNINTERPRETED and not ch:
                name = e.decl().name()
                self.bvvars[name] = W
                return z3.Int("int!" + name)
            if d == z3.Z3_OP_BADD:
                r = tr(ch[0])
                for c in ch[1:]:
                    r = wrap(r + tr(c), W)
                return r
            if d == z3.Z3_OP_BSUB:
                r = tr(ch[0])
                for c in ch[1:]:
                    r = wrap(r - tr(c), W)
                return r
            if d == z3.Z3_OP_BNEG:
                return wrap(-tr(ch[0]), W)
            if d == z3.Z3_OP_BMUL and len(ch) == 2 and (z3.is_bv_value(ch[0]) or z3.is_bv_value(ch[1])):
                half, full = 1 << (W - 1), 1 << W
                return (tr(ch[0]) * tr(ch[1]) + half) % full - half
            if d == z3.Z3_OP_BSHL and z3.is_bv_value(ch[1]) and ch[1].as_long() < W:
                half, full = 1 << (W - 1), 1 << W
                return (tr(ch[0]) * (1 << ch[1].as_long()) + half) % full - half
            if d == z3.Z3_OP_ITE:
                return z3.If(tr(ch[0]), tr(ch[1]), tr(ch[2]))
            if d == z3.Z3_OP_EXTRACT and e.params()[1] == 0:
                # low bits of x, read as a signed number: x reduced into [-2**(W-1), 2**(W-1))
                half, full = 1 << (W - 1), 1 << W
                return (tr(ch[0]) + half) % full - half
            if d == z3.Z3_OP_SIGN_EXT:
                return tr(ch[0])
            raise _Unsupported(str(e.decl()))
        if z3.is_bool(e):
            if z3.is_true(e) or z3.is_false(e):
                return e
            if d == z3.Z3_OP_UNINTERPRETED and not ch:
                return e
            if d == z3.Z3_OP_AND:
                return z3.And(*[tr(c) for c in ch])
            if d == z3.Z3_OP_OR:
                return z3.Or(*[tr(c) for c in ch])
            if d == z3.Z3_OP_NOT:
                return z3.Not(tr(ch[0]))
            if d == z3.Z3_OP_IMPLIES:
                return z3.Implies(tr(ch[0]), tr(ch[1]))
            if d == z3.Z3_OP_XOR:
                return z3.Xor(tr(ch[0]), tr(ch[1]))
            if d == z3.Z3_OP_ITE:
                return z3.If(tr(ch[0]), tr(ch[1]), tr(ch[2]))
            if d in (z3.Z3_OP_EQ, z3.Z3_OP_IFF) and len(ch) == 2:
                return tr(ch[0]) == tr(ch[1])
            if d == z3.Z3_OP_DISTINCT:
                return z3.Distinct(*[tr(c) for c in ch])
            if d == z3.Z3_OP_SLEQ:
                return tr(ch[0]) <= tr(ch[1])
            if d == z3.Z3_OP_SLT:
                return tr(ch[0]) < tr(ch[1])
            if d == z3.Z3_OP_SGEQ:
                return tr(ch[0]) >= tr(ch[1])
            if d == z3.Z3_OP_SGT:
                return tr(ch[0]) > tr(ch[1])
            raise _Unsupported(str(e.decl()))
        raise _Unsupported(str(e.sort()))

    def _bounds(self):
        out = []
        for name, W in self.bvvars.items():
            v = z3.Int("int!" + name)
            out.append(z3.And(v >= -(1 << (W - 1)), v < (1 << (W - 1))))
        return out

    def prove(self, pc, c):
        """'unsat' | 'sat' (+ z3 bit-vector model) | 'unknown' | 'unsupported' for  pc and not c"""
        if len(self.memo) > 200000:
            self.memo.clear()
            self.key = None
        try:
            key = tuple(f.get_id() for f in pc)
            if key != self.key or self.solver is None:
                self.key = None
                ints = [self.tr(f) for f in pc]
                s = z3.Solver()
                s.set("timeout", self.timeout_ms)
                s.add(*ints)
                self.solver = s
                self.pc_terms = list(pc)      # keep the ids alive
                self.key = key
            nc = self.tr(z3.Not(c))
        except _Unsupported:
            return "unsupported", None
        s = self.solver
        s.push()
        try:
            s.add(nc)
            s.add(*self._bounds())
            r = s.check()
            m = s.model() if r == z3.sat else None
        finally:
            s.pop()
        if r == z3.unsat:
            return "unsat", None
        if r != z3.sat:
            return "unknown", None
        s2 = z3.SolverFor("QF_BV")
        s2.set("timeout", self.timeout_ms)
        s2.add(*pc)
        s2.add(z3.Not(c))
        for name, W in self.bvvars.items():
            val = m.eval(z3.Int("int!" + name), model_completion=True).as_long()
            s2.add(z3.BitVec(name, W) == z3.BitVecVal(val, W))
        if s2.check() == z3.sat:
            return "sat", s2.model()
        return "unknown", None
