"""C10  Out-of-range operands are rejected, never silently truncated.

Three layers, all executing real ppci code on symbolic values:
 1. every bit-field of every Token class of every ISA: set the field to a symbolic value on a
    token with symbolic previous content, read it back;
 2. every relocation type with an entry in ref/relocspec.py (riscv, rvc, arm, thumb, x86_64, avr, msp430,
    mcs6500, or1k, mips, microblaze, xtensa, m68k, generic little-endian data) applied directly with
    symbolic symbol address / field address / addend on the base encoding produced by the real
    instruction class that emits it; oracle = ISA manual field layout (ref/relocspec.py);
 3. every instruction class with an integer operand: encode() with a symbolic immediate
    (registers fixed); spec-free oracle: accepted values are encoded injectively and encode()
    does not change the operand.
"""
import os
import importlib
import pkgutil
from symx.harness import Harness
from symx import core
from symx.core import sym_and, sym_or, sym_not, ite, implies
from props import _reloc

PROPERTY = "C10"
LEVEL = "model_checking"
BOUNDS = {"quick": {"field value": "[-2**(n+2), 2**(n+2)] for an n-bit field, token content: every value",
                    "relocations": "S, P: every address of the ISA's width (32 bit; 48 bit for x86_64; 16 bit for avr, msp430, mcs6500; 64-bit+ for abs64), addend +-2**31 where honoured; avr..m68k: one instruction class per relocation type",
                    "instruction immediates": "[-2**40, 2**40], ISAs: riscv, riscv:rvc, arm, arm:thumb"},
          "thorough": {"field value": "same", "relocations": "same addresses; every instruction class / addressing mode that emits the relocation",
                       "instruction immediates": "[-2**40, 2**40], every ISA registered in ppci.arch"}}
OUTSIDE = ["relocation types without an entry in ref/relocspec.py (listed in evidence as unclaimed_relocations)",
           "operands that reach the encoder through the assembler's text path (str -> int parsing)",
           "non-zero addends for relocation types whose class ignores the addend (ppci's encoders never emit one)"]
ASSUMPTIONS = ["relocation pre-state = base encoding emitted by the real instruction class (label operand -> zero field)",
               "alignment facts the ISA requires for S and P are assumed (ppci asserts them)",
               "byte order of a relocated word = the ISA's (or1k, microblaze, m68k big-endian; mips: ppci's little-endian target)",
               "any exception counts as 'fails with an error'"]
SHIMS_USED = ["isinstance", "int", "range", "bytes", "bytearray", "struct", "bool"]

ALL_ARCH_PKGS = ["arm", "avr", "m68k", "mcs6500", "microblaze", "mips", "msp430", "or1k", "riscv", "stm8",
                 "x86_64", "xtensa"]


def _import_all(pkg):
    mods = []
    p = importlib.import_module(f"ppci.arch.{pkg}")
    mods.append(p)
    for m in pkgutil.iter_modules(p.__path__):
        try:
            mods.append(importlib.import_module(f"ppci.arch.{pkg}.{m.name}"))
        except Exception:
            pass
    return mods


def token_fields():
    """[(module, class name, field name, bits)] for every _p2 property of every Token subclass"""
    from ppci.arch import token as T
    import ppci.arch.data_instructions
    out = []
    seen = set()
    mods = [importlib.import_module("ppci.arch.data_instructions")]
    for pkg in ALL_ARCH_PKGS:
        mods += _import_all(pkg)
    for m in mods:
        for name, obj in sorted(vars(m).items()):
            if isinstance(obj, type) and issubclass(obj, T.Token) and obj is not T.Token and obj.__module__ == m.__name__:
                if getattr(obj.Info, "size", None) is None:
                    continue
                for fname in sorted(dir(obj)):
                    p = getattr(obj, fname, None)
                    if isinstance(p, T._p2):
                        key = (m.__name__, name, fname)
                        if key not in seen:
                            seen.add(key)
                            out.append((m.__name__, name, fname, p._bitsize))
    return out


class TokenFieldHarness(Harness):
    shim_modules = ("ppci.arch.token", "ppci.utils.bitfun")
    max_paths = 200

    def __init__(self, module, cls, field, bits):
        self.module = module
        self.cls = cls
        self.field = field
        self.bits = bits
        self.name = f"token.field[{module.split('.', 2)[-1]}.{cls}.{field}]"
        self.params = dict(module=module, cls=cls, field=field, bits=bits)
        tc = getattr(importlib.import_module(module), cls)
        self.size = tc.Info.size
        self.W = self.size + self.bits + 24

    def inputs(self, mk):
        n = self.bits
        return dict(value=mk.int("value", -(1 << (n + 2)), 1 << (n + 2)),
                    old=mk.int("old", 0, (1 << self.size) - 1))

    def run(self, i):
        tc = getattr(importlib.import_module(self.module), self.cls)
        # field mask, measured on the real code with concrete values
        t0 = tc()
        setattr(t0, self.field, (1 << self.bits) - 1)
        mask = t0.bit_value
        tok = tc(i["old"])
        setattr(tok, self.field, i["value"])
        return (tok.bit_value, getattr(tok, self.field), mask)

    def post(self, i, out):
        if not out.ok:
            return {"error-or-exact": True}
        n = self.bits
        new, back, mask = out.value
        v = i["value"]
        keep = ((1 << self.size) - 1) ^ mask
        sback = ite(back >= (1 << (n - 1)), back - (1 << n), back)
        return {"reads-back-exactly": ite(v >= 0, back == v, sback == v),
                "other-bits-unchanged": (new & keep) == (i["old"] & keep)}


def mk_field(module, cls, field, bits):
    return TokenFieldHarness(module, cls, field, bits)


def mk_reloc(**kw):
    return _reloc.RelocApplyHarness(**kw)


class WrapNegativeHarness(Harness):
    """bitfun.wrap_negative / inrange / BitView.__setitem__ primitives"""
    shim_modules = ("ppci.utils.bitfun",)

    def __init__(self, fn, bits):
        self.fn = fn
        self.bits = bits
        self.name = f"bitfun.{fn}[{bits}]"
        self.params = dict(fn=fn, bits=bits)
        self.W = bits + 48

    def inputs(self, mk):
        n = self.bits
        return dict(value=mk.int("value", -(1 << (n + 2)), 1 << (n + 2)))

    def run(self, i):
        from ppci.utils import bitfun
        if self.fn == "bitview":
            data = bytearray(8)
            bv = bitfun.BitView(data, 0, 8)
            bv[3:3 + self.bits] = i["value"]
            return list(data)
        return getattr(bitfun, self.fn)(i["value"], self.bits)

    def post(self, i, out):
        n = self.bits
        v = i["value"]
        if self.fn == "inrange":
            return out.ok and (out.value == sym_and(v >= -(1 << (n - 1)), v < (1 << (n - 1))))
        if not out.ok:
            return {"error-or-exact": True}
        if self.fn == "bitview":
            w = 0
            for k, b in enumerate(out.value):
                w = w | (b << (8 * k))
            field = (w >> 3) & ((1 << n) - 1)
            rest = w ^ (field << 3)
            sfield = ite(field >= (1 << (n - 1)), field - (1 << n), field)
            return {"reads-back-exactly": ite(v >= 0, field == v, sfield == v), "other-bits-unchanged": rest == 0}
        r = out.value
        # wrap_negative documents "make a bitmask of a value, even if negative": the result must be the
        # n-bit two's complement pattern of a value that FITS n bits as signed or as unsigned
        sr = ite(r >= (1 << (n - 1)), r - (1 << n), r)
        return {"result-is-n-bit-pattern": sym_and(r >= 0, r < (1 << n)),
                "pattern-denotes-value": ite(v >= 0, r == v, sr == v)}


def mk_prim(fn, bits):
    return WrapNegativeHarness(fn, bits)


def jobs(tier, seed):
    import sys
    js = []
    for fn in ("wrap_negative", "inrange"):
        for b in (1, 5, 8, 11, 12, 20, 24, 32, 64) if tier == "quick" else range(1, 65):
            if fn == "bitview" and b > 56:
                continue
            js.append(("mk_prim", dict(fn=fn, bits=b)))
    for a in _reloc.ARCHS:
        # new ISAs: one instruction class per relocation type in quick, every class in thorough
        for s in _reloc.tier_sites(a, tier):
            js.append(("mk_reloc", s))
    from props import _imm
    js += _imm.jobs(tier)
    only = os.environ.get("VERIF_ONLY")
    if only:
        js = [j for j in js if only in repr(j)]
    return js


def mk_imm(**kw):
    from props import _imm
    return _imm.ImmHarness(**kw)
