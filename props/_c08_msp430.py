"""C08 for the MSP430 instruction set of ppci (ppci/arch/msp430/instructions.py), reference decoder ref/msp430dec.py.

Every instruction class registered in the msp430 ISA object that has a syntax and tokens (10 jumps, 8 single-operand
classes, reti, 23 double-operand classes) is instantiated with SYMBOLIC operands:
  * the source operand constructor is a job parameter (every constructor the class's `src` operand accepts: AdrSrc,
    RegSrc, MemSrc, MemSrcInc, MemSrcOffset, SmallConstSrc, ConstSrc, ConstLabelSrc), the destination constructor
    (RegDst, AddrDst, MemDst) is chosen by a symbolic selector `dm`;
  * registers are real Msp430Register objects whose number is symbolic (0..15: every register incl. pc, sp, sr, cg);
  * offsets X of X(Rn) and immediates #N are symbolic integers, label operands (&label, #label, jump targets) go
    through the real relocation (Abs16Relocation with a symbolic address, Rel10Relocation with a symbolic distance
    and instruction address) applied to the emitted bytes at the offset ppci's relocations() reports.
The real encode() runs; the emitted bytes are decoded by ref/msp430dec.py (written from SLAU049/SLAU144 ch. 3).
Obligation per path: encode / relocation raised, or the bytes are exactly one instruction of the manual with the
printed mnemonic (incl. the .b/.w suffix) and exactly the printed operands.  What is printed is read off the real
syntax of the class and of the operand constructor (its literal glyphs `@ & # ( ) +` and operand attributes).

The pseudo-instructions (ret, pop, nop, clrc, clrn, clrz: expand through render()) are compared with the manual's
table of emulated instructions: the rendered sequence must be the one core instruction the manual lists.
"""
import importlib
import operator
import os
import time
from symx.harness import Harness
from symx import core
from symx.core import sym_and, sym_or, sym_not, implies
from symx.seq import SymByteArray
from ref import msp430dec

ARCH = "msp430"
MOD = "ppci.arch.msp430.instructions"
FACTORIES = ["mk_msp430_selftest", "mk_msp430_enc", "mk_msp430_pseudo"]

# operand constructor syntax (glyphs + operand kinds R register, N integer, L label) -> the manual's addressing mode
SHAPES = {"R": "reg", "N(R)": "idx", "@R": "ind", "@R+": "inc", "&L": "abs", "#N": "imm", "#L": "imm"}
LO16, HI16 = -(1 << 15), (1 << 16) - 1          # a 16-bit quantity in its signed or unsigned spelling
JUMP_LO, JUMP_HI = 2 - 2 * 512, 2 + 2 * 511     # target - address of the jump: PC + 2 + 2 * (-512 .. 511)


def con_shape(con):
    s = ""
    for e in con.syntax.syntax:
        if isinstance(e, str):
            s += e.strip()
        else:
            s += "N" if e._cls is int else ("L" if e._cls is str else "R")
    return s


def is_table_lookup(con):
    """the constructor maps its integer operand through a Transform (dict lookup): SmallConstSrc"""
    from ppci.arch.encoding import Transform
    return any(isinstance(v, Transform) for v in getattr(con, "patterns", {}).values())


def parse_syntax(cls):
    """-> (printed mnemonic "mov.w", base mnemonic, bw, [operand descriptors]) or None
    descriptor: ("modes", name, (constructors)) | ("label", name) | ("reg", name, register class)"""
    from ppci.arch.registers import Register
    syn = list(cls.syntax.syntax)
    head = []
    while syn and isinstance(syn[0], str) and syn[0] != " ":
        head.append(syn.pop(0))
    if not head:
        return None
    printed = "".join(head)
    base, _, suffix = printed.partition(".")
    if suffix not in ("", "b", "w"):
        return None
    ops = []
    for e in syn:
        if isinstance(e, str):
            if e.strip() not in ("", ","):
                return None
            continue
        c = e._cls
        if isinstance(c, tuple):
            ops.append(("modes", e._name, c))
        elif c is str:
            ops.append(("label", e._name))
        elif isinstance(c, type) and issubclass(c, Register):
            ops.append(("reg", e._name, c))
        else:
            return None
    return printed, base, 1 if suffix == "b" else 0, ops


def discover():
    """-> (claimed [(idx, class name, printed mnemonic, source constructor name | "")],
           pseudo  [(idx, class name, mnemonic)],
           unclaimed [(class name, why)])"""
    from ppci.api import get_arch
    from ppci.arch.generic_instructions import ArtificialInstruction
    arch = get_arch(ARCH)
    known_mn = set(msp430dec.FORMAT1.values()) | {v[0] for v in msp430dec.FORMAT2.values()} | {"reti"} \
        | {n for j in msp430dec.JUMPS for n in j}
    claimed, pseudo, unclaimed = [], [], []
    for idx, cls in enumerate(arch.isa.instructions):
        if not getattr(cls, "syntax", None):
            continue
        name = cls.__name__
        if cls.__module__ != MOD:
            unclaimed.append((name, "data directive (" + cls.__module__.split(".")[-1] + ")"))
            continue
        ps = parse_syntax(cls)
        if ps is None:
            unclaimed.append((name, "syntax not understood"))
            continue
        printed, base, bw, ops = ps
        if issubclass(cls, ArtificialInstruction) or not getattr(cls, "tokens", None):
            if base in msp430dec.EMULATED and all(o[0] == "reg" for o in ops) and len(ops) <= 1:
                pseudo.append((idx, name, printed))
            else:
                unclaimed.append((name, "pseudo-instruction without an entry in the manual's emulated-instruction table"))
            continue
        if base not in known_mn:
            unclaimed.append((name, f"no manual instruction with the mnemonic '{base}'"))
            continue
        kinds = [o[0] for o in ops]
        if kinds == [] or kinds == ["label"]:
            claimed.append((idx, name, printed, ""))
        elif kinds in (["modes"], ["modes", "modes"]):
            bad = [c.__name__ for o in ops for c in o[2] if con_shape(c) not in SHAPES]
            if bad:
                unclaimed.append((name, "operand constructor syntax not understood: " + ", ".join(bad)))
                continue
            for c in ops[0][2]:
                claimed.append((idx, name, printed, c.__name__))
        else:
            unclaimed.append((name, "operand kinds not understood: " + repr(kinds)))
    return claimed, pseudo, unclaimed


def _dec_dict(d):
    return dict(ok=d.ok, mn=list(d.mn or ()), bw=d.bw, ops=[list(o) for o in d.ops], length=d.length, why=d.why)


class EncodeHarness(Harness):
    """builds cls(*symbolic operands), runs the real encode() (+ the real relocations for label operands), decodes"""
    W = 64
    max_paths = 4000
    PREFIX = "msp430.encode"

    def __init__(self, idx, cls, mn, src="", wide=0):
        self.idx, self.cls, self.mn, self.src, self.wide = idx, cls, mn, src, wide
        self.params = dict(idx=idx, cls=cls, mn=mn, src=src, wide=wide)
        self.name = f"{self.PREFIX}[{cls}#{idx}:{mn}{':' + src if src else ''}]"
        if wide:
            self.W = 96
            self.choose_limit = 160

    def modules(self):
        names = ["ppci.utils.bitfun", "ppci.arch.token", "ppci.arch.encoding", "ppci.arch.isa", "ppci.arch.registers",
                 "ppci.arch.generic_instructions", "ppci.arch.msp430.instructions", "ppci.arch.msp430.registers"]
        return [importlib.import_module(n) for n in names]

    def the_class(self):
        from ppci.api import get_arch
        cls = get_arch(ARCH).isa.instructions[self.idx]
        assert cls.__name__ == self.cls, "instruction table changed under the job list"
        return cls

    def layout(self):
        """-> (base mnemonic, bw, [(side, [constructors])], has jump label)"""
        printed, base, bw, ops = parse_syntax(self.the_class())
        assert printed == self.mn
        sides = []
        modes = [o for o in ops if o[0] == "modes"]
        if modes:
            srcs = [c for c in modes[0][2] if c.__name__ == self.src]
            assert len(srcs) == 1, "source constructor %s not accepted by %s" % (self.src, self.cls)
            sides.append(("s", srcs))
            if len(modes) > 1:
                sides.append(("d", list(modes[1][2])))
        return base, bw, sides, any(o[0] == "label" for o in ops)

    # -- inputs:  s? = source operand, d? = destination operand:  ?r register number, ?i integer, ?a label address;
    #             dm = index of the destination constructor; off / P = jump distance / address of the jump
    def int_bounds(self, con):
        if is_table_lookup(con):
            return (-64, 64) if self.wide else (-16, 16)
        b = 1 << (48 if self.wide else 18)
        return (-b, b)

    def operand_inputs(self, mk):
        base, bw, sides, jump = self.layout()
        d = {}
        for side, cons in sides:
            if len(cons) > 1:
                d[side + "m"] = mk.int(side + "m", 0, len(cons) - 1)
            kinds = set("".join(c for con in cons for c in con_shape(con) if c in "RNL"))
            if "R" in kinds:
                d[side + "r"] = mk.int(side + "r", 0, 15)
            if "N" in kinds:
                lo = min(self.int_bounds(con)[0] for con in cons if "N" in con_shape(con))
                hi = max(self.int_bounds(con)[1] for con in cons if "N" in con_shape(con))
                d[side + "i"] = mk.int(side + "i", lo, hi)
            if "L" in kinds:
                d[side + "a"] = mk.int(side + "a", 0, 1 << (20 if self.wide else 17))
        if jump:
            f = 16 if self.wide else 2
            d["off"] = mk.int("off", f * JUMP_LO, f * JUMP_HI)
            d["P"] = mk.int("P", 0, (1 << 16) - 2)
            mk.assume(d["off"] % 2 == 0)
            mk.assume(d["P"] % 2 == 0)
            mk.assume(d["P"] + d["off"] >= 0)
            mk.assume(d["P"] + d["off"] < (1 << 16))
        return d

    # -- the real code
    def make_operand(self, side, con, i):
        """-> (constructor object, printed operand): what is printed is read off the constructor's real syntax
        (glyphs -> addressing mode) and the attributes of the constructed object"""
        from ppci.arch.msp430.registers import Msp430Register
        args = []
        for a in con.syntax.formal_arguments:
            if a._cls is int:
                args.append(i[side + "i"])
            elif a._cls is str:
                args.append("l" + side)
            else:
                assert a._cls is Msp430Register
                args.append(Msp430Register("r" + side, num=i[side + "r"]))
        obj = con(*args)
        vals = {}
        for a in con.syntax.formal_arguments:
            v = getattr(obj, a._name)
            k = "N" if a._cls is int else ("L" if a._cls is str else "R")
            vals[k] = i[side + "a"] if k == "L" else (v if k == "N" else v.num)
        kind = SHAPES[con_shape(con)]
        if kind in ("reg", "ind", "inc"):
            return obj, (kind, vals["R"])
        if kind == "idx":
            return obj, ("idx", vals["R"], vals["N"])
        if kind == "abs":
            return obj, ("abs", vals["L"])
        return obj, ("imm", vals["L"] if "L" in vals else vals["N"])

    def build(self, i):
        """-> (instruction, printed operands (source, destination order as in the syntax))"""
        cls = self.the_class()
        base, bw, sides, jump = self.layout()
        args, printed = [], []
        for side, cons in sides:
            con = cons[operator.index(i[side + "m"])] if len(cons) > 1 else cons[0]
            obj, p = self.make_operand(side, con, i)
            args.append(obj)
            printed.append(p)
        if jump:
            args.append("ljump")
            printed.append(("target", i["off"]))
        return cls(*args), printed

    def encode(self, i):
        """-> ("ok", [bytes], printed operands) | ("rejected", exception name)"""
        ins, printed = self.build(i)
        try:
            data = list(ins.encode())
            for r in ins.relocations():
                size = r.size()
                part = data[r.offset:r.offset + size]
                assert len(part) == size, "relocation outside the instruction"
                buf = bytearray(part) if core.ENG is None else SymByteArray(part)
                if r.symbol_name == "ljump":
                    new = r.apply(i["P"] + i["off"], buf, i["P"] + r.offset)
                else:
                    assert r.symbol_name in ("ls", "ld"), r.symbol_name
                    new = r.apply(i[r.symbol_name[1] + "a"], buf, r.offset)
                data = data[:r.offset] + list(new) + data[r.offset + size:]
        except Exception as e:      # noqa: any error = operand combination rejected
            return ("rejected", type(e).__name__)
        return ("ok", data, printed)

    def run_encode_decode(self, i):
        r = self.encode(i)
        if r[0] != "ok":
            return r
        _, data, printed = r
        return ("ok", data, [list(p) for p in printed], _dec_dict(msp430dec.decode(data)))

    # -- comparison
    def premise(self, printed):
        """documented operand ranges (outside: C10 decides whether encode must reject)"""
        cs = []
        for p in printed:
            if p[0] == "idx":
                cs.append(sym_and(p[2] >= LO16, p[2] <= HI16))
            elif p[0] == "imm":
                cs.append(sym_and(p[1] >= LO16, p[1] <= HI16))
            elif p[0] == "abs":
                cs.append(sym_and(p[1] >= 0, p[1] <= HI16))
            elif p[0] == "target":
                cs.append(sym_and(p[1] >= JUMP_LO, p[1] <= JUMP_HI))
        return sym_and(*cs) if cs else True

    def matches(self, data, printed, dec):
        base, bw, sides, jump = self.layout()
        if not (bool(dec["ok"]) and dec["length"] == len(data)):
            return {"decodes-as-one-instruction": False, "decodes-to-printed-mnemonic": False,
                    "decodes-to-printed-operands": False}
        m = base in dec["mn"] and dec["bw"] == bw
        dops = [tuple(o) for o in dec["ops"]]
        if len(dops) != len(printed):
            return {"decodes-as-one-instruction": True, "decodes-to-printed-mnemonic": m,
                    "decodes-to-printed-operands": False}
        which = ["src", "dst"] if len(dops) == 2 else ["src"]
        cs = [msp430dec.operand_matches(tuple(p), o, s) for p, o, s in zip(printed, dops, which)]
        return {"decodes-as-one-instruction": True, "decodes-to-printed-mnemonic": m,
                "decodes-to-printed-operands": sym_and(m, *cs)}


class Msp430EncodingHarness(EncodeHarness):
    """C08 obligation: encode() raised, or the bytes are exactly one instruction of the manual that has the printed
    mnemonic and exactly the printed operands (premise: integer operands within the documented range)"""

    def inputs(self, mk):
        return self.operand_inputs(mk)

    def run(self, i):
        return self.run_encode_decode(i)

    def post(self, i, out):
        if not out.ok:
            return {"harness-ran": False}
        r = out.value
        if r[0] == "rejected":
            return {"rejected": True}
        _, data, printed, dec = r
        prem = self.premise(printed)
        return {k: implies(prem, v) for k, v in self.matches(data, printed, dec).items()}


class Msp430PseudoHarness(EncodeHarness):
    """pseudo-instructions that expand through render(): the rendered sequence (real render() + encode()) must be
    the ONE core instruction the manual's emulated-instruction table gives for the printed pseudo-instruction"""
    PREFIX = "msp430.pseudo"

    def __init__(self, idx, cls, mn):
        self.idx, self.cls, self.mn = idx, cls, mn
        self.params = dict(idx=idx, cls=cls, mn=mn)
        self.name = f"{self.PREFIX}[{cls}#{idx}:{mn}]"

    def inputs(self, mk):
        printed, base, bw, ops = parse_syntax(self.the_class())
        return {f"r{k}": mk.int(f"r{k}", 0, 15) for k, o in enumerate(ops)} or {"none": mk.int("none", 0, 0)}

    def run(self, i):
        from ppci.arch.generic_instructions import ArtificialInstruction
        from ppci.arch.msp430.registers import Msp430Register
        cls = self.the_class()
        printed, base, bw, ops = parse_syntax(cls)
        ins = cls(*[Msp430Register(f"r{k}", num=i[f"r{k}"]) for k, o in enumerate(ops)])
        own = [["reg", getattr(ins, o[1]).num] for o in ops]
        try:
            seq, work = [], list(ins.render())
            while work:
                x = work.pop(0)
                if isinstance(x, ArtificialInstruction):
                    work = list(x.render()) + work
                    continue
                assert not x.relocations(), "rendered instruction needs a relocation"
                seq.append(list(x.encode()))
        except Exception as e:      # noqa
            return ("rejected", type(e).__name__)
        after = [["reg", getattr(ins, o[1]).num] for o in ops]
        return ("ok", seq, own, after, [_dec_dict(msp430dec.decode(d)) for d in seq])

    def post(self, i, out):
        if not out.ok:
            return {"harness-ran": False}
        r = out.value
        if r[0] == "rejected":
            return {"pseudo-instruction renders": False}
        _, seq, own, after, decs = r
        printed, base, bw, ops = parse_syntax(self.the_class())
        core_mn, s, d = msp430dec.EMULATED[base]
        if len(seq) != 1:
            return {"renders to the one instruction of the emulated-instruction table": False}
        dec = decs[0]
        if not (dec["ok"] and dec["length"] == len(seq[0]) and len(dec["ops"]) == 2):
            return {"renders to the one instruction of the emulated-instruction table": False}

        def want(x):
            if x is None:
                return tuple(own[0])
            return ("imm", x[1]) if x[0] == "#" else x
        m = core_mn in dec["mn"] and dec["bw"] == bw
        cs = [msp430dec.operand_matches(want(x), tuple(o), side)
              for x, o, side in zip((s, d), dec["ops"], ("src", "dst"))]
        return {"renders to the one instruction of the emulated-instruction table": sym_and(m, *cs),
                "render leaves the printed operands unchanged": core.sym_eq(list(after), list(own))}


def nonvacuous(claimed):
    """concrete sanity per (class, source constructor, destination constructor): some plain operand choice is
    accepted by encode(); combinations for which every attempt is rejected are listed in the evidence"""
    dead, n = [], 0
    for (idx, cls, mn, src) in claimed:
        h = Msp430EncodingHarness(idx, cls, mn, src)
        base, bw, sides, jump = h.layout()
        ndst = len(sides[1][1]) if len(sides) > 1 else 1
        for dm in range(ndst):
            ok = False
            for reg in (5, 12, 1):
                for num in (0, 1, 2, 100):
                    vals = dict(sr=reg, dr=reg + 1, si=num, di=num, sa=0x200, da=0x202, dm=dm, off=16, P=0x1000)
                    try:
                        if h.encode(vals)[0] == "ok":
                            ok = True
                            break
                    except Exception:       # noqa
                        pass
                if ok:
                    break
            n += 1
            if not ok:
                dead.append(f"{h.name} dm={dm}")
    return n, dead


def mk_msp430_enc(**kw):
    return Msp430EncodingHarness(**kw)


def mk_msp430_pseudo(**kw):
    return Msp430PseudoHarness(**kw)


def mk_msp430_selftest():
    """concrete validation of ref/msp430dec.py + evidence lists (claimed / unclaimed classes, always-rejected)"""
    t0 = time.time()
    res = dict(harness="msp430.selftest", violations=[], known_hits=[], inconclusive=[], errors=[], funcs=[],
               samples=[], stats=dict(paths=1, decisions=0, feas_queries=0, cut_paths=0, solver_s=0.0),
               obligations=1, discharged=0, validated=0, reached=1, twin_violated=1, exhaustive=True, nontrivial=1)
    try:
        st = msp430dec.selftest()
        claimed, pseudo, unclaimed = discover()
        assert len(claimed) >= 200 and len(pseudo) >= 4, "msp430 instruction table not discovered"
        n, dead = nonvacuous(claimed)
        res["discharged"] = 1
        res["samples"] = [dict(harness="msp430.selftest", selftest=st, claimed_combinations=len(claimed),
                               operand_constructor_combinations=n, pseudo_instructions=[p[1] for p in pseudo],
                               unclaimed_classes=[list(u) for u in unclaimed], always_rejected=dead)]
    except (AssertionError, KeyError) as e:
        res["errors"].append(dict(kind="reference-selftest-failed", harness="msp430.selftest", error=repr(e)[:500]))
    res["wall_s"] = time.time() - t0
    return res


def jobs(tier, seed):
    js = [("mk_msp430_selftest", {})]
    claimed, pseudo, unclaimed = discover()
    for (idx, cls, mn, src) in claimed:
        js.append(("mk_msp430_enc", dict(idx=idx, cls=cls, mn=mn, src=src, wide=int(tier == "thorough"))))
    for (idx, cls, mn) in pseudo:
        js.append(("mk_msp430_pseudo", dict(idx=idx, cls=cls, mn=mn)))
    return js


BOUNDS_NOTE = ("every instruction class of ppci.arch.msp430.instructions registered in the ISA object with syntax + tokens "
               "(10 jumps, rrc/rrc.b/swpb/rra/rra.b/sxt/push/call, reti, 23 double-operand classes) x every source operand "
               "constructor (AdrSrc, RegSrc, MemSrc, MemSrcInc, MemSrcOffset, SmallConstSrc, ConstSrc, ConstLabelSrc) x every "
               "destination constructor (RegDst, AddrDst, MemDst; symbolic selector); every register number 0..15 (pc, sp, sr, cg "
               "included), source and destination symbolic at once; index X and immediate N -2**18 .. 2**18 (thorough: 2**48), "
               "obligation for the 16-bit range -32768 .. 65535; SmallConstSrc operand -16 .. 16 (thorough -64 .. 64); label "
               "address of &label / #label 0 .. 2**17 (thorough 2**20) through the real abs16 relocation; jump distance twice "
               "(thorough 16 x) the documented reach -1022 .. +1024 at every even instruction address below 2**16, through the "
               "real rel10 relocation; pseudo-instructions ret, pop (register 0..15), nop, clrc, clrn, clrz against the "
               "manual's emulated-instruction table")
OUTSIDE_NOTE = [
    "msp430: data directives (db, dw, dd, dq, ds, .byte, .zero ...), MSP430X (CPUX) instructions and instruction forms ppci has "
    "no class for (push.b, dadd.b, jlo/jhs spellings, symbolic mode ADDR, emulated instructions other than ret/pop/nop/clrc/clrn/clrz)",
    "msp430: index / immediate values outside -32768 .. 65535, label addresses above 65535, odd label addresses and jump "
    "distances outside -1022 .. +1024 (whether encode()/the relocation must reject them is C10; ppci's rel10 also rejects the "
    "two extreme distances -1022 and +1024, which is not judged)",
    "msp430: SmallConstSrc operands outside the stated interval (its table lookup raises KeyError for every value except "
    "-1, 0, 1, 2, 4, 8)",
    "msp430: the assembler's text path (string -> instruction object), e.g. that `#4` selects SmallConstSrc",
]
ASSUMPTIONS_NOTE = [
    "ref/msp430dec.py states the MSP430x1xx/2xx Family User's Guide (SLAU049/SLAU144 ch. 3: instruction formats I/II/jump, "
    "As/Ad addressing modes, constant generators R2/R3) correctly (self-tested per run: the first-word table is a function and "
    "decode follows it for all 65536 words, re-assembling every decoded form gives the words back, 54 known toolchain encodings, "
    "the 22 tests / 29 instructions of the repo's test_msp430asm.py incl. label resolution, undefined words rejected)",
    "msp430 spellings of one encoding are one operand: X(r2) = &X (the manual: absolute mode is indexed mode on SR, which reads "
    "as 0), r3 as a register-mode source = #0 (constant generator table), X(r0) = the symbolic mode, #N from the constant "
    "generator = #N with an extension word; a destination X(r3) is read as indexed mode (the constant generator table lists "
    "source modes only)",
    "msp430: the register ppci prints is rN for the register object's number N (names r0..r15 of ppci.arch.msp430.registers); "
    "what is printed is read off the real Syntax of the class and of the operand constructor plus the operand attributes "
    "after construction",
]
