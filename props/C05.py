"""C05  Cross-target machine code preserves IR behaviour -- RISC-V (rv32im, with and without rvc) and ARM A32.

Per program of the family (corpus/cprogs.py + the families in props/_c05progs.py) and configuration
(optimisation level, rvc on/off): the REAL pipeline runs concretely
    C source -> c_to_ir('riscv') -> optimize(level) -> ir_to_object -> link (code @0x10000, data @0x1000)
and the LINKED BYTES are executed by the manual-derived RV32IMC model ref/rv32.py from the function's entry with
symbolic argument registers (ppci's own convention, read from arch.determine_arg_locations /
determine_rv_location), symbolic other registers, symbolic contents of globals / of the 16 bytes behind every
pointer argument, until it returns to a sentinel `ra`.  The oracle is ref/irsem.py on the IR that was handed to
the back end (an identical second copy), evaluated under the link map's addresses, with the same symbolic inputs.
Obligations per path (premise: the IR execution is defined): same return value (width of the IR type), same final
bytes of every global and buffer, same sequence of external calls with the same arguments, sp / fp / callee-saved
registers restored and the caller's stack frame untouched, every executed word a modelled RV32IMC instruction.
A back-end exception on a program of the family is reported as "code-produced" = False.

ARM A32 (march 'arm'): the same pipeline and obligations; the linked bytes run on ref/arm32.py (props/_c05arm.py),
registers r0..r12 and the N Z C V flags are symbolic, the convention is read from the arm arch object (arguments r1..r4
then stack, result r0, callee-saved r5..r10 + fp r11 + sp), ppci's own runtime object (arch.get_runtime(): __sdiv) is
linked into every image and executed; a reference to a routine that exists nowhere is a link failure = no code.
"""
import os
import z3
from symx.harness import Harness, run_harness, load_known
from symx import core
from symx.core import sym_and, sym_or, sym_not, implies
from ref import rv32, irsem, irsem_u
from props import _tv, _c05, _c05arm, _c05progs
from ref import arm32

PROPERTY = "C05"
LEVEL = "translation_validation"
JOB_TIMEOUT = {"quick": 600, "thorough": 1500}
TASKS_PER_CHILD = 64
BOUNDS = {
    "quick": {"programs": "every program of corpus/cprogs.py (C, riscv type sizes) + props/_c05progs.py: 26 ABI / frame shapes (8 arguments in "
                          "registers + stack, register pressure, values live across calls, byte/halfword/struct memory traffic, function "
                          "pointer, dense switch ...), x op K / K op x for 10 operators and 9 boundary constants K (edges of the 12-bit "
                          "I-immediate, lui/addi carry, 32-bit edges), every IR binary operator and comparison on i8 u8 i16 u16 i32 u32 "
                          "(IR text through the real reader), unary - ~ with the operand reused, all 30 integer casts, stack frames of "
                          "100..600 words around the 2 KiB immediate edge",
              "configurations": "riscv: optimisation levels 0 and 2, rv32im without rvc; a rotating third of the programs also with rvc.  "
                                "arm: one level per program (0 / 2 alternating with the seed); constants K around the ARM modified immediate "
                                "and the 12-bit offset (255 256 257 0xff00 4095 4096 -255 -256 -4096 ..), frames of 60..1030 words",
              "symbolic": "argument registers (all 32 bits; an IR argument narrower than 32 bits is the low part), every other "
                          "register x3..x31, initial bytes of globals without initialiser (<=32 bytes), 16 bytes behind each "
                          "pointer argument, the byte filling all other memory, 4 external call results and what the callee "
                          "leaves in caller-saved registers",
              "unwinding": "400 machine instructions, 400 IR instructions, call depth 8, 120 paths per job (thorough 400), 15 s per "
                           "branch-feasibility query and two undecided branches per job (paths hitting a bound are cut and counted, "
                           "nothing is claimed for them); arm: 60 paths per job (thorough 400), 40 instructions inside ppci's runtime "
                           "helper __sdiv per run"},
    "thorough": {"programs": "same families with 21 constants K",
                 "configurations": "every program x levels 0, 2 and one of 1/s (rotating with the seed; api.optimize runs one pass list for 1, 2, s; s also selects ir_to_object(opt='size')) x {rv32im, rv32imc, arm}; the "
                                   "single-operation IR programs additionally with sign-/zero-extended argument registers",
                 "unwinding": "same, 400 paths per job"}}
OUTSIDE = ["Thumb, m68k, mips, x86_64 and every other target (no ISA model): not claimed",
           "arm: words that ref/arm32.py does not model (cond=1111 space, LDRD/STRD, LDREX.., VFP/NEON/coprocessor, media / saturating "
           "instructions, exception returns) end a run as 'machine-code-executable' = False; none occurs in the stated families",
           "arm: quotients that need more than 40 instructions of the __sdiv loop (cut)",
           "floating point, 64-bit integer types, struct-by-value arguments, inline assembly",
           "programs outside the stated families; executions longer than the unwinding bound",
           "external callees that modify memory visible to the caller",
           "function addresses as data (indirect calls through non-constant pointers)",
           "traps (misaligned access, access faults): the model has none; self-modifying code (fetch reads the linked image)"]
ASSUMPTIONS = ["ref/arm32.py states the ARM ARM (DDI 0406C) A32 subset correctly (self-test under C08/C07 arm; integer and z3 back ends "
               "cross-checked here on every path's model); ARM state, little endian, SCTLR.A = 0",
               "ref/rv32.py states the RISC-V Unprivileged ISA manual 20191213 correctly (self-test under C08; the integer and the "
               "z3 back end of its semantics are cross-checked here on every path's model)",
               "ref/irsem.py states the IR semantics (wrap-around, truncating / %, arithmetic >> on signed); premise: the IR "
               "execution is defined (no division by zero / overflow, shift count < width, accesses inside a live object)",
               "calling convention = what arch.determine_arg_locations / determine_rv_location / callee_save / caller_save say; "
               "bits of a register above a narrow argument or result are unspecified (a ppci caller passes them unextended)",
               "the reference is evaluated under the address map of the linked image (globals at their linked addresses); locals of "
               "the reference are indeterminate until written (ref/irsem_u.py), bytes that the reference leaves indeterminate "
               "(copied struct padding) are not compared",
               "the stack area [sp, sp + 32 KiB) at entry belongs to the caller: only incoming stack-argument slots may be written"]
SHIMS_USED = []
RULE = ("one evaluation = one (program, optimisation level, rvc) job: the real compiler runs once, every path of the linked code "
        "is executed symbolically next to the IR reference and compared by the solver for all inputs; non-trivial = more than one path")

MAX_STEPS = 400
HELPER_STEPS = 40      # ARM: instructions inside ppci's runtime helper routines (__sdiv: a shift-subtract loop) per run
M32 = 0xFFFFFFFF


def _bits(ty):
    return irsem.bits_of(ty, 32)


def _budgeted(eng):
    """a branch whose feasibility the solver cannot decide within timeout_ms ends the path (cut, counted) instead of
    being followed blindly: nothing is claimed for it"""
    if getattr(eng, "_c05_budgeted", False):
        return
    orig = eng.decide

    def decide(cond):
        n = eng.stats["feas_unknown"]
        r = orig(cond)
        if eng.stats["feas_unknown"] != n:
            eng._c05_cuts += 1
            raise core.PathCut("feasibility of a branch undecided within the solver budget")
        return r
    eng.decide = decide
    eng._c05_budgeted = True
    eng._c05_cuts = 0


class CodegenHarness(Harness):
    max_paths = 400
    max_decisions = 600
    cut_allowance = 10 ** 6          # unwinding cuts are expected and counted
    W = 80
    choose_limit = 8                 # symbolic addresses with <= 8 feasible values fork; wider ones stay symbolic (arrays)
    timeout_ms = 15000               # per feasibility query; undecided branches are cut and counted
    prove_timeout_ms = 240000        # 16-bit vs 32-bit divider equivalences take z3 ~10 s idle, cvc5 does not help
    shim_modules = ()

    def __init__(self, prog, level, rvc=False, argext="junk", march="riscv"):
        self.prog, self.level, self.rvc, self.argext, self.march = prog, str(level), bool(rvc), argext, march
        ext = "" if argext == "junk" else "|" + argext
        if march == "riscv":
            self.name = f"rvcode[{prog}|O{self.level}|{'rvc' if rvc else 'base'}{ext}]"
            self.params = dict(prog=prog, level=self.level, rvc=self.rvc, argext=argext)
        else:
            self.name = f"armcode[{prog}|O{self.level}{ext}]"
            self.params = dict(prog=prog, level=self.level, argext=argext, march=march)
        if os.environ.get("VERIF_TIER_ACTIVE", "quick") == "quick":
            self.max_paths = 120 if march == "riscv" else 60

    def built(self):
        src, kind, entry, ext = _c05progs.get(self.prog)
        return _c05.build(self.prog, src, kind, entry, ext, self.level, self.rvc, self.march)

    # -- inputs ----------------------------------------------------------------------------------
    def inputs(self, mk):
        b = self.built()
        inp = dict(built=b)
        if b.status != "ok":
            inp["dummy"] = mk.int("dummy", 0, 1)
            return inp
        f = b.func
        args, bufs = [], {}
        for k, p in enumerate(f.arguments):
            if type(p.ty).__name__ == "PointerTyp":
                bufs[f"buf{k}"] = [mk.int(f"buf{k}[{j}]", 0, 255) for j in range(_tv.BUF_LEN)]
                args.append(("ptr", f"buf{k}"))
            elif type(p.ty).__name__ in ("SignedIntegerTyp", "UnsignedIntegerTyp") and p.ty.bits <= 32:
                if self.argext == "junk":
                    v = mk.int(f"arg{k}", 0, M32)
                else:
                    lo, hi = _tv.ty_range(p.ty, 32)
                    v = mk.int(f"arg{k}", lo, hi)
                inp[f"arg{k}"] = v
                args.append(("int", v))
            else:
                args.append(("unsupported", str(p.ty)))
        glob = {}
        for v in b.module.variables:
            if v.value is None and v.amount <= 32:
                glob[v.name] = [mk.int(f"{v.name}[{j}]", 0, 255) for j in range(v.amount)]
        inp.update(args=args, bufs=bufs, glob=glob)
        inp["ext"] = [mk.int(f"ext{k}", 0, M32) for k in range(_c05.MAX_EXT)]
        if self.march == "arm":
            inp["regs"] = {i: mk.int(f"r{i}", 0, M32) for i in range(0, 13)}
            inp["flags"] = [mk.bool("flag" + n) for n in "NZCV"]
        else:
            inp["regs"] = {i: mk.int(f"x{i}", 0, M32) for i in range(3, 32)}
        inp["junk"] = mk.int("junk", 0, 255)
        inp["clob"] = [[mk.int(f"clob{c}_{r}", 0, M32) for r in b.caller_save] for c in range(_c05.MAX_EXT)]
        return inp

    # -- run -------------------------------------------------------------------------------------
    def run(self, i):
        b = i["built"]
        if b.status != "ok":
            return dict(status="no-code", error=b.error)
        if any(k == "unsupported" for k, _ in i["args"]):
            return dict(status="unsupported", why="argument type")
        sym = core.ENG is not None
        if sym:
            _budgeted(core.ENG)
            if core.ENG._c05_cuts >= 2:
                raise core.PathCut("solver budget of this job used up (two undecided branches)")
        arm = b.march == "arm"
        if arm:
            o = arm32.Z3OPS if sym else arm32.PYOPS
        else:
            o = rv32.Z3OPS if sym else rv32.PYOPS
        out = (lambda t: _tv.term_out(_c05arm.canon(t))) if sym else (lambda t: t)
        f = b.func
        # ---- reference: IR semantics under the link map
        try:
            sem = irsem_u.IrSemU(b.module, ptr_bits=32, ext_results=i["ext"], max_steps=MAX_STEPS, max_depth=8,
                              init_globals=i["glob"], buffers=i["bufs"], layout=b.layout)
            argv = []
            for (kind, v), p in zip(i["args"], f.arguments):
                if kind == "ptr":
                    argv.append(z3.BitVecVal(sem.buf_addr[v], 32))
                else:
                    argv.append(z3.Extract(_bits(p.ty) - 1, 0, irsem.bvv(v, 32)) if _bits(p.ty) < 32 else irsem.bvv(v, 32))
            try:
                r = sem.call(f, argv)
            except irsem.StepLimit as e:
                raise core.PathCut(str(e))
            # only executions inside the premise matter: restrict the path to them (an empty restriction ends the path)
            prem_t = _tv.term_out(sem.premise())
            if sym:
                core.ENG.assume(prem_t)
            elif not prem_t:
                raise core.Abort()
            ref = _tv.observable(sem, r)
            if sym and r is not None:
                ref["ret"] = out(r)
                ref["trace"] = [(n, [out(a) for a in args]) for n, args in sem.trace]
            ref["undef"] = {k: [_tv.term_out(u) for u in sem.undefined_bytes(k)] for k in ref["mem"]}
            premise = prem_t
        except irsem.Unsupported as e:
            return dict(status="unsupported", why=str(e)[:100])
        regions = [(rg.name, rg.base, rg.size) for rg in sem.regions if rg.kind in ("global", "buffer")]
        # ---- machine: initial state
        init = dict(b.image)
        for name, data in i["glob"].items():
            for j, v in enumerate(data):
                init[b.layout[name] + j] = core.to_bv(v, 8) if sym else v
        for name, data in i["bufs"].items():
            for j, v in enumerate(data):
                init[sem.buf_addr[name] + j] = core.to_bv(v, 8) if sym else v
        x = [o.val(0)] * (_c05arm.NREGS if arm else 32)
        for n, v in i["regs"].items():
            x[n] = o.val(v)
        x[b.lr] = o.val(_c05.SENTINEL)
        x[b.sp] = o.val(_c05.SP0)
        stack_args = []
        for (kind, v), loc in zip(i["args"], b.arg_locs):
            val = o.val(sem.buf_addr[v]) if kind == "ptr" else o.val(v)      # val(): low 32 bits, two's complement
            if hasattr(loc, "num"):
                x[loc.num] = val
            else:
                stack_args.append((loc.offset, loc.size, val))
        for off, size, val in stack_args:
            for j in range(min(size, 4)):
                init[_c05.SP0 + off + j] = o.byte(val, j)
        frame0 = [init.get(_c05.SP0 + j) for j in range(_c05.CALLER_FRAME)]
        if sym:
            mem = _c05.Z3Mem(init, core.to_bv(i["junk"], 8))
        else:
            mem = _c05.PyMem(init, i["junk"])
        x0 = list(x)
        trace = []
        counters = dict(calls=0, funs=0)

        def on_ext(stub, x, mem):
            e, locs, rv = stub
            args = []
            for loc, ty in zip(locs, e.argument_types):
                n = _bits(ty)
                if hasattr(loc, "num"):
                    v = x[loc.num]
                else:
                    a = o.add(x[b.sp], o.val(loc.offset))
                    v = o.cat([mem.load_byte(o.add(a, o.val(j))) for j in range(4)], False)
                args.append(out(_c05.reg_width_value(o, v, n)))
            trace.append((e.name, args))
            if counters["calls"] >= _c05.MAX_EXT:
                raise core.PathCut("more external calls than declared results")
            for rn, v in zip(b.caller_save, i["clob"][counters["calls"]]):
                x[rn] = o.val(v)
            counters["calls"] += 1
            if rv is not None:
                x[rv] = o.val(i["ext"][counters["funs"]])
                counters["funs"] += 1

        wild = []
        allowed = {_c05.SP0 + off + j for off, size, _ in stack_args for j in range(size)}
        try:
            if arm:
                fl = [(core.tobool(f) if sym else bool(f)) for f in i["flags"]]
                x, fl, mem, steps = _c05arm.emulate(b, o, x, fl, mem, on_ext, MAX_STEPS, wild, allowed, HELPER_STEPS)
            else:
                x, mem, steps = _c05.emulate(b, o, x, mem, on_ext, MAX_STEPS, wild, allowed)
        except _c05.MachineFault as e:
            self.last_fault = str(e)      # (not part of the outcome: the integer and the z3 run may word the same fault differently)
            return dict(status="fault", premise=premise)
        ret = None
        if b.rv_reg is not None:
            ret = out(_c05.reg_width_value(o, x[b.rv_reg], _bits(f.return_ty)))
        mmem = {}
        for name, base, size in sorted(regions):
            mmem[name] = [out(mem.load_byte(o.val(base + j))) for j in range(size)]
        saved = [(out(x[rn]), out(x0[rn])) for rn in b.callee_save]
        frame = [(out(mem.load_byte(o.val(_c05.SP0 + j))), out(frame0[j]) if frame0[j] is not None else i["junk"])
                 for j in range(_c05.CALLER_FRAME)]
        wildc = (_tv.term_out(z3.Or(*wild)) if sym else True) if wild else False
        if sym and core.ENG.current_model() is None:
            core.ENG._c05_cuts += 1
            raise core.PathCut("feasibility of the path undecided within the solver budget")
        return dict(status="ok", ref=ref, premise=premise, mach=dict(ret=ret, mem=mmem, trace=trace),
                    saved=saved, frame=frame, steps=steps, wild=wildc)

    # -- property --------------------------------------------------------------------------------
    def post(self, i, outc):
        if not outc.ok:
            return {"harness-ran": False}
        v = outc.value
        st = v["status"]
        if st == "no-code":
            return {"code-produced": False}
        if st == "unsupported":
            return {"not-comparable(" + v["why"][:40] + ")": True}
        if st == "fault":
            return {"machine-code-executable": implies(v["premise"], False)}
        ref, m, prem = v["ref"], v["mach"], v["premise"]
        posts = {}
        if (ref["ret"] is None) != (m["ret"] is None):
            posts["return-value"] = False
        elif ref["ret"] is not None:
            posts["return-value"] = implies(prem, ref["ret"] == m["ret"])
        conds = []
        for k in ref["mem"]:
            conds += [sym_or(u, a == c) for u, a, c in zip(ref["undef"][k], ref["mem"][k], m["mem"][k])]
        posts["memory"] = implies(prem, sym_and(*conds)) if conds else True
        if [n for n, _ in ref["trace"]] != [n for n, _ in m["trace"]]:
            posts["call-trace"] = implies(prem, False)
        elif ref["trace"]:
            cs = []
            for (_, a1), (_, a2) in zip(ref["trace"], m["trace"]):
                cs += [p == q for p, q in zip(a1, a2)]
            posts["call-trace"] = implies(prem, sym_and(*cs)) if cs else True
        posts["callee-saved-restored"] = implies(prem, sym_and(*[a == c for a, c in v["saved"]]))
        posts["caller-frame-intact"] = implies(prem, sym_and(sym_not(v["wild"]), *[a == c for a, c in v["frame"]]))
        return posts


def mk_code(**kw):
    import time
    t0 = time.process_time()
    h = CodegenHarness(**kw)
    known = load_known(os.path.join(os.path.dirname(os.path.dirname(os.path.abspath(__file__))), "known_findings.json"), PROPERTY)
    tier = os.environ.get("VERIF_TIER_ACTIVE", "quick")
    res = run_harness(h, known, deadline=time.time() + 0.6 * JOB_TIMEOUT[tier])     # then remaining paths are cut and counted
    if res["stats"].get("cut_paths", 0) and not res["violations"] and not res["inconclusive"] and \
            [e["kind"] for e in res["errors"]] == ["vacuous"]:
        res["errors"] = []          # every path hit an unwinding bound: nothing explored, nothing claimed (counted as cut)
    res["programs"] = 1
    res["wall_s"] = time.process_time() - t0        # CPU seconds of this job (the machine is shared; wall time is noise)
    res["disagreements_checked"] = res.get("obligations", 0)
    return res


def jobs(tier, seed):
    js = []
    progs = _c05progs.names(tier)
    for n, p in enumerate(progs):
        if tier == "quick":
            cfgs = [("0", False), ("2", False)]
            if n % 3 == seed % 3:
                cfgs.append(("2" if n % 2 else "0", True))
        else:
            # api.optimize runs the same pass list for levels 1, 2 and s: 0 and 2 everywhere, 1 and s rotate with the seed
            extra = ("1", "s")[(n + seed) % 2]
            cfgs = [(lv, rvc) for lv in ("0", "2", extra) for rvc in (False, True)]
        for lv, rvc in cfgs:
            js.append(("mk_code", dict(prog=p, level=lv, rvc=rvc)))
        if tier != "quick" and _c05progs.family(p) in ("n", "u", "c"):
            # the same single-operation programs called with properly sign-/zero-extended argument registers
            for rvc in (False, True):
                js.append(("mk_code", dict(prog=p, level="0", rvc=rvc, argext="ext")))
    # ARM A32: one optimisation level per program in quick (alternating 0 / 2 with the seed), 0, 2 and one of 1/s (rotating) in thorough
    for n, p in enumerate(_c05progs.names(tier, "arm")):
        lvls = ["2" if (n + seed) % 2 else "0"] if tier == "quick" else ["0", "2", ("1", "s")[(n + seed) % 2]]
        if tier == "quick" and _c05progs.family(p) == "s":
            lvls = ["0", "2"]       # ABI / frame / register-pressure shapes: both levels also in quick
        for lv in lvls:
            js.append(("mk_code", dict(prog=p, level=lv, march="arm")))
        if tier != "quick" and _c05progs.family(p) in ("n", "u", "c"):
            js.append(("mk_code", dict(prog=p, level="0", march="arm", argext="ext")))
    fam = os.environ.get("VERIF_C05_FAMILY")          # debugging aid: restrict to program families (comma separated)
    if fam:
        js = [j for j in js if _c05progs.family(j[1]["prog"]) in fam.split(",")]
    march = os.environ.get("VERIF_C05_MARCH")          # debugging aid: riscv | arm
    if march:
        js = [j for j in js if j[1].get("march", "riscv") == march]
    only = os.environ.get("VERIF_ONLY")
    if only:
        js = [j for j in js if only in repr(j)]
    return js
