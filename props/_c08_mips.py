"""C08 for ppci's MIPS back end (ppci/arch/mips/instructions.py), reference decoder ref/mipsdec.py (MIPS32 release 1/2).

Every instruction class registered in get_arch('mips').isa that comes from ppci.arch.mips.instructions and has a
syntax and tokens is instantiated with SYMBOLIC operands:
    r  MipsRegister object whose number is symbolic (0..31)
    i  symbolic integer (wider than any field)
    s  label: the real Abs26Relocation is applied to the encoded bytes with a symbolic symbol address S and a
       symbolic instruction address P
The real encode() (+ relocation.apply()) runs on them; the emitted bytes are read little-endian (as ppci emits
them) and decoded by ref/mipsdec.py.  What the printed text means is NOT stated per class here: the class's real
syntax is parsed generically into (mnemonic, operands in printed order, shape `op a, b, c` / `op a, b(c)`), and the
decoder lists, per instruction, the operand order of the manual's "Format:" line.  Obligation per path:
    encode raised                                                        (operand combination rejected), or
    the word is the instruction with the printed mnemonic,  and  some operand form of that instruction with as many
    operands as printed holds with every operand equal to the printed one (registers by number, integers as the
    manual reads the field: sign_extend / zero_extend; a label operand: the jump target the manual computes from
    instr_index and the address of the delay slot equals the label's address).
Integers outside the manual's documented operand range and label addresses a J-format jump cannot reach are not
judged (property C10).
"""
import importlib
import z3
from symx.harness import Harness
from symx import core
from symx.core import sym_and, implies
from symx.seq import SymByteArray
from ref import mipsdec

ARCH = "mips"
MOD = "ppci.arch.mips.instructions"
M32 = (1 << 32) - 1
FACTORIES = ["mk_mips_enc", "mk_mips_selftest"]


# ---------------------------------------------------------------------------------------------------------
# the class's real syntax, read generically
def syntax_of(cls):
    """-> (mnemonic, [(operand name, kind)], shape) or (mnemonic, None, reason) if the layout is not one of
    `op`, `op a, b, c`, `op a, b(c)`"""
    from ppci.arch.mips.registers import MipsRegister
    els = list(cls.syntax.syntax)
    mn = []
    while els and isinstance(els[0], str) and not els[0].isspace():
        mn.append(els.pop(0))
    mn = "".join(mn)
    ops, seps = [], []
    for e in els:
        if isinstance(e, str):
            if e.strip():
                seps.append(e.strip())
            continue
        c = e._cls
        kind = "r" if c is MipsRegister else "i" if c is int else "s" if c is str else "?"
        ops.append((e._name, kind))
        seps.append(None)
    layout = "".join("x" if s is None else s for s in seps)
    if any(k == "?" for _, k in ops):
        return mn, None, "operand class not modelled"
    if layout == ",".join("x" * len(ops)):
        return mn, ops, "plain"
    if layout == "x,x(x)":
        return mn, ops, "mem"
    return mn, None, f"syntax layout '{layout}' not modelled"


def discover():
    """-> (claimed [(idx, class name, mnemonic, kinds, shape)], unclaimed [(class name, why)])"""
    from ppci.api import get_arch
    claimed, unclaimed = [], []
    arch = get_arch(ARCH)
    for idx, cls in enumerate(arch.isa.instructions):
        if cls.__module__ != MOD:
            continue        # data directives (db, dw, dd ...) of data_isa
        if not getattr(cls, "syntax", None):
            continue        # abstract bases
        mn, ops, shape = syntax_of(cls)
        if not hasattr(cls, "tokens"):
            unclaimed.append((cls.__name__, f"pseudo instruction '{mn}' without encoding of its own (see pseudo_nop in the self test)"))
        elif ops is None:
            unclaimed.append((cls.__name__, f"'{mn}': {shape}"))
        elif mn not in mipsdec.NAMES:
            unclaimed.append((cls.__name__, f"mnemonic '{mn}' is no MIPS32 release 2 integer instruction of ref/mipsdec.py"))
        else:
            claimed.append((idx, cls.__name__, mn, "".join(k for _, k in ops), shape))
    return claimed, unclaimed


def in_range(v, rng):
    lo, hi, mult = rng
    c = sym_and(v >= lo, v <= hi)
    if mult > 1:
        c = sym_and(c, v % mult == 0)
    return c


def bv32(v):
    return core.to_bv(v, 32) if type(v) is not int else z3.BitVecVal(v & M32, 32)


def _zb(c):
    return c if z3.is_expr(c) else z3.BoolVal(bool(c))


class MipsEncodingHarness(Harness):
    """builds cls(*symbolic operands), runs the real encode() (+ the real relocation for a label operand)"""
    PREFIX = "mips.encode"
    W = 72
    max_paths = 4000
    IMM_BOUND = 1 << 33

    def __init__(self, idx, cls, mn, ks, shape, wide=0):
        self.idx, self.cls, self.mn, self.ks, self.shape, self.wide = idx, cls, mn, ks, shape, wide
        self.params = dict(idx=idx, cls=cls, mn=mn, ks=ks, shape=shape, wide=wide)
        self.name = f"{self.PREFIX}[mips:{cls}#{idx}:{mn}]"
        if wide:            # thorough tier
            self.IMM_BOUND = 1 << 48
            self.W = 96

    def modules(self):
        names = ["ppci.utils.bitfun", "ppci.arch.token", "ppci.arch.encoding", "ppci.arch.isa", "ppci.arch.registers",
                 "ppci.arch.mips.instructions", "ppci.arch.mips.registers"]
        return [importlib.import_module(n) for n in names]

    def the_class(self):
        from ppci.api import get_arch
        cls = get_arch(ARCH).isa.instructions[self.idx]
        assert cls.__name__ == self.cls, "instruction table changed under the job list"
        return cls

    # -- inputs
    def inputs(self, mk):
        d = {}
        for k, kd in enumerate(self.ks):
            if kd == "r":
                d[f"r{k}"] = mk.int(f"r{k}", 0, 31)
            elif kd == "i":
                d[f"i{k}"] = mk.int(f"i{k}", -self.IMM_BOUND, self.IMM_BOUND)
            else:
                # S: address the label stands for (any alignment, beyond the 32-bit address space);
                # P: address of the jump instruction (word aligned, anywhere in the 32-bit address space)
                d["S"] = mk.int("S", 0, (1 << (36 if self.wide else 33)) - 1)
                d["P"] = mk.int("P", 0, (1 << 32) - 4)
                mk.assume(d["P"] % 4 == 0)
        return d

    # -- the real code
    def run(self, i):
        """-> ("ok", [bytes], [printed operand values]) | ("rejected", exception name)"""
        from ppci.arch.mips.registers import MipsRegister
        cls = self.the_class()
        mn, ops, shape = syntax_of(cls)
        assert (mn, "".join(k for _, k in ops), shape) == (self.mn, self.ks, self.shape), "syntax changed under the job list"
        args = []
        for k, kd in enumerate(self.ks):
            if kd == "r":
                args.append(MipsRegister(f"r{k}", num=i[f"r{k}"]))
            elif kd == "i":
                args.append(i[f"i{k}"])
            else:
                args.append("lbl")
        ins = cls(*args)
        # what Syntax.render reads: the operand attributes after construction
        printed = []
        for k, (oname, kd) in enumerate(ops):
            v = getattr(ins, oname)
            printed.append(v.num if kd == "r" else v if kd == "i" else i["S"])
        try:
            data = ins.encode()
            rels = ins.relocations()
            if "s" in self.ks:
                assert len(rels) == 1, "one relocation expected for a label operand"
                r = rels[0]
                assert r.symbol_name == "lbl"
                size = r.size()
                part = list(data[r.offset:r.offset + size])
                buf = bytearray(part) if core.ENG is None else SymByteArray(part)
                new = r.apply(i["S"], buf, i["P"] + r.offset)
                data = list(data[:r.offset]) + list(new) + list(data[r.offset + size:])
            else:
                assert not rels, "relocation on an instruction without label operand"
        except Exception as e:      # noqa: any error = operand combination rejected
            return ("rejected", type(e).__name__)
        # the printed operands once more: encode() must not have changed what the syntax prints
        after = []
        for k, (oname, kd) in enumerate(ops):
            v = getattr(ins, oname)
            after.append(v.num if kd == "r" else v if kd == "i" else i["S"])
        return ("ok", list(data), printed, after)

    # -- what the manual says the printed text means
    def premise(self, i, printed):
        """documented ranges of the integer / label operands (outside: C10 decides whether encode must reject)"""
        cs = []
        order = self._order(len(printed))
        for k, kd in enumerate(self.ks):
            if kd == "i":
                if order is None:
                    continue
                rng = mipsdec.operand_range(self.mn, order[k])
                if rng is not None:
                    cs.append(in_range(printed[k], rng))
            elif kd == "s":
                S, P = printed[k], i["P"]
                # a J-format jump reaches the word-aligned addresses of the 256 MB region of its delay slot
                cs += [S % 4 == 0, S <= M32, S // (1 << 28) == ((P + 4) % (1 << 32)) // (1 << 28)]
        return sym_and(*cs) if cs else True

    def _order(self, n):
        """field names of the (first) operand form with n operands, in the manual's order"""
        for order, fixed in mipsdec._BY_NAME[self.mn][4]:
            if len(order) == n:
                return order
        return None

    def decode_matches(self, i, data, printed):
        """-> (mnemonic matches, operands match)"""
        if len(data) != 4 or self.shape != mipsdec.SHAPE[self.mn]:
            return False, False
        w = mipsdec.word_of_bytes(data)
        conc = type(w) is int
        d = mipsdec.decode(w if conc else core.to_bv(w, 32))
        m = d.is_(self.mn)
        alts = []
        for vals, cond in d.forms(self.mn, len(printed)):
            order = self._order(len(printed))
            cs = [cond]
            for k, fv in enumerate(vals):
                pv = printed[k]
                kd = self.ks[k]
                isreg = order[k] in mipsdec.REGISTER_FIELDS
                if (kd == "r") != isreg:
                    cs.append(False)        # a register is printed where the manual has an integer or vice versa
                    continue
                if kd == "s":
                    if conc:
                        cs.append(mipsdec.jump_target(fv, i["P"]) == pv)
                    else:
                        cs.append(mipsdec.jump_target(fv, bv32(i["P"])) == bv32(pv))
                elif conc:
                    cs.append((fv & M32) == (pv & M32))
                else:
                    cs.append(fv == bv32(pv))
            alts.append(all(cs) if conc else z3.And(*[_zb(c) for c in cs]))
        if conc:
            return bool(m), any(alts)
        wrap = lambda b: core.SymBool(b) if z3.is_expr(b) else bool(b)      # noqa
        return wrap(m), wrap(z3.Or(*alts) if alts else False)

    def post(self, i, out):
        if not out.ok:
            return {"harness-ran": False}
        r = out.value
        if r[0] == "rejected":
            return {"rejected": True}
        _, data, printed, after = r
        prem = self.premise(i, printed)
        m, ops = self.decode_matches(i, data, printed)
        return {"decodes-to-printed-mnemonic": implies(prem, m),
                "decodes-to-printed-operands": implies(prem, sym_and(m, ops)),
                "encode leaves the printed operands unchanged": core.sym_eq(list(after), list(printed))}


def mk_mips_enc(**kw):
    return MipsEncodingHarness(**kw)


# ---------------------------------------------------------------------------------------------------------
def register_names():
    """every register object of ppci.arch.mips.registers prints a name that denotes its number (o32 ABI names, rN)"""
    from ppci.arch.mips import registers as R
    from ppci.arch.mips.registers import MipsRegister
    seen = {}
    for attr, reg in vars(R).items():
        if isinstance(reg, MipsRegister):
            for nm in (reg.name,) + tuple(reg.aka):
                assert mipsdec.REG_NUMBER.get(nm) == reg.num, f"register object {attr}: printed name {nm!r} is not register {reg.num}"
            seen[reg.name] = reg.num
    assert len(seen) >= 12
    return seen


# architecturally empty instructions (no register / memory / HI,LO change, no trap possible): destination r0
_NOEFFECT3 = ("addu", "subu", "and", "or", "xor", "nor", "slt", "sltu", "sllv", "srlv", "srav", "movz", "movn")


def pseudo_nop():
    """the pseudo instruction `nop` (no tokens of its own): every rendered instruction must be architecturally empty.
    -> rendered text per ref/mipsdec.py"""
    from ppci.arch.mips import instructions as mi
    texts = []
    seq = list(mi.Nop().render())
    assert len(seq) == 1, "nop renders to one instruction"
    for ins in seq:
        data = ins.encode()
        assert len(data) == 4 and not ins.relocations()
        w = mipsdec.word_of_bytes(data)
        d = mipsdec.decode(w)
        n = d.mnemonic
        assert n is not None, f"nop renders to the reserved word {w:#010x}"
        f = d.fields(n)
        empty = (n in ("sll", "srl", "sra") and f["rd"] == 0) or (n in _NOEFFECT3 and f["rd"] == 0) or \
                (n in ("add", "sub") and f["rd"] == 0 and f["rs"] == 0 and f["rt"] == 0)      # 0 +/- 0 cannot overflow
        assert empty, f"nop renders to {mipsdec.text(w)}, which is not an empty operation"
        texts.append(mipsdec.text(w))
    return texts


def mk_mips_selftest():
    """concrete validation of ref/mipsdec.py + register names + pseudo nop + the list of unclaimed classes (evidence)"""
    import time
    t0 = time.time()
    name = "mips.selftest"
    res = dict(harness=name, violations=[], known_hits=[], inconclusive=[], errors=[], funcs=[],
               samples=[], stats=dict(paths=1, decisions=0, feas_queries=0, cut_paths=0, solver_s=0.0),
               obligations=1, discharged=0, validated=0, reached=1, twin_violated=1, exhaustive=True, nontrivial=1)
    try:
        st = mipsdec.selftest()
        regs = register_names()
        nop = pseudo_nop()
        claimed, unclaimed = discover()
        assert claimed, "no mips instruction class claimed"
        res["discharged"] = 1
        res["samples"] = [dict(harness=name, selftest=st, register_names_checked=len(regs), pseudo_nop_renders_as=nop,
                               claimed_classes=len(claimed), unclaimed_classes=[list(u) for u in unclaimed])]
    except AssertionError as e:
        res["errors"].append(dict(kind="reference-selftest-failed", harness=name, error=repr(e)[:500]))
    res["wall_s"] = time.time() - t0
    return res


def jobs(tier, seed):
    js = [("mk_mips_selftest", {})]
    claimed, unclaimed = discover()
    for (idx, cls, mn, ks, shape) in claimed:
        js.append(("mk_mips_enc", dict(idx=idx, cls=cls, mn=mn, ks=ks, shape=shape, wide=int(tier == "thorough"))))
    return js


BOUNDS_NOTE = ("every class of ppci.arch.mips.instructions registered in get_arch('mips').isa with syntax + tokens (37: lb lh lwl lw lbu "
               "lhu lwr sb sh swl sw swr, add addu sub subu and or xor nor slt sltu, addi addiu slti sltiu andi ori xori lui, sllv srlv "
               "srav, jr jalr, j jal); every register number 0..31 for every register operand (MipsRegister objects with symbolic "
               "number), all operands symbolic at once; integer operands [-2**33, 2**33] (thorough: [-2**48, 2**48]), obligation stated "
               "for the manual's range (sign-extended immediates and load/store offsets -32768..32767, zero-extended immediates of "
               "andi/ori/xori/lui 0..65535); j/jal: label address S 0..2**33-1 (thorough 2**36-1) at any alignment, instruction address "
               "P every multiple of 4 below 2**32, through the real Abs26Relocation; obligation for word-aligned S < 2**32 in the 256 MB "
               "region of the delay slot")
OUTSIDE_NOTE = ["mips: the pseudo instruction `nop` has no encoding of its own; the self test only checks that what it renders "
                "(add $0, $0, $0 = 0x00000020, not the manual's NOP idiom sll $0, $0, 0 = 0x00000000) is an architecturally empty operation",
                "mips: integer operands outside the manual's documented range (e.g. addi with 32768..65535, andi with a negative value: the "
                "16-bit token field takes -32768..65535) and label addresses a J-format jump cannot reach -- whether encode()/the relocation "
                "must reject them is C10",
                "mips: instruction forms ppci has no class for (branches, shifts by immediate, mult/div, HI/LO moves ...); big-endian MIPS "
                "(ppci emits little-endian words only); the assembler's text path"]
ASSUMPTIONS_NOTE = ["ref/mipsdec.py states the MIPS32 Architecture For Programmers vol. II (release 2: opcode / SPECIAL / REGIMM / SPECIAL2 / "
                    "SPECIAL3 tables, field layouts with their must-be-zero fields, operand order of the Format lines, sign/zero extension) "
                    "correctly (self-tested per run: 101 table entries pairwise disjoint, 77 known toolchain words incl. reserved ones, the 6 "
                    "vectors of the repo's test_mips.py, int vs z3 evaluation of the shared slicing expressions on 1600 words)",
                    "mips: the register a MipsRegister object prints is the one its name denotes; for the register objects of "
                    "ppci/arch/mips/registers.py name -> number is checked against the o32 ABI names (v0=2 ... sp=29, fp=30, ra=31; rN = $N) "
                    "in every run, the harness's symbolic register objects print rK for operand K and stand for their number",
                    "mips: a label operand denotes the symbol's address; `j label` / `jal label` at address P must encode "
                    "instr_index with ((P + 4) & 0xF0000000) | (instr_index << 2) == address; one-operand `jalr rs` is the manual's "
                    "`JALR rs (rd = 31 implied)`"]
