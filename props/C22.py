"""C22  WebAssembly execution follows the specification (integer subset, Python execution target + IR level).

Translation validation of ppci's WebAssembly execution pipeline against the reference semantics
ref/wasmsem.py (written from the Core Specification, section 4), per module of a stated family
(corpus/wasmprogs.py: one function per integer instruction x type, comparison-consumer contexts, generated
control-flow templates nested to depth <= 3 with br / br_if / br_table / return / value-carrying blocks /
dead code, locals / globals, loads / stores of every width at symbolic address + concrete offset including
the out-of-bounds boundary, direct calls, host imports, start function, call_indirect), built from text with
ppci's real `Module(text)`:

 route "py"  (the property's Python execution target): the REAL `ppci.wasm.instantiate(module, imports,
             target="python")` runs concretely (wasm_to_ir, verify_module, ir_to_python, exec of the generated
             code, _run_init, load_memory, populate_exports, start); the exported function is then invoked
             through the real `PythonWasmFunc.__call__` with SYMBOLIC arguments: the generated Python code,
             the IrPy runtime (correct/idiv/irem/ishl/.., load_*/store_* over struct on the heap) and the
             real `ppci.wasm.execution.runtime` helpers run on symx proxies.  The instance's heap / stack
             bytearrays are replaced by an array-backed equivalent (props/_wasmrt.py) after instantiation so
             that symbolic addresses do not enumerate; mutable globals and 16 memory bytes are overwritten
             with symbolic values through the instance's own global / memory objects.
 route "ir"  (translation only, what the native target consumes as well): the REAL `wasm_to_ir` output is
             executed by ref/irsem.py with symbolic arguments; calls to `wasm_rt_*` externals are resolved to
             the REAL runtime functions run on proxies; instantiation steps (_run_init, data segments, start)
             are replayed by the harness.  Compared under irsem's premise (the IR execution is defined).

Per path the solver decides: trap behaviour equal (a trap of the reference <=> an exception of ppci), results
equal, every global equal, memory equal at a universally quantified probe address (also after a trap: the
specification keeps the effects made before the trap), host-call trace equal.
"""
import os
import io
import sys
import z3
from symx.harness import Harness
from symx import core, shims
from symx.core import sym_and, sym_or, sym_not, implies, SymInt, SymBool
from ref import wasmsem, irsem
from corpus import wasmprogs
from props import _wasmrt

PROPERTY = "C22"
LEVEL = "translation_validation"
JOB_TIMEOUT = {"quick": 280, "thorough": 1500}
TASKS_PER_CHILD = 40
MEM_BASE = 0x100000          # address of the linear memory in the IR-level model
SYM_LO = list(range(0, 4))   # memory bytes that are symbolic inputs (start of memory)
SYM_HI = list(range(65532, 65536))   # ... and the last 4 bytes of the first page
MAX_EXT = 3

BOUNDS = {
    "quick": {"modules": "corpus/wasmprogs.py names('quick', seed): 259 modules = 66 numeric instruction modules (every integer instruction x "
                         "i32/i64), 37 comparison-consumer modules, 48 generated + 13 fixed control-flow templates (nesting depth <= 3), "
                         "7 locals/globals, 9 call, 1 call_indirect, 10 misc, 68 memory modules (35 loads, 21 stores, 12 store/load pairs); "
                         "routes: py for all, ir for all but call_indirect; 3 modules translated a second time from the same Module object",
              "symbolic": "all arguments (full i32 / i64 range), every mutable global, 8 bytes of linear memory (first 4 and last 4 of "
                          "page 0) on top of the data segment, the probe address for memory equality (0..65535), 3 host-call results",
              "unwinding": "400 wasm steps / 1500 IR instructions per execution, call depth 3; at most 400 paths per module; "
                           "longer / further paths are cut and counted"},
    "thorough": {"modules": "1036 modules: same families with 600 generated control-flow templates, all 110 comparison contexts, "
                            "7 offsets per memory access (84 loads, 52 stores), all 84 store/load pairs",
                 "unwinding": "same"}}
OUTSIDE = ["floating-point instructions and f32/f64 values (no symbolic float domain)",
           "the native-code execution target (needs real x86-64 execution); wasmtime as reference (not installed: the specification is)",
           "memory.grow / memory.fill / memory.copy / memory.init, table.* instructions, reference types, multi-value blocks, SIMD",
           "modules outside the stated families; executions longer than the unwinding bound",
           "route ir: executions whose IR is undefined in ref/irsem.py (division by zero / overflow, shift count >= width, accesses outside "
           "every region) -- these are decided on route py only",
           "route py: stores through a wild (negative) stack address that would resize the IrPy stack bytearray (path cut, counted)"]
ASSUMPTIONS = ["reference semantics ref/wasmsem.py (WebAssembly Core Specification 1.0 section 4 + sign-extension operators), cross-checked on "
               "162 boundary points of the specification test suite by tools/wasmsem_selftest.py",
               "ppci's text parser ppci.wasm.Module(text) is the input format of both sides (a parser defect would be common mode)",
               "a trap of the reference corresponds to ANY exception raised by the invocation on ppci's side (WasmTrapException, Unreachable, "
               "AssertionError of the IrPy bounds assertion, struct.error ...): the exception class is not compared",
               "route ir: IR semantics ref/irsem.py with 32-bit pointers; memory at a fixed base; host functions do not touch memory",
               "route py: IrPy helpers correct/idiv/irem run from their generated source with pure sign tests merged (symx.ifconv); "
               "round(x) of an integer is x; the heap/stack bytearrays are replaced by props/_wasmrt.ArrayBytes (same slicing semantics, "
               "validated per path against the real bytearray by the concrete re-execution)"]
SHIMS_USED = ["isinstance", "int", "bytes", "bytearray", "struct", "range"]
RULE = ("one evaluation = one (module, route) job: the real ppci pipeline runs once per path, its execution on symbolic arguments is "
        "compared with the reference semantics by the solver for all inputs; non-trivial = more than one path")


# ---------------------------------------------------------------------------------------------------------
def sval(t, signed=False):
    """z3 term -> python int / SymInt"""
    t = z3.simplify(t)
    if z3.is_bv_value(t):
        return t.as_signed_long() if signed else t.as_long()
    if z3.is_true(t):
        return True
    if z3.is_false(t):
        return False
    if core.ENG is None:
        raise irsem.Unsupported(f"non-constant term in concrete mode: {t}")
    if z3.is_bool(t):
        return SymBool(t)
    return core.from_bv(t, signed=signed)


def tbits(t):
    return 32 if t == "i32" else 64


def usig(v, n):
    """unsigned reading of a signed python value / SymInt of width n (for comparison with reference terms)"""
    if type(v) in (SymInt, SymBool):
        return core.from_bv(core.to_bv(v, n), signed=False)
    return int(v) & ((1 << n) - 1)


def eqn(a, b, n):
    """equality of two values modulo 2**n, stated on n-bit terms (the wide engine terms simplify away)"""
    if type(a) not in (int, bool, SymInt, SymBool) or type(b) not in (int, bool, SymInt, SymBool):
        return False
    if core.ENG is None or not (core.is_sym(a) or core.is_sym(b)):
        return (int(a) - int(b)) % (1 << n) == 0
    return SymBool(core.to_bv(a, n) == core.to_bv(b, n))


def module_info(module):
    """what the harness needs to know about the parsed module (component attribute names only)"""
    info = dict(globals=[], memory=None, imports=[], datas=[], export_index=None, table=False)
    for d in module:
        k = type(d).__name__
        if k == "Global":
            info["globals"].append((d.typ, bool(d.mutable)))
        elif k == "Memory":
            info["memory"] = d.min
        elif k == "Import" and d.kind == "func":
            info["imports"].append((d.modname, d.name, d.info[0].index))
        elif k == "Data" and d.mode:
            info["datas"].append((d.mode[1][0].args[0], bytes(d.data)))
        elif k == "Export" and d.kind == "func" and d.name == "f":
            info["export_index"] = d.ref.index
        elif k == "Table":
            info["table"] = True
    info["types"] = [d for d in module if type(d).__name__ == "Type"]
    return info


class _IrSem(irsem.IrSem):
    """ref/irsem.py plus exact store-to-load forwarding: wasm2ppci keeps every wasm local in an alloca; a load that
    reads back exactly what the last store to the same constant address wrote returns that term itself (instead of a
    concat of byte extracts, which z3's simplifier tears apart), so that both executions build structurally equal
    terms.  A store through a symbolic address drops every forwarded cell it may overlap on the current path."""

    def __init__(self, *a, **k):
        irsem.IrSem.__init__(self, *a, **k)
        self.fw = {}

    def store(self, addr, val, nbytes):
        irsem.IrSem.store(self, addr, val, nbytes)
        a = z3.simplify(addr)
        if z3.is_bv_value(a):
            a = a.as_long()
            for (b, n) in list(self.fw):
                if b < a + nbytes and a < b + n:
                    del self.fw[(b, n)]
            self.fw[(a, nbytes)] = val
            return
        for (b, n) in list(self.fw):
            hit = z3.And(z3.ULT(a - z3.BitVecVal(b, self.pb) + (nbytes - 1), z3.BitVecVal(n + nbytes - 1, self.pb)))
            if core.ENG is None:
                if not z3.is_false(z3.simplify(hit)):
                    del self.fw[(b, n)]
            elif core.ENG._check(hit)[0] != "unsat":
                del self.fw[(b, n)]

    def load(self, addr, nbytes):
        a = z3.simplify(addr)
        if z3.is_bv_value(a) and (a.as_long(), nbytes) in self.fw:
            self.ub.append(z3.Not(self._valid(addr, nbytes)))
            return self.fw[(a.as_long(), nbytes)]
        self.ub.append(z3.Not(self._valid(addr, nbytes)))
        bs = [_wasmrt.resolve_select(self.mem, addr + k) for k in range(nbytes)]
        return z3.simplify(z3.Concat(*reversed(bs))) if nbytes > 1 else bs[0]

    def call(self, func, args, depth=0):
        r = irsem.IrSem.call(self, func, args, depth)
        for (b, n) in list(self.fw):
            if irsem.STACK_BASE <= b < irsem.STACK_BASE + 0x8000 and b + n > self.stack_top:
                del self.fw[(b, n)]
        return r


class WasmHarness(Harness):
    prove_fresh_smt = True     # cvc5 fallback gets the original assertions (symx/solve.py)
    prove_uf_first = True      # equal operands => equal products / quotients by congruence (symx/solve.py)
    max_paths = 400
    max_decisions = 600
    cut_allowance = 10 ** 6
    timeout_ms = 20000
    prove_timeout_ms = 30000

    def __init__(self, prog, route, twice=False):
        self.prog = prog
        self.route = route
        self.twice = twice
        self.name = f"wasm[{prog}|{route}{'|second-translation' if twice else ''}]"
        self.params = dict(prog=prog, route=route, twice=twice)
        src = wasmprogs.source(prog)
        bits = 64 if "i64" in src else 32
        self.W = 3 * bits + 16 if "rot" in src else 2 * bits + 8
        self.t0 = None
        self.shim_modules = ("ppci.utils.bitfun", "ppci.wasm.execution.runtime")
        if any(x in src for x in ("div_s", "rem_s")):
            self.prove_timeout_ms = 5000       # sdiv against |a| udiv |b|: z3 gives up, cvc5 (bit-vectors as integers) decides

    def shim_extra(self):
        # popcnt forks once per bit (2**32 paths): its real source is if-converted (as in C39) for the symbolic runs
        from symx import ifconv
        import ppci.utils.bitfun as bf
        return {"popcnt": ifconv.convert(bf.popcnt)}

    # -- inputs -------------------------------------------------------------------------------------------
    def inputs(self, mk):
        from ppci.wasm import Module
        import time
        if self.t0 is None:
            self.t0 = time.time()
        tier = os.environ.get("VERIF_TIER_ACTIVE", "quick")
        if core.ENG is not None and time.time() - self.t0 > 0.8 * JOB_TIMEOUT.get(tier, 280):
            raise core.PathCut("job time budget")     # remaining paths are cut and counted (evidence: cut_paths, exhaustive=false)
        src = wasmprogs.source(self.prog)
        fname, ps, rs = wasmprogs.entry(self.prog)
        info = module_info(Module(src))
        args = []
        for k, t in enumerate(ps):
            n = tbits(t)
            args.append(mk.int(f"arg{k}", -(1 << (n - 1)), (1 << (n - 1)) - 1))
        glob = {}
        for k, (t, mut) in enumerate(info["globals"]):
            if mut:
                n = tbits(t)
                glob[k] = mk.int(f"g{k}", -(1 << (n - 1)), (1 << (n - 1)) - 1)
        membytes = {}
        probe = 0
        if info["memory"]:
            for a in SYM_LO + SYM_HI:
                membytes[a] = mk.int(f"m{a}", 0, 255)
            probe = mk.int("probe", 0, 65535)
        ext = [mk.int(f"ext{k}", -(1 << 31), (1 << 31) - 1) for k in range(MAX_EXT)] if info["imports"] else []
        # effective addresses (unsigned base + offset, no wrap) of the memory-access templates, for known-finding regions
        ea = []
        parts = self.prog.split(":")
        if parts[0] in ("ld", "st"):
            ea = [args[0] % (1 << 32) + int(parts[2])]
        elif parts[0] == "mem":
            ea = [args[0] % (1 << 32) + int(parts[3]), args[2] % (1 << 32) + int(parts[4])]
        return dict(src=src, ps=ps, rs=rs, args=args, glob=glob, membytes=membytes, probe=probe, ext=ext,
                    gtypes=[t for t, _ in info["globals"]], ea=ea)

    # -- the reference ------------------------------------------------------------------------------------
    def run_ref(self, i, info, max_steps):
        from ppci.wasm import Module
        module = Module(i["src"])
        results = list(i["ext"])
        host = {}
        for modname, name, tyidx in info["imports"]:
            ty = info["types"][tyidx]

            def fn(argv, ty=ty):
                if not ty.results:
                    return []
                if not results:
                    raise core.PathCut("more host calls than declared results")
                return [wasmsem.bv(results.pop(0), tbits(ty.results[0]))]
            host[f"{modname}.{name}"] = fn
        ws = wasmsem.WasmSem(module, host=host, max_steps=max_steps, max_depth=3)
        for k, v in i["glob"].items():
            ws.globals[k][2] = wasmsem.bv(v, tbits(ws.globals[k][0]))
        for a, b in i["membytes"].items():
            ws.poke(a, b)
        out = dict(trap=None, res=None)
        try:
            r = ws.invoke("f", i["args"])
            out["res"] = [sval(x) for x in r]
        except wasmsem.Trap as e:
            out["trap"] = str(e)
        except wasmsem.StepLimit as e:
            raise core.PathCut(str(e))
        out["globals"] = [sval(g[2]) for g in ws.globals]
        out["mem"] = sval(ws.peek(wasmsem.bv(i["probe"], 32))) if info["memory"] else None
        out["trace"] = [(n, [sval(a) for a in args]) for n, args in ws.trace]
        return out

    # -- route ir -----------------------------------------------------------------------------------------
    def run_ir(self, i, info, max_steps):
        from ppci.wasm import Module, wasm_to_ir
        from ppci.arch.arch_info import TypeInfo
        from ppci.irutils import verify_module
        from ppci.wasm.execution import runtime
        module = Module(i["src"])
        irm = wasm_to_ir(module, TypeInfo(4, 4))
        if self.twice:
            irm = wasm_to_ir(module, TypeInfo(4, 4))
        verify_module(irm)
        winfo = irm._wasm_info
        results = list(i["ext"])
        trace = []
        handlers = {}
        rtfuncs = runtime.create_runtime()
        symbolic = core.ENG is not None
        for e in getattr(irm, "externals", []):
            nm = e.name
            if not hasattr(e, "argument_types"):
                continue
            if nm.startswith("wasm_rt_"):
                key = nm[len("wasm_rt_"):]
                if key == "memory_size":
                    handlers[nm] = lambda argv: z3.BitVecVal(info["memory"], 32)
                    continue
                fn = rtfuncs.get(key)
                if fn is None:
                    continue

                def h(argv, fn=fn):
                    return fn(*[sval(a, signed=True) for a in argv])
                handlers[nm] = h
            else:
                rty = getattr(e, "return_ty", None)

                def h(argv, nm=nm, rty=rty):
                    trace.append((nm, [sval(a) for a in argv]))
                    if rty is None:
                        return None
                    if not results:
                        raise core.PathCut("more host calls than declared results")
                    return irsem.bvv(results.pop(0), irsem.bits_of(rty, 32))
                handlers[nm] = h
        big = {}
        init = {}
        if info["memory"]:
            big["mem0"] = (MEM_BASE, info["memory"] * 65536, {})
            init["wasm_mem0_address"] = list(MEM_BASE.to_bytes(4, "little"))
        sem = _IrSem(irm, ptr_bits=32, max_steps=max_steps, max_depth=4, init_globals=init, big_buffers=big,
                          ext_handlers=handlers)
        out = dict(trap=None, res=None)
        try:
            sem.call("_run_init", [])
            for off, data in info["datas"]:
                for j, b in enumerate(data):
                    sem.mem = z3.Store(sem.mem, z3.BitVecVal(MEM_BASE + off + j, 32), z3.BitVecVal(b, 8))
            if winfo.start_name is not None:
                sem.call(winfo.start_name, [])
            gnames = winfo.global_names
            for k, v in i["glob"].items():
                n = tbits(info["globals"][k][0])
                sem.store(z3.BitVecVal(sem.gaddr[gnames[k][1]], 32), irsem.bvv(v, n), n // 8)
            for a, b in i["membytes"].items():
                sem.mem = z3.Store(sem.mem, z3.BitVecVal(MEM_BASE + a, 32), irsem.bvv(b, 8))
            fname = winfo.function_names[info["export_index"]]
            f = [x for x in irm.functions if x.name == fname][0]
            argv = [irsem.bvv(a, tbits(t)) for a, t in zip(i["args"], i["ps"])]
            try:
                r = sem.call(f, argv)
                out["res"] = [] if r is None else [sval(r)]
            except irsem.StepLimit as e:
                # the reference ended within 400 wasm steps; 1500 IR instructions are far beyond what the translation
                # needs: reported as non-termination (a trap-like outcome), not cut
                out["trap"] = "does not terminate within the IR step bound"
            except irsem.Unsupported:
                raise
            except Exception as e:
                out["trap"] = type(e).__name__
        except irsem.StepLimit as e:
            raise core.PathCut(str(e))
        out["globals"] = []
        for k, (t, mut) in enumerate(info["globals"]):
            n = tbits(t) // 8
            a = sem.gaddr[winfo.global_names[k][1]]
            out["globals"].append(sval(sem.load(z3.BitVecVal(a, 32), n)))     # (forwarded whole term, see _IrSem)
        out["mem"] = None
        if info["memory"]:
            out["mem"] = sval(z3.Select(sem.mem, z3.BitVecVal(MEM_BASE, 32) + irsem.bvv(i["probe"], 32)))
        out["trace"] = trace
        out["premise"] = sval(sem.premise())
        return out

    # -- route py -----------------------------------------------------------------------------------------
    def run_py(self, i, info, max_steps):
        return _wasmrt.run_python_target(self, i, info, max_steps)

    # -- run ----------------------------------------------------------------------------------------------
    def run(self, i):
        from ppci.wasm import Module
        info = module_info(Module(i["src"]))
        tier = os.environ.get("VERIF_TIER_ACTIVE", "quick")
        res = dict(status="ok")
        if core.ENG is not None:
            core.ENG.uf_prune = True     # range checks of struct.pack on products / quotients: decided with * / % abstracted first
        try:
            res["ref"] = self.run_ref(i, info, 400)
        except wasmsem.Unsupported as e:
            res["status"] = "reference-unsupported:" + str(e)[:60]
            return res
        try:
            if self.route == "ir":
                res["imp"] = self.run_ir(i, info, 1500)
            else:
                res["imp"] = self.run_py(i, info, 1500)
        except irsem.Unsupported as e:
            res["status"] = "ir-model-unsupported:" + str(e)[:60]
        except (core.Abort, core.PathCut, core.EngineError):
            raise
        except Exception as e:
            res["status"] = "ppci-rejects-valid-module:" + type(e).__name__
        return res

    # -- post ---------------------------------------------------------------------------------------------
    def post(self, i, out):
        if not out.ok:
            return {"harness-ran": False}
        v = out.value
        st = v["status"]
        if st.startswith("reference-unsupported") or st.startswith("ir-model-unsupported"):
            return {"not-comparable(" + st[:60] + ")": True}
        if st != "ok":
            return {"valid-module-is-executed": False}
        ref, imp = v["ref"], v["imp"]
        prem = imp.get("premise", True)
        posts = {}
        posts["trap-behaviour"] = implies(prem, (ref["trap"] is None) == (imp["trap"] is None))
        if ref["trap"] is None and imp["trap"] is None:
            ok = len(ref["res"]) == len(imp["res"])
            conds = [eqn(a, b, tbits(t)) for a, b, t in zip(ref["res"], imp["res"], i["rs"])] if ok else []
            posts["results"] = implies(prem, sym_and(ok, *conds))
            if "canonical" in imp:
                posts["result-in-signed-range-of-its-type"] = imp["canonical"]
        if ref["globals"]:
            posts["globals"] = implies(prem, sym_and(*[eqn(a, b, tbits(t)) for a, b, t in zip(ref["globals"], imp["globals"], i["gtypes"])]))
        if ref["mem"] is not None:
            posts["memory"] = implies(prem, eqn(ref["mem"], imp["mem"], 8))
        if ref["trace"] or imp["trace"]:
            ok = [n.replace(".", "_") for n, _ in ref["trace"]] == [n for n, _ in imp["trace"]]
            conds = []
            if ok:
                for (_, a1), (_, a2) in zip(ref["trace"], imp["trace"]):
                    ok = ok and len(a1) == len(a2)
                    conds += [eqn(x, y, 64) for x, y in zip(a1, a2)]
            posts["host-calls"] = implies(prem, sym_and(ok, *conds))
        return posts


def mk_wasm(**kw):
    return WasmHarness(**kw)


def jobs(tier, seed):
    js = []
    names = wasmprogs.names(tier, seed)
    for n in names:
        fam = n.split(":")[0]
        js.append(("mk_wasm", dict(prog=n, route="py")))
        if fam != "calli":
            js.append(("mk_wasm", dict(prog=n, route="ir")))
    # translating the same Module object a second time must give the same program
    for n in ["cfx:br_table_values", "cfx:br_table_twice", "cmp:i32.eq:brtable" if tier != "quick" else "cfx:br_table_i64_free"]:
        js.append(("mk_wasm", dict(prog=n, route="ir", twice=True)))
    only = os.environ.get("VERIF_ONLY")
    if only:
        js = [j for j in js if only in repr(j)]
    return js
