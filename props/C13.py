"""C13  Linker relaxation (RISC-V rvc: jal/j -> c.jal/c.j) preserves program behaviour.

Real code executed on proxies: ppci.binutils.linker.Linker.{link, layout_sections, do_relaxations,
_apply_relaxation_holes, do_relocations}, ppci.arch.riscv.rvc_relocations.{CBImm11Relocation,
CBlImm11Relocation}.{can_shrink, do_shrink, apply}, BcImm11Relocation.apply, isinsrange,
ppci.utils.bitfun.{BitView, wrap_negative}; objects are built with the real ObjectFile API from the bytes and
relocations of the real instruction classes (rvc_instructions.CB `j`, CBl `jal rd`, instructions.Beq,
data_instructions.Dcd2).

One harness = one program shape (concrete): objects -> sections -> items (j L / jal rd, L / beq L / .word L /
label / filler) and the layout (which section goes to which memory).  Symbolic: the base address of every
memory (so the distance of every cross-memory jump, hence every combination of shrink decisions, is decided
by the solver), and the filler bytes.

Oracle: the same real link with relaxation switched off (jump relocation types replaced by the base ISA's
non-shrinking `b_imm20`), i.e. "the unrelaxed link" of the property.  The relaxed output is decoded with
ref/rvjump.py (written from the ISA manual).
"""
import os
import random
from symx.harness import Harness
from symx import core
from symx.core import sym_and, sym_or, sym_not, ite, implies
from ref import linkspec as LS
from ref import rvjump as RV

PROPERTY = "C13"
LEVEL = "model_checking"
N_SHAPES = {"quick": 24, "thorough": 96}
BOUNDS = {
    "quick": {"shapes": "17 hand-written + seeded sample up to 24 (family: 1-2 objects, 1-3 sections, 2-5 j/jal with "
                        "rd in {x0,x1,x5}, 0-2 beq / .word references, DEFINESYMBOL / empty marker sections as targets, fillers 0-12 bytes (one shape 2040-2052), 1-2 memories)",
              "memory base m0": "[0, 2**32-2**21]", "other memory bases": "m0 + [-2**19, 2**19] (keeps every jump inside the JAL range)",
              "filler bytes": "every value (fillers > 8 bytes: first and last 3 bytes symbolic)"},
    "thorough": {"shapes": "17 hand-written + seeded sample up to 96 (same family)",
                 "memory base m0": "[0, 2**32-2**21]", "other memory bases": "m0 + [-2**19, 2**19]",
                 "filler bytes": "every value (fillers > 8 bytes: first and last 3 bytes symbolic)"},
}
OUTSIDE = ["'the relaxed program computes the same results' beyond: every jump/branch/address reference reaches the same "
           "label, the link register of every jump is unchanged, all other bytes are unchanged (no emulated execution here)",
           "jumps further than +-1 MiB (JAL range; C10/C11 territory)", "more than 2 memories / 5 jumps / 3 sections",
           "relaxation of anything but cb_imm11 / cbl_imm11 (the only shrinkable relocation types in ppci)"]
ASSUMPTIONS = ["the unrelaxed link is the same real link with jump relocation types cb_imm11/cbl_imm11 replaced by b_imm20 "
               "(same J-type field, Relocation.can_shrink() == False)",
               "instruction lengths in the relaxed output are read from the bytes (inst[1:0] != 11 <=> 16 bit, ISA manual 1.5)",
               "a failing unrelaxed link is a premise failure (nothing claimed on that path)"]
SHIMS_USED = ["isinstance", "int", "range", "bytes", "bytearray", "bool"]
JOB_TIMEOUT = {"quick": 900, "thorough": 3600}

_ARCH = {}


def _arch():
    if "a" not in _ARCH:
        from ppci.api import get_arch
        _ARCH["a"] = get_arch("riscv:rvc")
    return _ARCH["a"]


def _reg(num):
    from ppci.arch.riscv import registers as R
    return {0: R.R0, 1: R.LR, 5: R.R5, 6: R.R6}[num]


SIZES = {"j": 4, "jal": 4, "beq": 4, "word": 4, "label": 0}


def item_size(it):
    return it[1] if it[0] == "fill" else SIZES[it[0]]


class RelaxHarness(Harness):
    shim_modules = ("ppci.binutils.linker", "ppci.binutils.objectfile", "ppci.binutils.layout",
                    "ppci.arch.encoding", "ppci.arch.token", "ppci.utils.bitfun", "ppci.arch.data_instructions",
                    "ppci.arch.riscv.relocations", "ppci.arch.riscv.rvc_relocations")
    W = 48
    max_paths = 4000
    max_decisions = 800

    def __init__(self, shape, idx=0):
        self.shape = shape
        self.idx = idx
        self.name = f"relax[{idx}:{describe(shape)}]"
        self.params = dict(shape=shape, idx=idx)
        # ---- static structure: elements of every output section in merged order
        self.pieces = {}        # sec name -> [(oi, si, piece offset)]
        self.elems = {}         # sec name -> [dict(kind, old, size, ...)] in address order
        self.label_at = {}      # label -> (sec name, old offset)
        per = {}
        for oi, o in enumerate(shape["objs"]):
            for si, s in enumerate(o["secs"]):
                per.setdefault(s["n"], []).append((oi, si, sum(item_size(it) for it in s["items"]), s.get("al", 4)))
        for name, lst in per.items():
            offs, tot = LS.merge_offsets([(ln, al) for (_, _, ln, al) in lst])
            self.pieces[name] = [(oi, si, off, al) for (oi, si, _, al), off in zip(lst, offs)]
            el = []
            for (oi, si, off, al) in self.pieces[name]:
                pos = off
                fi = 0
                for k, it in enumerate(shape["objs"][oi]["secs"][si]["items"]):
                    d = dict(kind=it[0], old=pos, size=item_size(it), key=(oi, si, k))
                    if it[0] == "label":
                        self.label_at[it[1]] = (name, pos)
                        d["name"] = it[1]
                    elif it[0] == "jal":
                        d["rd"], d["target"] = it[1], it[2]
                    elif it[0] == "j":
                        d["rd"], d["target"] = 0, it[1]
                    elif it[0] in ("beq", "word"):
                        d["target"] = it[1]
                    el.append(d)
                    pos += d["size"]
            self.elems[name] = el
            self.elems[name + "/size"] = tot
        self.sizes = {n: self.elems.pop(n + "/size") for n in list(self.pieces)}
        self.defs = [n[1:] for m in shape["layout"] for n in m["secs"] if n.startswith("=")]

    # ------------------------------------------------------------------ inputs
    def inputs(self, mk):
        sh = self.shape
        locs = []
        loc0 = mk.int("m0.loc", 0, (1 << 32) - (1 << 21))
        locs.append(loc0)
        for mi in range(1, len(sh["layout"])):
            d = mk.int(f"m{mi}.delta", -(1 << 19), 1 << 19)
            mk.assume(loc0 + d >= 0)
            locs.append(loc0 + d)
        fills = {}
        for oi, o in enumerate(sh["objs"]):
            for si, s in enumerate(o["secs"]):
                for k, it in enumerate(s["items"]):
                    if it[0] == "fill":
                        n = it[1]
                        nm = f"o{oi}.{s['n']}.fill{k}"
                        if n <= 8:
                            fills[(oi, si, k)] = list(mk.bytes(nm, n))
                        else:
                            head = [mk.int(f"{nm}[{i}]", 0, 255) for i in range(3)]
                            tail = [mk.int(f"{nm}[{i}]", 0, 255) for i in range(n - 3, n)]
                            mid = [(7 * i + 1) & 0xFF for i in range(3, n - 3)]
                            fills[(oi, si, k)] = head + mid + tail
        return dict(locs=locs, fills=fills, H=self)

    # ------------------------------------------------------------------ run
    def _build(self, inp, relax):
        from ppci.binutils.objectfile import ObjectFile, RelocationEntry
        from ppci.arch.riscv.rvc_instructions import CB, CBl
        from ppci.arch.riscv.instructions import Beq
        from ppci.arch.data_instructions import Dcd2
        arch = _arch()
        objs = []
        for oi, o in enumerate(self.shape["objs"]):
            obj = ObjectFile(arch)
            symid = {}

            def sym(name):
                if name not in symid:
                    symid[name] = len(symid)
                    obj.add_symbol(symid[name], name, "global", None, None, "object", 0)
                return obj.symbols_by_id[symid[name]]

            for si, s in enumerate(o["secs"]):
                sec = obj.get_section(s["n"], create=True)
                sec.alignment = s.get("al", 4)
                for k, it in enumerate(s["items"]):
                    pos = sec.size
                    ins = None
                    if it[0] == "label":
                        y = sym(it[1])
                        y.value = pos
                        y.section = sec.name
                    elif it[0] == "fill":
                        sec.add_data(_symbytes(inp["fills"][(oi, si, k)]))
                    elif it[0] == "j":
                        ins = CB(it[1])
                    elif it[0] == "jal":
                        ins = CBl(_reg(it[1]), it[2])
                    elif it[0] == "beq":
                        ins = Beq(_reg(5), _reg(6), it[1])
                    elif it[0] == "word":
                        ins = Dcd2(it[1])
                    if ins is not None:
                        sec.add_data(ins.encode())
                        for rl in ins.relocations():
                            rname = rl.name
                            if not relax and rname in ("cb_imm11", "cbl_imm11"):
                                rname = "b_imm20"
                            obj.add_relocation(RelocationEntry(rname, sym(rl.symbol_name).id, sec.name,
                                                               pos + rl.offset, rl.addend))
            objs.append(obj)
        return objs

    def _layout(self, inp):
        from ppci.binutils import layout as L
        lay = L.Layout()
        for mi, m in enumerate(self.shape["layout"]):
            mem = L.Memory(m["name"])
            mem.location = inp["locs"][mi]
            mem.size = 1 << 33
            for n in m["secs"]:
                if n.startswith("="):
                    mem.add_input(L.SymbolDefinition(n[1:]))      # DEFINESYMBOL(name)
                else:
                    mem.add_input(L.Section(n))
            lay.add_memory(mem)
        return lay

    @staticmethod
    def _snap(out):
        names = {y.id: y.name for y in out.symbols}
        return dict(status="ok",
                    secs={s.name: [s.address, s.alignment, list(s.data)] for s in out.sections},
                    syms={y.name: out.get_symbol_id_value(y.id) for y in out.symbols if y.value is not None},
                    rels=[[r.reloc_type, names.get(r.symbol_id), r.section, r.offset] for r in out.relocations],
                    imgs=[[im.name, im.address, [s.name for s in im.sections]] for im in out.images])

    def run(self, inp):
        import logging
        logging.getLogger("linker").setLevel(logging.CRITICAL)
        from ppci.binutils.linker import link
        res = {}
        for key, relax in (("oracle", False), ("relaxed", True)):
            try:
                out = link(self._build(inp, relax), layout=self._layout(inp))
                res[key] = self._snap(out)
            except Exception as e:       # engine control flow is BaseException
                res[key] = dict(status="exc", exc=type(e).__name__)
            if key == "oracle" and res[key]["status"] != "ok":
                break
        return res

    # ------------------------------------------------------------------ what the specification predicts
    def spec(self, oracle):
        """From the UNRELAXED link: which jumps are inside the CJ range, and where everything ends up if exactly
        those shrink by 2 bytes (fork-free; used for the known-finding regions and the 'every byte accounted' checks)."""
        A = {n: oracle["secs"][n][0] for n in self.pieces}
        lab = {l: A[s] + off for l, (s, off) in self.label_at.items()}
        for n in self.defs:
            lab[n] = oracle["syms"][n]
        d = {}
        newoff = {}
        removed = {}
        for n, el in self.elems.items():
            rem = 0
            for e in el:
                newoff[e["key"]] = e["old"] - rem
                if e["kind"] in ("j", "jal"):
                    off = lab[e["target"]] - (A[n] + e["old"])
                    c = sym_and(off >= -2048, off <= 2047)
                    d[e["key"]] = c
                    rem = rem + ite(c, 2, 0)
            removed[n] = rem
        E = {}
        nlab = {}
        for m in self.shape["layout"]:
            delta = 0
            for n in m["secs"]:
                if n.startswith("="):
                    nlab[n[1:]] = lab[n[1:]] - delta        # a layout symbol marks the location counter: it moves too
                elif n in A:
                    E[n] = A[n] - delta
                    delta = delta + removed[n]
        for n in A:
            E.setdefault(n, A[n])
        for n, el in self.elems.items():
            for e in el:
                if e["kind"] == "label":
                    nlab[e["name"]] = E[n] + newoff[e["key"]]
        return dict(A=A, lab=lab, d=d, newoff=newoff, removed=removed, E=E, nlab=nlab)

    # -- regions of the recorded findings (functions of the inputs via the unrelaxed link only)
    def grown(self, inp, out):
        """a jump that fits c.j before relaxation no longer fits after the other holes are punched"""
        o = out.value["oracle"]
        if o["status"] != "ok":
            return False
        sp = self.spec(o)
        cs = []
        for n, el in self.elems.items():
            for e in el:
                if e["kind"] in ("j", "jal"):
                    new = sp["nlab"][e["target"]] - (sp["E"][n] + sp["newoff"][e["key"]])
                    cs.append(sym_and(sp["d"][e["key"]], sym_or(new < RV.CJ_MIN, new > RV.CJ_MAX)))
        return sym_or(*cs) if cs else False

    def grown_ref(self, inp, out):
        """a conditional branch that is in range (+-4 KiB) before relaxation is out of range afterwards"""
        o = out.value["oracle"]
        if o["status"] != "ok":
            return False
        sp = self.spec(o)
        cs = []
        for n, el in self.elems.items():
            for e in el:
                if e["kind"] == "beq":
                    old = sp["lab"][e["target"]] - (sp["A"][n] + e["old"])
                    new = sp["nlab"][e["target"]] - (sp["E"][n] + sp["newoff"][e["key"]])
                    cs.append(sym_and(old >= -4096, old <= 4094, sym_or(new < -4096, new > 4094)))
        return sym_or(*cs) if cs else False

    def rd_lost(self, inp, out):
        """a `jal rd` with rd != x1 is inside the CJ range (ppci turns it into c.jal = jal x1)"""
        o = out.value["oracle"]
        if o["status"] != "ok":
            return False
        sp = self.spec(o)
        cs = [sp["d"][e["key"]] for el in self.elems.values() for e in el if e["kind"] == "jal" and e["rd"] != 1]
        return sym_or(*cs) if cs else False

    def misaligned(self, inp, out):
        """shifting by the removed bytes (without re-doing the layout) leaves a section / input piece misaligned"""
        o = out.value["oracle"]
        if o["status"] != "ok":
            return False
        sp = self.spec(o)
        cs = []
        for n, pcs in self.pieces.items():
            cs.append(sym_not(LS.aligned(sp["E"][n], o["secs"][n][1])))
            for (oi, si, off, al) in pcs:
                cs.append(sym_not(LS.aligned(sp["E"][n] + self._piece_newoff(sp, n, off), al)))
        return sym_or(*cs) if cs else False

    def _piece_newoff(self, sp, n, off):
        rem = 0
        for e in self.elems[n]:
            if e["kind"] in ("j", "jal") and e["old"] < off:
                rem = rem + ite(sp["d"][e["key"]], 2, 0)
        return off - rem

    def oracle_sound(self, o):
        """every jump / branch / word of the UNRELAXED output designates its label"""
        cs = []
        for n, el in self.elems.items():
            data = o["secs"][n][2]
            base = o["secs"][n][0]
            for e in el:
                if "target" not in e:
                    continue
                w = RV.le(data[e["old"]:e["old"] + 4])
                t = o["syms"][e["target"]]
                if e["kind"] in ("j", "jal"):
                    ok, rd, off = RV.jal32(w)
                    cs.append(sym_and(ok, base + e["old"] + off == t))
                elif e["kind"] == "beq":
                    ok, off = RV.branch32(w)
                    cs.append(sym_and(ok, base + e["old"] + off == t))
                else:
                    cs.append(w == t)
        return sym_and(*cs) if cs else True

    # ------------------------------------------------------------------ post
    def post(self, inp, out):
        if not out.ok:
            return {"no-unexpected-exception": False}
        v = out.value
        o = v["oracle"]
        if o["status"] != "ok":
            return {"premise-unrelaxed-link-succeeds": True}
        r = v.get("relaxed")
        if r["status"] != "ok":
            # a failing relaxed link is a defect only if the unrelaxed output is itself correct (every reference
            # in range, i.e. really reaching its label; an out-of-range branch that ppci's wrap_negative lets
            # through in the unrelaxed link is C10's finding, not a relaxation defect)
            return {"relaxed-link-succeeds-when-unrelaxed-does": sym_not(self.oracle_sound(o))}
        A = {n: o["secs"][n][0] for n in self.pieces}
        RA = {n: r["secs"][n][0] for n in self.pieces}
        ob = {}
        # ---- walk the relaxed bytes: instruction lengths are read from the encoding
        newoff, shrunk, removed = {}, {}, {}
        walk_ok = []
        for n, el in self.elems.items():
            data = r["secs"][n][2]
            rem = 0
            for e in el:
                q = e["old"] - rem
                newoff[e["key"]] = q
                if e["kind"] in ("j", "jal"):
                    if q + 2 > len(data):
                        walk_ok.append(False)
                        shrunk[e["key"]] = False
                        continue
                    c = bool(RV.is_16bit(data[q]))
                    shrunk[e["key"]] = c
                    if c:
                        rem += 2
            removed[n] = rem
            walk_ok.append(len(data) == self.sizes[n] - rem)
        ob["section-size-is-old-size-minus-removed-bytes"] = all(walk_ok)

        defpos = {}
        shift = []
        for m in self.shape["layout"]:
            delta = 0
            for n in m["secs"]:
                if n.startswith("="):
                    ps = f"_${n[1:]}_"
                    defpos[n[1:]] = o["syms"][n[1:]] - delta
                    shift.append(False if ps not in r["secs"] else r["secs"][ps][0] == o["secs"][ps][0] - delta)
                elif n in A:
                    shift.append(RA[n] == A[n] - delta)
                    delta += removed[n]

        def where(label):          # where the code/data marked by the label really is in the relaxed output
            if label in defpos:
                return defpos[label]
            s, off = self.label_at[label]
            for e in self.elems[s]:
                if e["kind"] == "label" and e["name"] == label:
                    return RA[s] + newoff[e["key"]]

        # ---- every control transfer / reference reaches the same logical target; link register unchanged
        reach, rdok, refs, keep = [], [], [], []
        for n, el in self.elems.items():
            data = r["secs"][n][2]
            odata = o["secs"][n][2]
            for e in el:
                q = newoff[e["key"]]
                if e["kind"] in ("j", "jal"):
                    if shrunk[e["key"]]:
                        ok, rd, off = RV.cj16(RV.le(data[q:q + 2]))
                    else:
                        if q + 4 > len(data):
                            reach.append(False)
                            continue
                        ok, rd, off = RV.jal32(RV.le(data[q:q + 4]))
                    reach.append(sym_and(ok, RA[n] + q + off == where(e["target"])))
                    rdok.append(rd == e["rd"])
                elif e["kind"] == "beq":
                    if q + 4 > len(data):
                        refs.append(False)
                        continue
                    w = RV.le(data[q:q + 4])
                    ok, off = RV.branch32(w)
                    # premise: the branch is in range in the unrelaxed link, i.e. reaches its label there
                    ook, ooff = RV.branch32(RV.le(odata[e["old"]:e["old"] + 4]))
                    pre = sym_and(ook, A[n] + e["old"] + ooff == o["syms"][e["target"]])
                    refs.append(implies(pre, sym_and(ok, RA[n] + q + off == where(e["target"]))))
                    # register fields / funct3 untouched
                    keep.append((w & 0x01FFF07F) == (RV.le(odata[e["old"]:e["old"] + 4]) & 0x01FFF07F))
                elif e["kind"] == "word":
                    if q + 4 > len(data):
                        refs.append(False)
                        continue
                    refs.append(RV.le(data[q:q + 4]) == where(e["target"]))
                elif e["kind"] == "fill":
                    fb = inp["fills"][e["key"]]
                    if q + len(fb) > len(data):
                        keep.append(False)
                        continue
                    for k, b in enumerate(fb):
                        keep.append(data[q + k] == b)
        ob["jumps-reach-the-same-target"] = sym_and(*reach) if reach else True
        ob["link-register-preserved"] = sym_and(*rdok) if rdok else True
        ob["other-references-follow-their-target"] = sym_and(*refs) if refs else True
        ob["other-bytes-unchanged"] = sym_and(*keep) if keep else True

        # ---- symbols, relocations and section addresses moved by exactly the bytes removed before them
        cs = []
        for n, el in self.elems.items():
            for e in el:
                if e["kind"] == "label":
                    old = o["syms"].get(e["name"])
                    new = r["syms"].get(e["name"])
                    if old is None or new is None:
                        cs.append(False)
                        continue
                    cs.append(new == where(e["name"]))
        for n in self.defs:
            new = r["syms"].get(n)
            cs.append(False if new is None else new == defpos[n])
        ob["symbols-shift-with-their-code"] = sym_and(*cs) if cs else True
        ob["sections-shift-by-bytes-removed-before-them"] = sym_and(*shift) if shift else True
        want = sorted((n, newoff[e["key"]], e["target"]) for n, el in self.elems.items() for e in el if "target" in e)
        try:
            got = sorted((sec, int(off), name) for (_, name, sec, off) in r["rels"])
        except TypeError:
            got = None
        ob["relocation-entries-shift-with-their-site"] = got == want
        # ---- alignment survives (or the link reports an error)
        cs = []
        for n, pcs in self.pieces.items():
            cs.append(LS.aligned(RA[n], r["secs"][n][1]))
            for (oi, si, off, al) in pcs:
                first = [e for e in self.elems[n] if e["key"][0] == oi and e["key"][1] == si]
                po = newoff[first[0]["key"]] if first else off
                cs.append(LS.aligned(RA[n] + po, al))
        ob["section-alignment-preserved"] = sym_and(*cs) if cs else True
        return ob


def _symbytes(lst):
    from symx.seq import SymBytes
    return SymBytes.make(list(lst))


# ---------------------------------------------------------------------------------------------------
def describe(sh):
    def it(i):
        if i[0] == "fill":
            return f"f{i[1]}"
        if i[0] == "label":
            return f"{i[1]}:"
        if i[0] == "jal":
            return f"jal{i[1]}>{i[2]}"
        return f"{i[0]}>{i[1]}"
    o = "+".join("/".join(s["n"] + "(" + " ".join(it(i) for i in s["items"]) + ")" for s in ob["secs"]) for ob in sh["objs"])
    lay = "|".join(",".join(m["secs"]) for m in sh["layout"])
    return f"{o};{lay}"


def Sx(n, *items, al=4):
    d = dict(n=n, items=[list(i) for i in items])
    if al != 4:
        d["al"] = al
    return d


def hand_shapes():
    J, JAL, L, F, B, Wd = (lambda t: ("j", t)), (lambda rd, t: ("jal", rd, t)), (lambda n: ("label", n)), \
        (lambda n: ("fill", n)), (lambda t: ("beq", t)), (lambda t: ("word", t))
    one = lambda *secs: [dict(secs=list(secs))]
    sh = []
    # 1 one section: forward j, backward jal, filler between
    sh.append(dict(objs=one(Sx("code", L("a"), F(4), J("b"), F(2), JAL(1, "a"), F(6), L("b"), F(2))),
                   layout=[dict(name="m0", secs=["code"])]))
    # 2 jumps across two memories, both directions (every shrink combination is a path)
    sh.append(dict(objs=one(Sx("code", L("a"), J("x"), F(4), JAL(1, "y"), L("a2"), F(2)),
                            Sx("code2", L("x"), F(2), J("a"), L("y"), JAL(1, "a2"), F(4))),
                   layout=[dict(name="m0", secs=["code"]), dict(name="m1", secs=["code2"])]))
    # 3 two sections in one memory: the second one moves
    sh.append(dict(objs=one(Sx("code", L("a"), J("x"), F(2), J("a")), Sx("code2", L("x"), F(4), JAL(1, "a"))),
                   layout=[dict(name="m0", secs=["code", "code2"])]))
    # 4 jal with rd = x5 next to jal x1 and j
    sh.append(dict(objs=one(Sx("code", L("a"), JAL(5, "b"), JAL(1, "b"), J("b"), F(4), L("b"), F(2))),
                   layout=[dict(name="m0", secs=["code"])]))
    # 5 conditional branches and address words referring to labels behind shrinking jumps
    sh.append(dict(objs=one(Sx("data", Wd("b"), Wd("c"), L("d0")),
                            Sx("code", L("a"), B("c"), J("b"), J("c"), L("b"), B("a"), JAL(1, "a"), F(2), L("c"), B("b"))),
                   layout=[dict(name="ram", secs=["data"]), dict(name="flash", secs=["code"])]))
    # 6 two objects merged into one section (second piece is 4-aligned), calls between them
    sh.append(dict(objs=[dict(secs=[Sx("code", L("f"), JAL(1, "g"), F(2), J("f"))]),
                         dict(secs=[Sx("code", L("g"), F(4), JAL(1, "f"), J("g"))])],
                   layout=[dict(name="m0", secs=["code"])]))
    # 7 in-section distance at the CJ boundary (2046 / 2048 bytes forward, -2048 / -2050 backward)
    sh.append(dict(objs=one(Sx("code", L("a"), J("p"), F(2042), L("p"), F(2), L("q"), F(2038), J("q"), F(2), J("q"))),
                   layout=[dict(name="m0", secs=["code"])]))
    sh.append(dict(objs=one(Sx("code", L("a"), J("p"), F(2044), L("p"), F(2040), JAL(1, "p"), F(2), JAL(1, "p"))),
                   layout=[dict(name="m0", secs=["code"])]))
    # 9 far cross-memory call plus near local jumps: holes before the far jump change its distance
    sh.append(dict(objs=one(Sx("code", L("a"), J("b"), J("b"), L("b"), JAL(1, "x"), F(2), J("x")),
                            Sx("code2", F(4), L("x"), F(2))),
                   layout=[dict(name="m0", secs=["code"]), dict(name="m1", secs=["code2"])]))
    # 10 target section shrinks in front of the target (backward growth)
    sh.append(dict(objs=one(Sx("code", L("a"), J("a2"), L("a2"), J("a"), F(2), L("t"), F(2)),
                            Sx("code2", L("x"), JAL(1, "t"), F(2), J("t"))),
                   layout=[dict(name="m0", secs=["code"]), dict(name="m1", secs=["code2"])]))
    # 11 three sections, two memories, data word pointing into relaxed code
    sh.append(dict(objs=one(Sx("data", Wd("x"), Wd("a")), Sx("code", L("a"), J("x"), F(2), JAL(1, "x")),
                            Sx("code2", F(2), L("x"), J("a"))),
                   layout=[dict(name="ram", secs=["data"]), dict(name="flash", secs=["code", "code2"])]))
    # 12 no jump can shrink inside the section (all far), only cross-memory ones can
    sh.append(dict(objs=one(Sx("code", L("a"), J("x"), F(8), J("x"), F(8), J("x")), Sx("code2", L("x"), F(2))),
                   layout=[dict(name="m0", secs=["code"]), dict(name="m1", secs=["code2"])]))
    # 13 label directly behind a shrinking jump, jump to itself, adjacent jumps
    sh.append(dict(objs=one(Sx("code", L("s"), J("s"), L("n"), J("n"), J("s"), L("e"), JAL(1, "e"))),
                   layout=[dict(name="m0", secs=["code"])]))
    # 14 section aligned 8 behind relaxed code in the same memory + second object piece aligned 8
    sh.append(dict(objs=[dict(secs=[Sx("code", L("a"), J("b"), L("b"), F(2)), Sx("code2", L("x"), F(4), al=8)]),
                         dict(secs=[Sx("code", L("c"), JAL(1, "a"), J("x"), al=8)])],
                   layout=[dict(name="m0", secs=["code", "code2"])]))
    # 15 DEFINESYMBOL behind relaxed code; jumps, a branch and an address word refer to it
    sh.append(dict(objs=one(Sx("data", Wd("cend"), Wd("a")),
                            Sx("code", L("a"), J("cend"), F(2), JAL(1, "a"), B("cend"), J("a")),
                            Sx("code2", L("x"), J("cend"), F(2))),
                   layout=[dict(name="ram", secs=["data"]), dict(name="flash", secs=["=cstart", "code", "=cend", "code2", "=iend"])]))
    # 16 empty marker section (only a label) behind relaxed code, in the same and in another memory
    sh.append(dict(objs=one(Sx("code", L("a"), J("mk"), J("a"), F(2), J("mk2")), Sx("mark", L("mk")), Sx("mark2", L("mk2"))),
                   layout=[dict(name="m0", secs=["code", "mark"]), dict(name="m1", secs=["mark2"])]))
    # 17 conditional branch across memories behind a shrinking jump (distance can grow past +-4 KiB)
    sh.append(dict(objs=one(Sx("code", L("a"), J("b"), L("b"), B("x"), F(2), B("y")), Sx("code2", L("y"), F(2), L("x"), J("y"), F(2))),
                   layout=[dict(name="m0", secs=["code"]), dict(name="m1", secs=["code2"])]))
    return sh


def gen_shape(rng):
    n_mem = rng.choice([1, 2, 2])
    secnames = ["code"] + (["code2"] if rng.random() < 0.6 or n_mem == 2 else [])
    n_jump = rng.randint(2, 5)
    n_lab = rng.randint(2, 4)
    labels = [f"L{i}" for i in range(n_lab)]
    seq = {n: [] for n in secnames}
    # distribute labels and jumps over the sections, keep order random
    things = [("label", l) for l in labels]
    for _ in range(n_jump):
        rd = rng.choice([0, 0, 1, 1, 1, 5])
        t = rng.choice(labels)
        things.append(("j", t) if rd == 0 else ("jal", rd, t))
    for _ in range(rng.choice([0, 0, 1, 2])):
        things.append(("beq", rng.choice(labels)))
    for _ in range(rng.randint(1, 4)):
        things.append(("fill", rng.choice([2, 2, 4, 6, 8, 12])))
    rng.shuffle(things)
    for t in things:
        seq[rng.choice(secnames)].append(list(t))
    for n in secnames:
        if not seq[n]:
            seq[n].append(["fill", 4])
    words = rng.random() < 0.3
    two_obj = rng.random() < 0.25
    if two_obj:
        n = "code"
        k = max(1, len(seq[n]) // 2)
        objs = [dict(secs=[dict(n=n, items=seq[n][:k])] + [dict(n=m, items=seq[m]) for m in secnames if m != n]),
                dict(secs=[dict(n=n, items=seq[n][k:] or [["fill", 2]])])]
    else:
        objs = [dict(secs=[dict(n=m, items=seq[m]) for m in secnames])]
    if words:
        objs[0]["secs"].insert(0, dict(n="data", items=[["word", rng.choice(labels)] for _ in range(rng.randint(1, 2))]))
    if n_mem == 1:
        layout = [dict(name="m0", secs=(["data"] if words else []) + secnames)]
    else:
        a, b = ["code"], ["code2"]
        if words:
            (a if rng.random() < 0.5 else b).insert(0, "data")
        layout = [dict(name="m0", secs=a), dict(name="m1", secs=b)]
        if rng.random() < 0.5:
            layout.reverse()
            layout[0]["name"], layout[1]["name"] = "m0", "m1"
    # layout-defined symbols / empty marker sections as additional targets
    extra_targets = []
    if rng.random() < 0.35:
        m = rng.choice(layout)
        m["secs"].insert(rng.randint(0, len(m["secs"])), "=D0")
        extra_targets.append("D0")
    if rng.random() < 0.2:
        objs[0]["secs"].append(dict(n="mark", items=[["label", "MK"]]))
        m = rng.choice(layout)
        m["secs"].insert(rng.randint(1, len(m["secs"])), "mark")
        extra_targets.append("MK")
    for t in extra_targets:
        refs = [it for o in objs for sc in o["secs"] for it in sc["items"] if it[0] in ("j", "jal", "beq", "word")]
        for it in rng.sample(refs, min(len(refs), rng.randint(1, 2))):
            it[-1] = t
    return dict(objs=objs, layout=layout)


def shapes(tier, seed):
    out = hand_shapes()
    rng = random.Random(2000 + seed)
    seen = {repr(s) for s in out}
    while len(out) < N_SHAPES[tier]:
        s = gen_shape(rng)
        if repr(s) in seen:
            continue
        seen.add(repr(s))
        out.append(s)
    return out


def mk_relax(shape, idx=0):
    return RelaxHarness(shape, idx)


def jobs(tier, seed):
    js = [("mk_relax", dict(shape=s, idx=i)) for i, s in enumerate(shapes(tier, seed))]
    only = os.environ.get("VERIF_ONLY")
    if only:
        js = [j for j in js if only in repr(j) or only == f"#{j[1]['idx']}" or (only == "hand" and j[1]["idx"] < 17)]
    return js
