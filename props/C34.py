"""C34  Build runner executes dependencies once, in order, and detects loops exactly.

Real code: ppci.build.tasks  Project.add_target/get_target/dfs/check_target/dependencies,
Target.__gt__ (via list.sort), TaskRunner.run/get_task, with a recording Task registered in task_map.

Symbolic: the GRAPH.  One boolean per ordered pair (i, j) of the n targets = "target i depends on
target j" (i == j allowed: a self-dependency is a cycle) and one boolean per target = "target i is
requested" (at least one).  The harness builds a real Project with real Targets; the dependency set
of a target is materialised (`if edge_bool:` per out-edge -> fork) the first time ppci reads
`target.dependencies`, so ppci's own traversal decides which edges get inspected: one explored path =
one class of graphs the code cannot tell apart; edges the code never looks at (targets it never
reaches, everything after an early loop report) stay free and are covered by the solver when the
oracle formulas - which mention ALL edge booleans - are discharged under the path condition.

Oracle (ref/domdef.py, bounded transitive closure over the edge booleans):
  * TaskError("Dependency loop ...") is raised  <=>  some target reachable from a requested one lies on a cycle
  * otherwise every target reachable from a requested one ran exactly once, no other target ran,
    and for every dependency edge i -> j among them j ran before i.

Honest note: this is symbolic execution degenerating to solver-driven bounded-exhaustive enumeration
of labelled dependency graphs (all graphs on n targets, n <= 4 quick, n <= 5 thorough).
"""
import os
import sys
from symx.harness import Harness
from symx.core import sym_and, sym_or, sym_not, implies, is_sym
from ref import domdef

PROPERTY = "C34"
LEVEL = "model_checking"
BOUNDS = {"quick": {"targets n": "1..4", "graphs": "all labelled digraphs incl. self-dependencies (2^(n*n))",
                    "requested": "all non-empty subsets (symbolic for n<=3, one job per subset for n=4), "
                                 "requested list in index order",
                    "name sets": 1, "closure/__gt__ harness": "n<=4, graphs acyclic below target 0"},
          "thorough": {"targets n": "1..5", "graphs": "all labelled digraphs incl. self-dependencies (2^(n*n))",
                       "requested": "all non-empty subsets (symbolic for n<=3, one job per subset for n=4,5)",
                       "name sets": "2 for n<=4 (different set-iteration orders of the names), 1 for n=5",
                       "closure/__gt__ harness": "n<=5, 2 name sets"}}
OUTSIDE = ["more than 5 targets", "dependencies on undeclared targets (TaskError 'not found', a different rule)",
           "duplicate entries / other orders of the requested-target list than ascending index "
           "(covered only up to relabelling of the graph)",
           "the empty request / project.default path", "what real tasks do (a recording task is used)",
           "macro expansion of task arguments"]
ASSUMPTIONS = [
    "degenerate symbolic execution: all inputs are booleans (graph edges, requested set); exploration enumerates the "
    "graphs ppci's traversal can distinguish, the solver covers the edges it never inspects",
    "set iteration order of target names is the one of CPython with PYTHONHASHSEED=0 (set by ./check); all labelled "
    "graphs are covered, so other orders are covered up to relabelling only",
    "Target.dependencies is supplied by a harness subclass of Target: the set is built when ppci first reads it; "
    "inside Project.dfs its members are decided one by one in the iteration order of the complete set (names are "
    "chosen hash-collision free so that this order is independent of the set's contents - checked at run time), "
    "every other reader gets the complete set; the concrete re-run of every path uses plain eager sets and must "
    "give the same outcome (encoding validation)",
    "loop oracle: cycle in the sub-graph reachable from the requested targets (bounded transitive closure, "
    "ref/domdef.py, validated against DFS colouring on random graphs when written)",
]
SHIMS_USED = ["isinstance"]
JOB_TIMEOUT = {"quick": 170, "thorough": 1700}

# target names whose str hashes (PYTHONHASHSEED=0) do not collide in CPython's set tables, so a set of
# any subset iterates in one fixed global order (verified at run time by iteration_order(); if it does not
# hold, e.g. under another hash seed, the harness falls back to row-wise eager materialisation)
NAMESETS = {
    0: ["d", "compile", "f", "dist", "t0"],          # set order = index order
    1: ["link", "t5", "app", "kernel", "hex"],       # set order = 4, 1, 2, 0, 3
}


def iteration_order(names):
    """A global order of `names` such that a CPython set holding ANY subset of them iterates in that order
    (true when the names' hash slots do not collide; depends on PYTHONHASHSEED), else None.  Checked by
    building every subset - this is what makes element-wise lazy materialisation faithful."""
    order = list(set(names))
    n = len(names)
    for mask in range(1 << n):
        sub = [names[i] for i in range(n) if (mask >> i) & 1]
        if list(set(sub)) != [x for x in order if x in sub]:
            return None
        s2 = set()
        for x in reversed(sub):
            s2.add(x)
        if list(s2) != [x for x in order if x in sub]:
            return None
    return order


class LazyDeps(set):
    """A target's dependency set whose members are decided one at a time (fork on the edge boolean)
    as far as ppci's iteration over it proceeds.  Python-level iteration yields exactly the sequence a
    fully built set would yield (see iteration_order); any other access builds the whole set first.
    Used in symbolic runs only: the concrete re-run of every path uses a plain eager set, so a C-level
    read of a partially built set would show up as an encoding mismatch (exit 3)."""

    def __init__(self, cands):
        set.__init__(self)
        self._pending = list(cands)     # [(name, edge_bool)] in set-iteration order
        self._seq = []

    def _step(self):
        name, b = self._pending.pop(0)
        if b:                           # fork point
            self._seq.append(name)
            set.add(self, name)

    def _full(self):
        while self._pending:
            self._step()

    def __iter__(self):
        k = 0
        while True:
            if k < len(self._seq):
                yield self._seq[k]
                k += 1
            elif self._pending:
                self._step()
            else:
                return


def _forward(name):
    def f(self, *a, **kw):
        self._full()
        return getattr(set, name)(self, *a, **kw)
    f.__name__ = name
    return f


for _m in ("__contains__", "__len__", "__eq__", "__ne__", "__le__", "__lt__", "__ge__", "__gt__", "__and__",
           "__or__", "__sub__", "__xor__", "__rand__", "__ror__", "__rsub__", "__rxor__", "__iand__", "__ior__",
           "__isub__", "__ixor__", "__repr__", "__reduce__", "copy", "union", "intersection", "difference",
           "symmetric_difference", "issubset", "issuperset", "isdisjoint", "add", "remove", "discard", "pop",
           "clear", "update", "intersection_update", "difference_update", "symmetric_difference_update"):
    setattr(LazyDeps, _m, _forward(_m))


def _build(tasks, n, names, rows, log):
    """real Project/Targets; rows[i][j] truthy = i depends on j, decided when ppci first looks"""
    order = iteration_order(names)

    class LazyTarget(tasks.Target):
        _rows = None
        _deps = None

        @property
        def dependencies(self):
            if self._deps is None:
                row = self._rows
                if order is not None and any(is_sym(b) for b in row):
                    self._deps = LazyDeps([(x, row[names.index(x)]) for x in order])
                else:
                    self._deps = set()
                    for j, b in enumerate(row):
                        if b:                   # fork point (symbolic run) / plain bool (replay)
                            self._deps.add(names[j])
            if type(self._deps) is LazyDeps and self._deps._pending:
                # element-wise laziness only pays off in the loop detection, which stops at the first
                # offending dependency; every other reader gets the completely built set (C-level readers
                # such as set.union()/set() bypass LazyDeps.__iter__ and must never see a partial set)
                caller = sys._getframe(1).f_code
                if not (caller.co_name == "dfs" and caller.co_filename.endswith("tasks.py")):
                    self._deps._full()
            return self._deps

        @dependencies.setter
        def dependencies(self, v):              # Target.__init__ assigns set()
            pass

    class VerifRecTask(tasks.Task):
        def run(self):
            log.append(self.target.name)

    tasks.task_map["verifrec"] = VerifRecTask
    project = tasks.Project("verif")
    for i in range(n):
        t = LazyTarget(names[i], project)
        t._rows = rows[i]
        t.add_task(("verifrec", {}))
        project.add_target(t)
    return project


class BuildHarness(Harness):
    shim_modules = ()
    W = 8
    max_paths = 3000000
    max_decisions = 200
    prove_arrays = False      # pure boolean formulas: skip the per-query array-sort scan of the prover

    def __init__(self, n, nameset=0, req=None, selfdep=True):
        self.n = n
        self.selfdep = selfdep    # False: no target depends on itself (e[i][i] fixed to False)
        self.nameset = nameset
        self.req = req            # None = symbolic subset; else bit mask of requested targets
        self.name = (f"tasks.run[n={n},names={nameset},req={'sym' if req is None else req}"
                     f"{'' if selfdep else ',noselfdep'}]")
        self.params = dict(n=n, nameset=nameset, req=req, selfdep=selfdep)
        self._formulas = None

    def inputs(self, mk):
        n = self.n
        e = [[(mk.bool(f"e_{i}_{j}") if (i != j or self.selfdep) else False) for j in range(n)]
             for i in range(n)]
        if self.req is None:
            r = [mk.bool(f"r_{i}") for i in range(n)]
            mk.assume(sym_or(*r) if n > 1 else r[0])
        else:
            r = [bool((self.req >> i) & 1) for i in range(n)]
        return dict(e=e, r=r)

    def run(self, inp):
        from ppci.build import tasks
        n = self.n
        names = NAMESETS[self.nameset][:n]
        log = []
        saved = tasks.task_map.get("verifrec")
        try:
            project = _build(tasks, n, names, inp["e"], log)
            targets = [names[i] for i in range(n) if inp["r"][i]]
            tasks.TaskRunner().run(project, targets)
        finally:
            if saved is None:
                tasks.task_map.pop("verifrec", None)
            else:
                tasks.task_map["verifrec"] = saved
        return [names.index(x) for x in log]

    def _oracle(self, e, r):
        """(reachable-cycle predicate, needed[i]) as formulas over the edge/request booleans.  The formulas
        depend on the input variables only (same z3 constants on every path), so the symbolic variant is
        built once per harness; the concrete variant (replay) is evaluated on plain bools."""
        n = self.n
        symbolic = any(is_sym(x) for row in e for x in row)
        if symbolic and self._formulas is not None:
            return self._formulas
        f = (domdef.has_cycle_reachable(e, n, r), domdef.reachable_set(e, n, r))
        if symbolic:
            self._formulas = f
        return f

    def post(self, inp, out):
        n = self.n
        e, r = inp["e"], inp["r"]
        cyc, need = self._oracle(e, r)
        if not out.ok:
            loop = out.exc == "TaskError" and "loop" in str(getattr(out.exc_obj, "msg", "")).lower()
            if not loop:
                return {"no-unexpected-exception": False}
            return {"loop-reported-only-if-reachable-cycle": cyc}
        order = out.value
        once = []
        for i in range(n):
            c = order.count(i)
            once.append(need[i] if c == 1 else (sym_not(need[i]) if c == 0 else False))
        before = []
        for i in range(n):
            for j in range(n):
                if i == j:
                    continue
                ok = i in order and j in order and order.index(j) < order.index(i)
                before.append(implies(sym_and(need[i], e[i][j]), ok))
        return {
            "reachable-cycle-is-reported": sym_not(cyc),
            "each-needed-target-exactly-once": sym_and(*once) if len(once) > 1 else once[0],
            "dependencies-run-first": sym_and(*before) if len(before) > 1 else (before[0] if before else True),
        }


class ClosureHarness(Harness):
    """Project.dependencies(t) is the set of targets reachable from t by >= 1 dependency edges and
    Target.__gt__(a, b) says 'a depends (transitively) on b' - the two mechanisms the runner orders by.
    Premise (what TaskRunner.run establishes first via check_target): no cycle reachable from t."""
    shim_modules = ()
    W = 8
    max_paths = 3000000
    max_decisions = 200
    prove_arrays = False

    def __init__(self, n, nameset=0):
        self.n = n
        self.nameset = nameset
        self.name = f"tasks.dependencies[n={n},names={nameset}]"
        self.params = dict(n=n, nameset=nameset)
        self._formulas = None

    def inputs(self, mk):
        n = self.n
        e = [[mk.bool(f"e_{i}_{j}") for j in range(n)] for i in range(n)]
        root = [k == 0 for k in range(n)]
        mk.assume(sym_not(domdef.has_cycle_reachable(e, n, root)))
        return dict(e=e)

    def run(self, inp):
        from ppci.build import tasks
        n = self.n
        names = NAMESETS[self.nameset][:n]
        project = _build(tasks, n, names, inp["e"], [])
        deps = project.dependencies(names[0])
        t0 = project.get_target(names[0])
        gt = [t0 > project.get_target(names[j]) for j in range(n)]
        return [sorted(names.index(x) for x in deps), gt]

    def post(self, inp, out):
        if not out.ok:
            return {"no-exception": False}
        n = self.n
        e = inp["e"]
        symbolic = any(is_sym(x) for row in e for x in row)
        if symbolic and self._formulas is not None:
            plus = self._formulas
        else:
            plus = domdef.reach_plus(e, n)[0]
            if symbolic:
                self._formulas = plus
        deps, gt = out.value
        return {
            "dependencies-is-transitive-closure":
                sym_and(True, *[(plus[j] if j in deps else sym_not(plus[j])) for j in range(n)]),
            "gt-is-depends-on":
                sym_and(True, *[(plus[j] if gt[j] else sym_not(plus[j])) for j in range(n)]),
        }


def mk_build(n, nameset=0, req=None, selfdep=True):
    return BuildHarness(n, nameset, req, selfdep)


def mk_closure(n, nameset=0):
    return ClosureHarness(n, nameset)


def jobs(tier, seed):
    js = []
    if tier == "quick":
        for n in (1, 2, 3):
            js.append(("mk_build", dict(n=n, nameset=0, req=None)))
        for req in range(1, 16):
            js.append(("mk_build", dict(n=4, nameset=0, req=req)))
    else:
        for ns in (0, 1):
            for n in (1, 2, 3):
                js.append(("mk_build", dict(n=n, nameset=ns, req=None)))
            for req in range(1, 16):
                js.append(("mk_build", dict(n=4, nameset=ns, req=req)))
        for req in range(1, 32):
            js.append(("mk_build", dict(n=5, nameset=0, req=req, selfdep=True)))
    for ns in ((0,) if tier == "quick" else (0, 1)):
        for n in ((1, 2, 3, 4) if tier == "quick" else (1, 2, 3, 4, 5)):
            js.append(("mk_closure", dict(n=n, nameset=ns)))
    # big jobs first
    js.sort(key=lambda j: -j[1]["n"])
    only = os.environ.get("VERIF_ONLY")
    if only:
        js = [j for j in js if only in repr(j)]
    return js
