"""C34  Build runner executes dependencies once, in order, and detects loops exactly.

Real code: ppci.build.tasks  Project.add_target/get_target/dfs/check_target/dependencies,
Target.__gt__ (via list.sort), TaskRunner.run/get_task, with a recording Task registered in task_map.

Symbolic: the GRAPH.  One boolean per ordered pair (i, j) of the n targets = "target i depends on
target j" (i == j allowed: a self-dependency is a cycle) and one boolean per target = "target i is
requested" (at least one).  The harness builds a real Project with real Targets; the dependency set
of a target is materialised (`if edge_bool:` per out-edge -> fork) the first time ppci reads
`target.dependencies`, so ppci's own traversal decides which edges get inspected: one explored path =
one class of graphs the code cannot tell apart; edges the code never looks at (targets it never
reaches, everything after an early loop report) stay free and are covered by the solver when the
oracle formulas - which mention ALL edge booleans - are discharged under the path condition.

Oracle (ref/domdef.py, bounded transitive closure over the edge booleans):
  * TaskError("Dependency loop ...") is raised  <=>  some target reachable from a requested one lies on a cycle
  * otherwise every target reachable from a requested one ran exactly once, no other target ran,
    and for every dependency edge i -> j among them j ran before i.

Honest note: this is symbolic execution degenerating to solver-driven bounded-exhaustive enumeration
of labelled dependency graphs (all graphs on n targets, n <= 4 quick, n <= 5 thorough).
"""
import os
from symx.harness import Harness
from symx.core import sym_and, sym_or, sym_not, implies, is_sym
from ref import domdef

PROPERTY = "C34"
LEVEL = "model_checking"
BOUNDS = {"quick": {"targets n": "1..4", "graphs": "all labelled digraphs incl. self-dependencies (2^(n*n))",
                    "requested": "all non-empty subsets (symbolic), requested list in index order",
                    "name sets": 1},
          "thorough": {"targets n": "1..5", "graphs": "all labelled digraphs incl. self-dependencies (2^(n*n))",
                       "requested": "all non-empty subsets (symbolic for n<=4, one job per subset for n=5)",
                       "name sets": "2 for n<=4 (different str-hash iteration orders), 1 for n=5"}}
OUTSIDE = ["more than 5 targets", "dependencies on undeclared targets (TaskError 'not found', a different rule)",
           "duplicate entries / other orders of the requested-target list than ascending index "
           "(covered only up to relabelling of the graph)",
           "the empty request / project.default path", "what real tasks do (a recording task is used)"]
ASSUMPTIONS = [
    "degenerate symbolic execution: all inputs are booleans (graph edges, requested set); exploration enumerates the "
    "graphs ppci's traversal can distinguish, the solver covers the edges it never inspects",
    "set iteration order of target names is the one of CPython with PYTHONHASHSEED=0 (set by ./check); all labelled "
    "graphs are covered, so other orders are covered up to relabelling only",
    "Target.dependencies is materialised lazily by a harness subclass of Target (same set contents as "
    "add_dependency in index order); every other method is ppci's",
    "loop oracle: cycle in the sub-graph reachable from the requested targets (bounded transitive closure, ref/domdef.py)",
]
SHIMS_USED = ["isinstance"]
JOB_TIMEOUT = {"quick": 170, "thorough": 1700}

NAMESETS = {
    0: ["t0", "t1", "t2", "t3", "t4", "t5"],
    1: ["compile", "link", "all", "docs", "zz", "a"],
}


def _build(tasks, n, names, rows, log):
    """real Project/Targets; rows[i][j] truthy = i depends on j (decided lazily on first read)"""

    class LazyTarget(tasks.Target):
        _rows = None
        _deps = None

        @property
        def dependencies(self):
            if self._deps is None:
                self._deps = set()
                for j, b in enumerate(self._rows):
                    if b:                       # fork point (symbolic run) / plain bool (replay)
                        self._deps.add(names[j])
            return self._deps

        @dependencies.setter
        def dependencies(self, v):              # Target.__init__ assigns set()
            pass

    class VerifRecTask(tasks.Task):
        def run(self):
            log.append(self.target.name)

    tasks.task_map["verifrec"] = VerifRecTask
    project = tasks.Project("verif")
    for i in range(n):
        t = LazyTarget(names[i], project)
        t._rows = rows[i]
        t.add_task(("verifrec", {}))
        project.add_target(t)
    return project


class BuildHarness(Harness):
    shim_modules = ()
    W = 8
    max_paths = 3000000
    max_decisions = 200

    def __init__(self, n, nameset=0, req=None, selfdep=True):
        self.n = n
        self.selfdep = selfdep    # False: no target depends on itself (e[i][i] fixed to False)
        self.nameset = nameset
        self.req = req            # None = symbolic subset; else bit mask of requested targets
        self.name = (f"tasks.run[n={n},names={nameset},req={'sym' if req is None else req}"
                     f"{'' if selfdep else ',noselfdep'}]")
        self.params = dict(n=n, nameset=nameset, req=req, selfdep=selfdep)
        self._formulas = None

    def inputs(self, mk):
        n = self.n
        e = [[(mk.bool(f"e_{i}_{j}") if (i != j or self.selfdep) else False) for j in range(n)]
             for i in range(n)]
        if self.req is None:
            r = [mk.bool(f"r_{i}") for i in range(n)]
            mk.assume(sym_or(*r) if n > 1 else r[0])
        else:
            r = [bool((self.req >> i) & 1) for i in range(n)]
        return dict(e=e, r=r)

    def run(self, inp):
        from ppci.build import tasks
        n = self.n
        names = NAMESETS[self.nameset][:n]
        log = []
        saved = tasks.task_map.get("verifrec")
        try:
            project = _build(tasks, n, names, inp["e"], log)
            targets = [names[i] for i in range(n) if inp["r"][i]]
            tasks.TaskRunner().run(project, targets)
        finally:
            if saved is None:
                tasks.task_map.pop("verifrec", None)
            else:
                tasks.task_map["verifrec"] = saved
        return [names.index(x) for x in log]

    def _oracle(self, e, r):
        """(reachable-cycle predicate, needed[i]) as formulas over the edge/request booleans.  The formulas
        depend on the input variables only (same z3 constants on every path), so the symbolic variant is
        built once per harness; the concrete variant (replay) is evaluated on plain bools."""
        n = self.n
        symbolic = any(is_sym(x) for row in e for x in row)
        if symbolic and self._formulas is not None:
            return self._formulas
        f = (domdef.has_cycle_reachable(e, n, r), domdef.reachable_set(e, n, r))
        if symbolic:
            self._formulas = f
        return f

    def post(self, inp, out):
        n = self.n
        e, r = inp["e"], inp["r"]
        cyc, need = self._oracle(e, r)
        if not out.ok:
            loop = out.exc == "TaskError" and "loop" in str(getattr(out.exc_obj, "msg", "")).lower()
            if not loop:
                return {"no-unexpected-exception": False}
            return {"loop-reported-only-if-reachable-cycle": cyc}
        order = out.value
        once = []
        for i in range(n):
            c = order.count(i)
            once.append(need[i] if c == 1 else (sym_not(need[i]) if c == 0 else False))
        before = []
        for i in range(n):
            for j in range(n):
                if i == j:
                    continue
                ok = i in order and j in order and order.index(j) < order.index(i)
                before.append(implies(sym_and(need[i], e[i][j]), ok))
        return {
            "reachable-cycle-is-reported": sym_not(cyc),
            "each-needed-target-exactly-once": sym_and(*once) if len(once) > 1 else once[0],
            "dependencies-run-first": sym_and(*before) if len(before) > 1 else (before[0] if before else True),
        }


def mk_build(n, nameset=0, req=None, selfdep=True):
    return BuildHarness(n, nameset, req, selfdep)


def jobs(tier, seed):
    js = []
    if tier == "quick":
        for n in (1, 2, 3):
            js.append(("mk_build", dict(n=n, nameset=0, req=None)))
        for req in range(1, 16):
            js.append(("mk_build", dict(n=4, nameset=0, req=req)))
    else:
        for ns in (0, 1):
            for n in (1, 2, 3):
                js.append(("mk_build", dict(n=n, nameset=ns, req=None)))
            for req in range(1, 16):
                js.append(("mk_build", dict(n=4, nameset=ns, req=req)))
        for req in range(1, 32):
            js.append(("mk_build", dict(n=5, nameset=0, req=req, selfdep=False)))
    # big jobs first
    js.sort(key=lambda j: -j[1]["n"])
    only = os.environ.get("VERIF_ONLY")
    if only:
        js = [j for j in js if only in repr(j)]
    return js
