"""C28  Compiler front-ends fail only with diagnostics, never internal errors -- the VALUE dimension.

Claimed part: for the program-template families of C27 (constant expressions in initialisers, case
labels, enumerators, array sizes: compiled by the real ppci.lang.c.api.c_to_ir) and of C26 (`#if` /
`#elif` controlling expressions: real CPreProcessor.process_file), with every integer literal SYMBOLIC,
every explored path of the real front end must end either normally or in ppci's diagnostic exception
CompilerError.  Any other exception (struct.error, KeyError, NotImplementedError, ZeroDivisionError,
ValueError, AssertionError ...) is a violation, with the literal values as the model.

Unlike C27/C26 there is NO definedness premise here: a program whose constant expression divides by
zero or overflows is still syntactically valid C, and the property demands a diagnostic (or success),
not an internal error.  The harness classes are those of props/C27.py and props/C26.py run in mode
"c28" (same real code, same instrumentation, same uninstrumented concrete re-run of every path).
"""
import os
import random
from ref import csem
from props import C27, C26
from props.C27 import run_batch, batches

PROPERTY = "C28"
LEVEL = "model_checking"
BOUNDS = {
    "quick": {"C constant expressions": C27.BOUNDS["quick"], "#if expressions": C26.BOUNDS["quick"],
              "bit-field widths": "width = symbolic int literal (full range) for 6 storage types x {0,4} preceding bits; field loaded, stored, initialised"},
    "thorough": {"C constant expressions": C27.BOUNDS["thorough"], "#if expressions": C26.BOUNDS["thorough"],
                 "bit-field widths": "10 storage types x {0,1,4,7,9,31} preceding bits"},
}
OUTSIDE = ["the structural quantifier of the property text ('every syntactically valid input'): only the stated template "
           "families are examined, in the dimension of their integer literal values",
           "C3 and textual-IR front ends, statements/expressions evaluated at run time, optimisation levels "
           "(no symbolic value reaches an internal-error site there in these families)",
           f"shift counts built from literals larger than {C27.SHIFT_COUNT_MAX} (Python big-integer shifts of that size are not modelled)"] \
    + C27.OUTSIDE[:3]
ASSUMPTIONS = ["'compiler diagnostic' = ppci.common.CompilerError (the class every front-end error() helper raises)",
               "the template families and the literal instrumentation are those of props/C27.py and props/C26.py"]
SHIMS_USED = ["isinstance", "int", "struct", "bool", "range"]
JOB_TIMEOUT = {"quick": 600, "thorough": 1700}
TASKS_PER_CHILD = 4
RULE = C27.RULE


class CExprHarness28(C27.CExprHarness):
    mode = "c28"


class PPIfHarness28(C26.PPIfHarness):
    mode = "c28"


def mk_batch_c(specs, tag=""):
    return run_batch(CExprHarness28, PROPERTY, specs, tag)


def mk_batch_pp(specs, tag=""):
    return run_batch(PPIfHarness28, PROPERTY, specs, tag)


def select(tier, seed):
    """-> (C templates, #if templates).  The exception behaviour does not depend on how the value is observed, so the
    #if family is taken without the extra comparison observers in the quick tier."""
    c = C27.select(tier, seed)
    pp = C26.select(tier, seed)
    if tier == "quick":
        # destination type only matters for the final pack: keep two destinations per expression shape
        keep = {}
        for s in c:
            k = (s[0], repr(s[2]))
            keep.setdefault(k, [])
            if len(keep[k]) < 2:
                keep[k].append(s)
        c = [s for v in keep.values() for s in v]
        d1 = [("if", e) for e, n in C26.depth1()]
        pp = d1 + [s for s in pp if s[0] == "elif" or len(s) > 2]
    c = c + bitwidth_templates(tier)
    return c, pp


def bitwidth_templates(tier):
    """bit-field WIDTH as the symbolic constant (added after seed C28/C): storage types x bits preceding the field"""
    L0 = C27.lit(0, "")
    dests = ("int", "uint", "llong", "ullong", "char", "short") if tier == "quick" else C27.DESTS
    pres = (0, 4) if tier == "quick" else (0, 1, 4, 7, 9, 31)
    T = [(f"bitwidth{k or ''}", d, L0) for d in dests for k in pres]
    T += [("bitwidth4", "llong", ["add", L0, C27.lit(1, "")]), ("bitwidth", "uint", ["sub", L0, C27.lit(1, "")])]
    return T


def jobs(tier, seed):
    c, pp = select(tier, seed)
    only = os.environ.get("VERIF_ONLY")
    if only:
        c = [s for s in c if only in repr(s) or only in CExprHarness28(*s).name]
        pp = [s for s in pp if only in repr(s) or only in PPIfHarness28(*s).name]
    nb = 32 if tier == "quick" else 120
    js = [("mk_batch_c", dict(specs=b, tag=f"c#{i}")) for i, b in enumerate(batches(c, nb))]
    js += [("mk_batch_pp", dict(specs=b, tag=f"pp#{i}")) for i, b in enumerate(batches(pp, nb // 2, key=1))]
    return js
