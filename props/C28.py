"""C28  Compiler front-ends fail only with diagnostics, never internal errors -- the VALUE dimension.

Claimed part: for the program-template families of C27 (constant expressions in initialisers, case
labels, enumerators, array sizes: compiled by the real ppci.lang.c.api.c_to_ir) and of C26 (`#if` /
`#elif` controlling expressions: real CPreProcessor.process_file), with every integer literal SYMBOLIC,
every explored path of the real front end must end either normally or in ppci's diagnostic exception
CompilerError.  Any other exception (struct.error, KeyError, NotImplementedError, ZeroDivisionError,
ValueError, AssertionError ...) is a violation, with the literal values as the model.

Since the extension (props/_c28ext.py) the same claim is made for the C3 front end (ppci.api.c3_to_ir: lexer, parser,
type checker, constant evaluation, code generator, verifier) and the textual-IR reader (ppci.irutils.reader.read_module),
each followed by verify_module and ppci.api.optimize(level=2): template families over declaration kinds x operators x
every integer TYPE, with every integer literal symbolic; diagnostics there are TaskError / CompilerError (c3_to_ir) and
IrParseException / CompilerError (reader).

Unlike C27/C26 there is NO definedness premise here: a program whose constant expression divides by
zero or overflows is still syntactically valid C, and the property demands a diagnostic (or success),
not an internal error.  The harness classes are those of props/C27.py and props/C26.py run in mode
"c28" (same real code, same instrumentation, same uninstrumented concrete re-run of every path).
"""
import os
import random
from ref import csem
from props import C27, C26, _c28ext
from props.C27 import run_batch, batches
from props._c28ext import mk_batch_c3, mk_batch_ir, mk_batch_irhex, C3LitHarness, IrLitHarness, IrHexHarness  # noqa: F401 (job factories, replay)

PROPERTY = "C28"
LEVEL = "model_checking"
_C3_LIT = ("every integer literal 0 .. 2**64+1000 (beyond every integer type); in a template with a product / quotient / "
           "remainder of two literals both 0 .. 2**32+1000 (0 .. 2**17+1000 on the 16-bit-int targets), of compound operands "
           "(three literals) 0 .. 2**16+1000, with two of * / % (thorough) 0 .. 300; negative values arise through `L0 - L1`")
_IR_LIT = ("every number -(2**64+1000) .. 2**64+1000; both constant operands of a folded * / % : -+(2**(bits+1)+1000), "
           "at most -+(2**32+1000)")
BOUNDS = {
    "quick": {"C constant expressions": C27.BOUNDS["quick"], "#if expressions": C26.BOUNDS["quick"],
              "bit-field widths": "width = symbolic int literal (full range) for 6 storage types x {0,4} preceding bits; field loaded, stored, initialised",
              "C3 front end": {
                  "entry": "ppci.api.c3_to_ir, then ppci.api.optimize(level=2), target x86_64 (+ msp430 for 6 templates)",
                  "literal values": _C3_LIT,
                  "templates": "405: constant declarations `const T x = L0 op L1` (10 operators, T = int, byte; casts to all 10 integer "
                               "types; nested -, unary -, constants used as initialiser / return value / array size / case label); array "
                               "sizes (global for all 10 element types, local, sizeof, struct member, size expressions, initialiser "
                               "lists, 2 dimensions, typedef); array index literals (all 10 types); global initialisers of all 10 "
                               "integer types (plain, cast, difference, array element, struct field, pointer); function bodies: "
                               "parameter type x operator (10 operators for int, byte, int64_t, uint16_t; / << >> for the others) "
                               "with a literal operand, local initialisers, returns, comparisons, compound assignments, call "
                               "arguments, literal-only expressions and conditions, loops; switch on a value of each of the 10 types "
                               "with literal case labels, case-label expressions"},
              "textual IR": {
                  "entry": "ppci.irutils.reader.read_module, then verify_module and ppci.api.optimize(level=2)",
                  "numbers": _IR_LIT,
                  "templates": "234 + 6: constants of i8..u64 and ptr (returned, negated, stored); constant op constant / parameter op "
                               "constant / constant op parameter for the 10 binary operators (all for i32, u8, i64, u16; / % << >> for "
                               "the others), constant chains; casts of constants; alloc size / alignment and blob<size:alignment> types; "
                               "global / local variable size and alignment; blob parameter types; conditional jumps on two constants "
                               "(6 conditions, i32 and u8) with phi; call arguments; `literal '<hex>'` data of 0,1,2,3,4,8 hex digits "
                               "with every digit value symbolic"}},
    "thorough": {"C constant expressions": C27.BOUNDS["thorough"], "#if expressions": C26.BOUNDS["thorough"],
                 "bit-field widths": "10 storage types x {0,1,4,7,9,31} preceding bits",
                 "C3 front end": {
                     "entry": "as quick; targets x86_64, msp430 (16-bit int), or1k (big endian) for every template (one remainder shape not on msp430), arm / avr / riscv for 13 templates each",
                     "literal values": _C3_LIT,
                     "templates": "2215 (about 725 shapes x 3 targets + 39): the quick families with every operator and every integer type in "
                                  "every position, + 46 depth-2 constant expressions over + - * / % (as constant, array size and case label)"},
                 "textual IR": {
                     "entry": "as quick", "numbers": _IR_LIT,
                     "templates": "402 + 13: the quick families with every operator / condition for every integer type, all 56 constant casts; "
                                  "`literal` data of 0..12 hex digits"}},
}
OUTSIDE = ["the structural quantifier of the property text ('every syntactically valid input'): only the stated template "
           "families are examined, in the dimension of their integer literal values (and, for C3 / IR, of the integer types)",
           "C: statements/expressions evaluated at run time, optimisation levels "
           "(no symbolic value reaches an internal-error site there in the C families)",
           f"shift counts built from literals larger than {C27.SHIFT_COUNT_MAX} (Python big-integer shifts of that size are not modelled)"] \
    + C27.OUTSIDE[:3] + [
        "C3: floating-point and string literals, hexadecimal spelling (the value enters after the lexer's int()/make_num), "
        "imports between modules, the machine-code back ends (c3c beyond optimize)",
        "IR text: floating-point constants, ill-formed modules (the verifier reports those through assert by design: use before "
        "definition, missing terminator ...), non-hexadecimal characters inside literal '...', the IR writer",
        "C3: the constant-remainder templates `const int64_t x = L0 % L1` (all targets) and `const int32_t x = L0 % L1` on "
        "16-bit-int targets: a symbolic remainder followed by the two's-complement wrap of the cast leaves path feasibility "
        "undecided by both solvers (int8_t/int16_t/int/byte/uint* and int32_t on 32/64-bit targets are run)",
        "optimisation passes beyond ppci.api.optimize(level=2)'s fixed pass list (level 0/1/s run a subset / the same list)"]
ASSUMPTIONS = ["'compiler diagnostic' = ppci.common.CompilerError (the class every front-end error() helper raises); for "
               "c3_to_ir also ppci.build.tasks.TaskError (the documented way it reports every CompilerError), for the IR "
               "reader also ppci.irutils.reader.IrParseException (raised by its error() helper)",
               "the template families and the literal instrumentation are those of props/C27.py and props/C26.py; C3: the "
               "symbolic value replaces the token value where Parser.parse_primary_expression builds ast.Literal; IR text: "
               "where Reader.parse_integer / parse_number hand out the INT token value; the uninstrumented concrete re-run "
               "of every path validates this",
               "symbolic C3 / IR runs: identity-hashed IR objects get per-run sequence numbers as hash values (deterministic "
               "set order for path re-execution), plain int values of ir.Const / BlobDataTyp keys are wrapped as constant "
               "proxies so that dict look-ups against symbolic keys compare by value; `type(x)` of a proxy is int / bool"]
SHIMS_USED = ["isinstance", "int", "struct", "bool", "range"]
JOB_TIMEOUT = {"quick": 600, "thorough": 1700}
TASKS_PER_CHILD = 4
RULE = C27.RULE


class CExprHarness28(C27.CExprHarness):
    mode = "c28"


class PPIfHarness28(C26.PPIfHarness):
    mode = "c28"


def mk_batch_c(specs, tag=""):
    return run_batch(CExprHarness28, PROPERTY, specs, tag)


def mk_batch_pp(specs, tag=""):
    return run_batch(PPIfHarness28, PROPERTY, specs, tag)


def select(tier, seed):
    """-> (C templates, #if templates).  The exception behaviour does not depend on how the value is observed, so the
    #if family is taken without the extra comparison observers in the quick tier."""
    c = C27.select(tier, seed)
    pp = C26.select(tier, seed)
    if tier == "quick":
        # destination type only matters for the final pack: keep two destinations per expression shape
        keep = {}
        for s in c:
            k = (s[0], repr(s[2]))
            keep.setdefault(k, [])
            if len(keep[k]) < 2:
                keep[k].append(s)
        c = [s for v in keep.values() for s in v]
        d1 = [("if", e) for e, n in C26.depth1()]
        pp = d1 + [s for s in pp if s[0] == "elif" or len(s) > 2]
    c = c + bitwidth_templates(tier)
    return c, pp


def bitwidth_templates(tier):
    """bit-field WIDTH as the symbolic constant (added after seed C28/C): storage types x bits preceding the field"""
    L0 = C27.lit(0, "")
    dests = ("int", "uint", "llong", "ullong", "char", "short") if tier == "quick" else C27.DESTS
    pres = (0, 4) if tier == "quick" else (0, 1, 4, 7, 9, 31)
    T = [(f"bitwidth{k or ''}", d, L0) for d in dests for k in pres]
    T += [("bitwidth4", "llong", ["add", L0, C27.lit(1, "")]), ("bitwidth", "uint", ["sub", L0, C27.lit(1, "")])]
    return T


def jobs(tier, seed):
    c, pp = select(tier, seed)
    only = os.environ.get("VERIF_ONLY")
    if only:
        c = [s for s in c if only in repr(s) or only in CExprHarness28(*s).name]
        pp = [s for s in pp if only in repr(s) or only in PPIfHarness28(*s).name]
    nb = 32 if tier == "quick" else 120
    js = [("mk_batch_c", dict(specs=b, tag=f"c#{i}")) for i, b in enumerate(batches(c, nb))]
    js += [("mk_batch_pp", dict(specs=b, tag=f"pp#{i}")) for i, b in enumerate(batches(pp, nb // 2, key=1))]
    js += _c28ext.ext_jobs(tier, seed)
    return js
