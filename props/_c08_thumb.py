"""C08 for the ARM Thumb instruction set of ppci (get_arch('arm:thumb'): ppci/arch/arm/thumb_instructions.py +
thumb_relocations.py); reference decoder ref/thumbdec.py (ARM ARM DDI 0403 / 0406, 16-bit Thumb + BL / B.W / B<c>.W /
SDIV).  Loaded by props/C08.py (FACTORIES are injected there, jobs() is appended, the *_NOTE texts go to the evidence).

Every instruction class registered in the thumb ISA object that has a syntax and tokens is instantiated with symbolic
operands, the real encode() (+ the real relocation class for label operands) runs on them and the emitted bytes are
decoded by ref/thumbdec.py.  Operand kinds (by the class's real syntax):
    l  LowArmRegister operand, r  ArmRegister operand: a register object with symbolic number 0..15, of the class the
       real register file gives that number (r0-r7 LowArmRegister, r8-r15 ArmRegister)
    i  int, symbolic, wider than any field
    s  label: the class's real relocation is applied with symbolic symbol address S = P + off and instruction address P
    L  register set: a set of N register objects with symbolic numbers (every list of <= N registers)
"""
import importlib
import os
import z3
from symx.harness import Harness
from symx import core
from symx.core import sym_and, implies
from symx.seq import SymByteArray
from ref import thumbdec
from props._arm import le, in_range, bv32

ARCH = "arm:thumb"
MOD = "ppci.arch.arm.thumb_instructions"
M32 = (1 << 32) - 1
FACTORIES = ["mk_thumb_enc", "mk_thumb_selftest"]


def _s(base, pos, fixed=None, imm=None, label=None):
    return dict(base=base, pos=pos, fixed=fixed or {}, imm=imm, label=label)


# shape of the printed syntax (mnemonic, then the operand pattern with every operand replaced by its kind letter and
# blanks removed) -> the manual instruction (entry of ref/thumbdec.py) this text denotes
#   pos[k]  = decoded field that must equal the k-th printed operand
#   fixed   = decoded fields with a fixed value (condition of b<c>)
#   imm     = documented range (lo, hi, multiple-of) of the integer operand / of the encoded label offset
#   label   = "pc": offset relative to PC = P + 4;  "align": relative to Align(PC, 4)  (ADR, LDR literal)
U8 = (0, 255, 1)
SPEC = {
    "nop": _s("nop", ()),
    "yield": _s("yield", ()),
    "str l,[l,i]": _s("str_imm", ("rt", "rn", "imm"), imm=(0, 124, 4)),
    "ldr l,[l,i]": _s("ldr_imm", ("rt", "rn", "imm"), imm=(0, 124, 4)),
    "strb l,[l,i]": _s("strb_imm", ("rt", "rn", "imm"), imm=(0, 31, 1)),
    "ldrb l,[l,i]": _s("ldrb_imm", ("rt", "rn", "imm"), imm=(0, 31, 1)),
    "strh l,[l,i]": _s("strh_imm", ("rt", "rn", "imm"), imm=(0, 62, 2)),
    "ldrh l,[l,i]": _s("ldrh_imm", ("rt", "rn", "imm"), imm=(0, 62, 2)),
    "ldr l,[sp,i]": _s("ldr_sp", ("rt", "imm"), imm=(0, 1020, 4)),
    "str l,[sp,i]": _s("str_sp", ("rt", "imm"), imm=(0, 1020, 4)),
    "ldr l,s": _s("ldr_lit", ("rt", "imm"), imm=(0, 1020, 4), label="align"),
    "adr l,s": _s("adr", ("rd", "imm"), imm=(0, 1020, 4), label="align"),
    "mov l,i": _s("mov_imm", ("rd", "imm"), imm=U8),
    "cmp l,i": _s("cmp_imm", ("rn", "imm"), imm=U8),
    "add l,l,i": _s("add_imm3", ("rd", "rn", "imm"), imm=(0, 7, 1)),
    "sub l,l,i": _s("sub_imm3", ("rd", "rn", "imm"), imm=(0, 7, 1)),
    "add l,l,l": _s("add_reg", ("rd", "rn", "rm")),
    "sub l,l,l": _s("sub_reg", ("rd", "rn", "rm")),
    "mov r,r": _s("mov_reg", ("rd", "rm")),
    "mul l,l": _s("mul", ("rdm", "rn")),             # MUL Rd, Rm (pre-UAL) = MULS Rdm, Rn, Rdm: destination first
    "sdiv r,r,r": _s("sdiv", ("rd", "rn", "rm")),
    "cmp l,l": _s("cmp_reg", ("rn", "rm")),
    "rsb l,l": _s("rsb_imm0", ("rd", "rn")),         # NEG Rd, Rm = RSBS Rd, Rm, #0
    "b s": _s("b", ("imm",), imm=(-2048, 2046, 2), label="pc"),
    "bw s": _s("b_w", ("imm",), imm=(-(1 << 24), (1 << 24) - 2, 2), label="pc"),
    "bl s": _s("bl", ("imm",), imm=(-(1 << 24), (1 << 24) - 2, 2), label="pc"),
    "blx r": _s("blx_reg", ("rm",)),
    "bx r": _s("bx", ("rm",)),
    "push L": _s("push", ("list",)),
    "pop L": _s("pop", ("list",)),
    "add sp,sp,i": _s("add_sp_imm7", ("imm",), imm=(0, 508, 4)),
    "sub sp,sp,i": _s("sub_sp_imm7", ("imm",), imm=(0, 508, 4)),
    "bkpt i": _s("bkpt", ("imm",), imm=U8),
}
for _n in ("and", "orr", "eor", "lsl", "lsr", "asr", "adc", "sbc", "ror", "bic"):
    SPEC[_n + " l,l"] = _s(_n + "_reg", ("rdn", "rm"))
for _k, _c in list(enumerate(thumbdec.COND_NAMES[:14])) + [(v, k) for k, v in thumbdec.COND_ALIASES.items()]:
    SPEC[f"b{_c} s"] = _s("b_cond", ("imm",), dict(cond=_k), imm=(-256, 254, 2), label="pc")
    SPEC[f"b{_c}w s"] = _s("b_cond_w", ("imm",), dict(cond=_k), imm=(-(1 << 20), (1 << 20) - 2, 2), label="pc")
NBYTES = {n: nb for (n, nb, *_r) in thumbdec.T}


def shape_of(cls):
    """(shape string, kinds) of a class's real syntax"""
    from ppci.arch.arm.registers import ArmRegister, LowArmRegister
    fargs = list(cls.syntax.formal_arguments)
    out, ks = [], ""
    for e in cls.syntax.syntax:
        if isinstance(e, str):
            out.append(e)
            continue
        c = e._cls
        if c is int:
            k = "i"
        elif c is str:
            k = "s"
        elif c is LowArmRegister:
            k = "l"
        elif c is ArmRegister:
            k = "r"
        elif c is set:
            k = "L"
        else:
            k = "?"
        ks += k
        out.append("\0" + k)
    # mnemonic = leading string elements up to the first blank / operand
    mn = ""
    j = 0
    while j < len(out) and not out[j].startswith("\0") and not out[j].isspace():
        mn += out[j]
        j += 1
    rest = "".join(x.replace("\0", "") for x in out[j:] if not x.isspace())
    assert len(ks) == len(fargs)
    return (mn + " " + rest).strip(), ks


def discover():
    """-> (claimed [(idx, class name, shape, kinds)], unclaimed [(class name, why)])"""
    from ppci.api import get_arch
    claimed, unclaimed = [], []
    arch = get_arch(ARCH)
    for idx, cls in enumerate(arch.isa.instructions):
        if cls.__module__ != MOD:
            if getattr(cls, "syntax", None) and not cls.__module__.endswith("data_instructions"):
                unclaimed.append((cls.__name__, f"class of module {cls.__module__} in the thumb ISA object"))
            continue        # data directives (db, dw, dd ...) of data_isa
        if not getattr(cls, "syntax", None):
            continue        # abstract bases
        shape, ks = shape_of(cls)
        if not hasattr(cls, "tokens"):
            unclaimed.append((cls.__name__, "no encoding"))
        elif "?" in ks:
            unclaimed.append((cls.__name__, f"operand type of '{shape}' not modelled"))
        elif shape not in SPEC:
            unclaimed.append((cls.__name__, f"no manual instruction stated for syntax '{shape}'"))
        else:
            claimed.append((idx, cls.__name__, shape, ks))
    return claimed, unclaimed


class _ListedSet(set):
    """a set of register objects that iterates in insertion order: the iteration order of a plain set of objects hashed by
    identity changes from run to run, and the engine re-runs run() per path (every order of every register list is still
    covered: the numbers of all elements are symbolic)"""

    def __init__(self, items):
        items = list(items)
        super().__init__(items)
        self._order = items

    def __iter__(self):
        return iter(self._order)


class ThumbEncodeHarness(Harness):
    """thumb: real encode() (+ real relocation) on symbolic operands, bytes decoded by ref/thumbdec.py"""
    W = 72
    max_paths = 6000
    IMM_BOUND = 1 << 33

    def __init__(self, idx, cls, shape, ks, wide=0, nlist=3):
        self.idx, self.cls, self.shape, self.ks = idx, cls, shape, ks
        self.spec = SPEC[shape]
        self.wide = wide            # thorough tier: immediates up to 2**48, label distance 16 x the documented reach
        self.NLIST = nlist
        self.params = dict(idx=idx, cls=cls, shape=shape, ks=ks, wide=wide, nlist=nlist)
        mn = shape.split(" ")[0]
        self.name = f"thumb.encode[arm:thumb:{cls}#{idx}:{mn}" + (f":{nlist}regs" if "L" in ks else "") + "]"
        if wide:
            self.IMM_BOUND = 1 << 48
            self.W = 96

    def modules(self):
        names = ["ppci.utils.bitfun", "ppci.arch.token", "ppci.arch.encoding", "ppci.arch.isa", "ppci.arch.registers",
                 "ppci.arch.arm.thumb_instructions", "ppci.arch.arm.isa", "ppci.arch.arm.registers",
                 "ppci.arch.arm.thumb_relocations"]
        return [importlib.import_module(n) for n in names]

    def the_class(self):
        from ppci.api import get_arch
        cls = get_arch(ARCH).isa.instructions[self.idx]
        assert cls.__name__ == self.cls, "instruction table changed under the job list"
        return cls

    # -- inputs
    def inputs(self, mk):
        d = {}
        for k, kd in enumerate(self.ks):
            if kd in "lr":
                d[f"r{k}"] = mk.int(f"r{k}", 0, 15)
            elif kd == "i":
                d[f"i{k}"] = mk.int(f"i{k}", -self.IMM_BOUND, self.IMM_BOUND)
            elif kd == "L":
                for j in range(self.NLIST):
                    d[f"l{j}"] = mk.int(f"l{j}", 0, 15)
            elif kd == "s":
                lo, hi, mult = self.spec["imm"]
                if hi < 4096:
                    lo, hi = min(lo, -4096), 4096
                f = 16 if self.wide else 2
                # distance S - P beyond the documented reach; P: address of the instruction (halfword aligned)
                d["off"] = mk.int("off", f * lo, f * hi + 8)
                d["P"] = mk.int("P", 0, (1 << 32) - 2)
                mk.assume(d["P"] % 2 == 0)
                mk.assume(d["P"] + d["off"] >= 0)
                mk.assume(d["P"] + d["off"] < (1 << 32))
        return d

    # -- the real code
    def run(self, i):
        """-> ("ok", [bytes], [printed operand values]) | ("rejected", exc name)
        printed: one int per operand; a register set prints as its bit mask, a label as S - P"""
        from ppci.arch.arm.registers import ArmRegister, LowArmRegister
        cls = self.the_class()

        def reg(name, n):
            # the class the real register file gives this number (forks: low / high)
            return LowArmRegister(name, num=n) if n < 8 else ArmRegister(name, num=n)
        args, printed = [], []
        try:
            for k, kd in enumerate(self.ks):
                if kd in "lr":
                    args.append(reg(f"r{k}", i[f"r{k}"]))
                    printed.append(i[f"r{k}"])
                elif kd == "i":
                    args.append(i[f"i{k}"])
                    printed.append(i[f"i{k}"])
                elif kd == "L":
                    regs = [reg(f"l{j}", i[f"l{j}"]) for j in range(self.NLIST)]
                    args.append(_ListedSet(regs))
                    m = 0
                    for j in range(self.NLIST):
                        m = m | (1 << i[f"l{j}"])
                    printed.append(m)
                else:
                    args.append("lbl")
                    printed.append(i["off"])
            ins = cls(*args)
        except (TypeError, AssertionError) as e:       # operand of the wrong register class: constructor refuses
            return ("rejected", type(e).__name__)
        # what Syntax.render reads: the operand attributes after construction
        for k, a in enumerate(cls.syntax.formal_arguments):
            v = getattr(ins, a._name)
            if self.ks[k] in "lr":
                printed[k] = v.num
            elif self.ks[k] == "i":
                printed[k] = v
        try:
            data = ins.encode()
            rels = ins.relocations()
            if self.spec["label"] is not None:
                assert len(rels) == 1, "one relocation expected for a label operand"
                r = rels[0]
                size = r.size()
                part = list(data[r.offset:r.offset + size])
                buf = bytearray(part) if core.ENG is None else SymByteArray(part)
                new = r.apply(i["P"] + i["off"], buf, i["P"] + r.offset)
                data = list(data[:r.offset]) + list(new) + list(data[r.offset + size:])
            else:
                assert not rels, "relocation on an instruction without label operand"
        except Exception as e:      # noqa: any error = operand combination rejected
            return ("rejected", type(e).__name__)
        return ("ok", list(data), printed)

    # -- what the manual says the printed text means
    def label_offset(self, i, off):
        """the offset the manual encodes for a label at S = P + off: relative to PC = P + 4 (ADR / LDR literal: Align(PC, 4))"""
        if self.spec["label"] == "align":
            pc = i["P"] + 4
            return i["P"] + off - (pc - pc % 4)
        return off - 4

    def imm_premise(self, i, printed):
        """documented ranges of the integer / label operands (outside: C10 decides whether encode must reject)"""
        cs = []
        for k, kd in enumerate(self.ks):
            if kd == "i" and self.spec["imm"]:
                cs.append(in_range(printed[k], self.spec["imm"]))
            elif kd == "s":
                cs.append(in_range(self.label_offset(i, printed[k]), self.spec["imm"]))
        return sym_and(*cs) if cs else True

    def decode_matches(self, i, data, printed):
        """-> (mnemonic matches, operands match)"""
        base = self.spec["base"]
        if len(data) != NBYTES[base]:
            return False, False
        w = le(data)
        conc = type(w) is int
        d = thumbdec.decode(w if conc else core.to_bv(w, 32), len(data))
        m = d.is_(base)
        if m is False:
            return False, False
        f = d.fields(base)

        def eq(fv, pv):
            if conc:
                return (fv & M32) == (pv & M32)
            return fv == bv32(pv)
        cs = []
        for k, fld in enumerate(self.spec["pos"]):
            pv = printed[k]
            if self.ks[k] == "s":
                pv = self.label_offset(i, pv)
            cs.append(eq(f[fld], pv))
        for fld, v in self.spec["fixed"].items():
            cs.append(eq(f[fld], v))
        if conc:
            return bool(m), all(cs)
        wrap = lambda b: core.SymBool(b) if z3.is_expr(b) else bool(b)      # noqa
        return wrap(m), wrap(z3.And(*cs) if cs else z3.BoolVal(True))

    def post(self, i, out):
        if not out.ok:
            return {"harness-ran": False}
        r = out.value
        if r[0] == "rejected":
            return {"rejected": True}
        _, data, printed = r
        prem = self.imm_premise(i, printed)
        m, ops = self.decode_matches(i, data, printed)
        return {"decodes-to-printed-mnemonic": implies(prem, m),
                "decodes-to-printed-operands": implies(prem, sym_and(m, ops))}


def mk_thumb_enc(**kw):
    return ThumbEncodeHarness(**kw)


def mk_thumb_selftest(seed=0):
    """concrete validation of ref/thumbdec.py (table is a function, toolchain encodings, repo test vectors, int vs z3
    back end) + the list of unclaimed classes (evidence)"""
    import time
    t0 = time.time()
    res = dict(harness="thumb.selftest", violations=[], known_hits=[], inconclusive=[], errors=[], funcs=[],
               samples=[], stats=dict(paths=1, decisions=0, feas_queries=0, cut_paths=0, solver_s=0.0),
               obligations=1, discharged=0, validated=0, reached=1, twin_violated=1, exhaustive=True, nontrivial=1)
    try:
        repo = os.environ.get("PPCI_REPO", "/repo")
        st = thumbdec.selftest(os.path.join(repo, "test", "arch", "test_thumbasm.py"), seed=seed)
        claimed, unclaimed = discover()
        assert claimed, "no thumb instruction class discovered"
        res["discharged"] = 1
        res["samples"] = [dict(harness="thumb.selftest", selftest=st, claimed_classes=len(claimed),
                               unclaimed_classes=[list(u) for u in unclaimed])]
    except AssertionError as e:
        res["errors"].append(dict(kind="reference-selftest-failed", harness="thumb.selftest", error=repr(e)[:500]))
    res["wall_s"] = time.time() - t0
    return res


NLIST = {"quick": (1, 4), "thorough": (1, 9)}


def jobs(tier, seed):
    js = [("mk_thumb_selftest", dict(seed=int(seed)))]
    claimed, unclaimed = discover()
    for (idx, cls, shape, ks) in claimed:
        for nl in (NLIST[tier] if "L" in ks else (0,)):
            js.append(("mk_thumb_enc", dict(idx=idx, cls=cls, shape=shape, ks=ks, wide=int(tier == "thorough"), nlist=nl)))
    return js


BOUNDS_NOTE = ("thumb (harnesses thumb.encode[...], decoder ref/thumbdec.py): every instruction class of ppci.arch.arm.thumb_instructions "
               "registered in get_arch('arm:thumb').isa with syntax + tokens (54 classes: str/ldr/strb/ldrb/strh/ldrh rt,[rn,imm]; ldr/str "
               "rt,[sp,imm]; ldr rt,label; adr; mov/cmp rd,imm8; add/sub rd,rn,imm3; add/sub rd,rn,rm; mov rd,rm (all registers); mul; sdiv; "
               "and/orr/eor/cmp/lsl/lsr/asr/rsb rdn,rm; b, bw, bl, blx rm, 6 b<c>, 10 b<c>w; push/pop; add/sub sp,sp,imm7; bkpt; yield; nop). "
               "Register operands: a register object with symbolic number 0..15 of the class the real register file gives that number "
               "(r0-r7 LowArmRegister, r8-r15 ArmRegister; a high register in a low-register operand is refused by the constructor), all "
               "operands symbolic at once; immediates [-2**33, 2**33] (thorough 2**48), obligation stated for the documented range "
               "(imm5*4 0..124, imm5*2 0..62, imm5 0..31, imm8*4 0..1020, imm8 0..255, imm3 0..7, imm7*4 0..508); label operands: the class's real "
               "relocation (lit8, wrap_new11, rel8, bl_imm11, b_imm11_imm6) applied at every halfword-aligned instruction address P < 2**32 "
               "with symbolic distance S - P of twice (thorough: 16 times) the documented reach, at least +-4096 (b +-2 KiB, b<c> +-256 B, "
               "b<c>w +-1 MiB, bl / bw +-16 MiB, adr / ldr literal 0..1020 from Align(PC, 4)); push / pop: sets of 1 and 4 (thorough: 1 and 9) "
               "register objects with symbolic numbers 0..15 (every list of that many registers, numbers may coincide)")
OUTSIDE_NOTE = ["thumb: immediates / label distances outside the manual's documented range or alignment (whether encode() / the relocation "
                "must reject them is C10: known findings C10-thumb-scaled-imm, C10-reloc-thumb-*), e.g. `ldr r0, [r1, 1]`, `mov r0, -1`, "
                "`add sp, sp, -4`",
                "thumb: operand combinations the manual calls UNPREDICTABLE (blx pc, sdiv with sp / pc, mov pc, ..., an empty push / pop list): "
                "decoded like a disassembler does; whether encode() should refuse them is not judged",
                "thumb: the flag-setting behaviour implied by the mnemonic (ppci prints the pre-UAL spellings mov/add/sub/and/orr/eor/lsl/lsr/"
                "rsb/mul for the 16-bit encodings that UAL writes MOVS/ADDS/... outside an IT block); IT blocks; the instruction selector "
                "patterns of thumb_instructions.py (which instruction is chosen is C05, not C08); 32-bit Thumb-2 encodings ppci has no class for"]
ASSUMPTIONS_NOTE = ["ref/thumbdec.py states the ARM ARM (DDI 0403E A5.2 / A5.3 / A7.7, the same encodings as DDI 0406C A6 / A8.8) correctly for the "
                    "16-bit Thumb instruction set and BL, B.W (T4), B<c>.W (T3), SDIV, UDIV, MUL.W (self-tested per run: every one of the 65536 "
                    "halfwords matches at most one 16-bit entry and none of them lies in the 32-bit prefix space, the 32-bit entries are pairwise "
                    "exclusive (solver), 126 known toolchain encodings on the integer and the z3 back end, integer vs z3 back end on 800 random "
                    "words x every entry, 31 vectors / 78 instructions of the repo's test_thumbasm.py decoded and compared with their assembly text)",
                    "thumb spellings: ppci's two-operand `and/orr/eor/lsl/lsr/asr rdn, rm` are the manual's 16-bit <op>S Rdn, Rm; `rsb rd, rm` = "
                    "RSBS Rd, Rm, #0 (NEG); `mul a, b` = MUL Rd, Rm with the destination FIRST (MULS Rdm, Rn, Rdm); `bw` = B.W (T4), `b<c>w` = "
                    "B<c>.W (T3), `b<c>` = B<c> (T1), `b` = B (T2); `ldr rt, label` = LDR (literal), `add/sub sp, sp, imm` = ADD/SUB (SP plus/minus "
                    "immediate) T2/T1; the printed offsets are byte offsets as in ARM assembly (not raw field values); a label operand denotes the "
                    "address S, encoded relative to PC = P + 4 (ADR / LDR literal: Align(PC, 4))",
                    "thumb: a register set passed to push / pop iterates in insertion order in the harness (a plain set of objects hashed by identity "
                    "iterates in a run-dependent order; all orders are covered because every element's number is symbolic)"]
