"""C11  Linked references resolve exactly to their symbols.

The REAL linker (ppci.binutils.linker.link: merge_objects, inject_object, layout_sections,
do_relocations/_do_relocation, ObjectFile.get_symbol_id_value) is run on an object that contains one
relocated instruction (base encoding produced by the real instruction class, discovered in
props/_reloc.py) and a target symbol, under a Layout whose memory base addresses are SYMBOLIC, as are
the symbol's offset in its section and (where the relocation type honours it) the addend.
Post, per relocation type (oracle: ref/relocspec.py, written from the ISA manuals):
  link raised an error, or
    * the output symbol table gives the symbol its section's final address + offset,
    * the relocated field, decoded per its type, designates exactly S + A (or S + A - P),
    * no bit outside the field changed, bytes before/after the instruction are untouched.
RISC-V %hi/%lo pairs are additionally checked jointly ((hi << 12) + sext(lo) == target).
"""
import os
from symx.harness import Harness
from symx import core
from symx.core import sym_and, sym_or, sym_not, ite
from symx.seq import SymByteArray
from props import _reloc
from ref import relocspec as RS

PROPERTY = "C11"
LEVEL = "model_checking"
BOUNDS = {"quick": {"memory bases": "every 4-aligned 32-bit address (x86_64: 47-bit; avr, msp430, mcs6500: 16-bit)",
                    "symbol offset": "[0, 2**20) ([0, 2**12) for the 16-bit ISAs), aligned as the ISA requires",
                    "addend": "+-2**31 where the relocation type honours it, else the addend the real encoder emits",
                    "placements": ["target in another memory (symbolic distance)", "target in the same section"],
                    "archs": ["riscv", "riscv:rvc", "arm", "arm:thumb", "x86_64", "avr", "msp430", "mcs6500", "or1k", "mips",
                              "microblaze", "xtensa", "m68k"]},
          "thorough": "same (the quick tier is already exhaustive over its stated space); plus 16-byte-aligned sections and a second input object"}
OUTSIDE = ["relocation types without an entry in ref/relocspec.py (generic little-endian data words absaddr16/32/64 on the big-endian ISAs or1k, microblaze, m68k)",
           "ISAs without relocation types (stm8)",
           "non-zero addends for relocation types whose class ignores the addend (ppci's encoders never emit one)",
           "relaxable relocation types cb_imm11/cbl_imm11 (decided under C13)", "whole-program shapes (several objects/sections): placement is C12's subject"]
ASSUMPTIONS = ["base encoding of the relocated instruction = what the real instruction class emits for a label operand",
               "memory bases are multiples of 4 and the sections' alignment is 4, so the oracle placement is base + offset (checked against the linker's own symbol table, not assumed)",
               "relocation types whose target is computed modulo 2**32 (spec key wrap: mips abs26, microblaze 64_PCREL, xtensa call0/ri16, m68k branch_rel32): S and P are assumed to lie in the 32-bit address space",
               "any exception counts as 'the link fails'"]
SHIMS_USED = ["isinstance", "int", "range", "bytes", "bytearray", "struct", "bool", "min", "max"]

RELAXABLE = {"cb_imm11", "cbl_imm11"}   # shrinkable jumps: the section is rewritten by relaxation (C13)
PAD = 4     # bytes before the instruction in the code section
TAIL = 4    # bytes after it


class LinkRelocHarness(Harness):
    max_paths = 400

    def __init__(self, arch, ins, base, reloc, off, addend, placement):
        self.arch = arch
        self.ins = ins
        self.base = bytes.fromhex(base)
        self.reloc = reloc
        self.off = off
        self.addend = addend
        self.placement = placement
        self.spec = RS.SPEC[(arch, reloc)]
        self.name = f"link.reloc[{arch}:{reloc}@{ins}/{placement}]"
        self.params = dict(arch=arch, ins=ins, base=base, reloc=reloc, off=off, addend=addend, placement=placement)
        self.abits = 47 if arch == "x86_64" else min(32, _reloc.ADDR_BITS[arch])
        # symbol offset range / memory sizes: 2**20 for 32-bit address spaces, 2**12 for the 16-bit ISAs
        self.sobits = 20 if self.abits >= 32 else 12
        self.endian = self.spec.get("endian", "little")
        self.W = max(self.abits + 40, 8 * self.spec["size"] + 8)
        self.shim_modules = tuple(_reloc._arch_modules(arch)) + ("ppci.binutils.linker", "ppci.binutils.objectfile",
                                                                   "ppci.binutils.layout")

    def inputs(self, mk):
        ab = self.abits
        cb = mk.int("code_base", 0, (1 << ab) - 4)
        mk.assume(cb % 4 == 0)
        so = mk.int("symoff", 0, (1 << self.sobits) - 1)
        if self.placement == "other":
            db = mk.int("data_base", 0, (1 << ab) - 4)
            mk.assume(db % 4 == 0)
            # memories must not overlap (code is 64 bytes, data claims 2**sobits + 64)
            mk.assume(sym_or(db >= cb + 64, db + (1 << self.sobits) + 64 <= cb))
            S = db + so
        else:
            db = cb
            S = cb + so
        if (self.arch, self.reloc) in RS.USES_ADDEND:
            A = mk.int("A", -(1 << 31), (1 << 31) - 1)
        else:
            A = self.addend
        P = cb + PAD + self.off
        mk.assume(self.spec["pre"](S, P))
        if self.spec.get("wrap"):
            # displacement as wide as the address space: both addresses lie inside that space
            mk.assume(sym_and(S < (1 << self.spec["wrap"]), P < (1 << self.spec["wrap"])))
        return dict(code_base=cb, data_base=db, symoff=so, S=S, P=P, A=A,
                    fill=[mk.int(f"fill{k}", 0, 255) for k in range(PAD + TAIL)])

    def run(self, i):
        from ppci.api import get_arch
        from ppci.binutils import objectfile as of, linker as lk, layout as lay
        arch = get_arch(self.arch)
        obj = of.ObjectFile(arch)
        fill = i["fill"]
        content = list(fill[:PAD]) + list(self.base) + list(fill[PAD:])
        code = obj.get_section("code", create=True)
        code.alignment = 4
        code.add_data(SymByteArray(content) if core.ENG is not None else bytearray(content))
        if self.placement == "other":
            data = obj.get_section("data", create=True)
            data.alignment = 4
            data.add_data(bytes(16))
            obj.add_symbol(0, "target", "global", i["symoff"], "data", "object", 0)
        else:
            obj.add_symbol(0, "target", "global", i["symoff"], "code", "func", 0)
        obj.add_relocation(of.RelocationEntry(self.reloc, 0, "code", PAD + self.off, i["A"]))
        layout = lay.Layout()
        m1 = lay.Memory("flash")
        m1.location = i["code_base"]
        m1.size = 1 << (self.sobits + 1)
        m1.add_input(lay.Section("code"))
        layout.add_memory(m1)
        if self.placement == "other":
            m2 = lay.Memory("ram")
            m2.location = i["data_base"]
            m2.size = 1 << (self.sobits + 1)
            m2.add_input(lay.Section("data"))
            layout.add_memory(m2)
        out = lk.link([obj], layout=layout)
        oc = out.get_section("code")
        tsec = out.get_section("data" if self.placement == "other" else "code")
        return dict(code=list(oc.data), code_addr=oc.address, sym=out.get_symbol_value("target"),
                    tsec_addr=tsec.address)

    def post(self, i, out):
        if not out.ok:
            return {"error-or-exact": True}
        sp = self.spec
        v = out.value
        n = sp["size"]
        code = v["code"]
        if len(code) != PAD + len(self.base) + TAIL:
            return {"section-length-preserved": False}
        lo = PAD + self.off
        w = RS.word(code[lo:lo + n], self.endian)
        w0 = RS.word(list(self.base[self.off:self.off + n]), self.endian)
        S, P, A = i["S"], i["P"], i["A"]
        want = RS.expected(sp, S, A, P)
        got = sp["decode"](w, P)
        keep = ((1 << (8 * n)) - 1) ^ sp["mask"]
        orig = list(i["fill"][:PAD]) + list(self.base) + list(i["fill"][PAD:])
        rest = [code[k] == orig[k] for k in range(len(code)) if not (lo <= k < lo + n)]
        return {"symbol-value-is-section-address-plus-offset": sym_and(v["sym"] == S, v["code_addr"] == i["code_base"],
                                                                        v["tsec_addr"] == i["data_base"]),
                "field-designates-target": got == want,
                "other-bits-unchanged": (w & keep) == (w0 & keep),
                "other-bytes-unchanged": sym_and(*rest)}


class HiLoPairHarness(Harness):
    """RISC-V lui/auipc + addi pairs: (hi << 12) + sext(lo) must equal the target (absolute or pc-relative)"""
    max_paths = 400

    def __init__(self, arch, kind):
        self.arch = arch
        self.kind = kind     # "abs32" or "rel"
        self.name = f"link.hilo[{arch}:{kind}]"
        self.params = dict(arch=arch, kind=kind)
        self.W = 80
        self.shim_modules = tuple(_reloc._arch_modules(arch)) + ("ppci.binutils.linker", "ppci.binutils.objectfile",
                                                                   "ppci.binutils.layout")

    def inputs(self, mk):
        cb = mk.int("code_base", 0, (1 << 32) - 4)
        db = mk.int("data_base", 0, (1 << 32) - 4)
        so = mk.int("symoff", 0, (1 << 20) - 2)
        mk.assume(sym_and(cb % 4 == 0, db % 4 == 0, so % 2 == 0))
        mk.assume(sym_or(db >= cb + 64, db + (1 << 20) + 64 <= cb))
        return dict(code_base=cb, data_base=db, symoff=so, S=db + so, P=cb)

    def run(self, i):
        from ppci.api import get_arch
        from ppci.binutils import objectfile as of, linker as lk, layout as lay
        arch = get_arch(self.arch)
        hi, lo = ("abs32_imm20", "abs32_imm12") if self.kind == "abs32" else ("rel_imm20", "rel_imm12")
        obj = of.ObjectFile(arch)
        # lui/auipc x5, 0 ; addi x5, x5, 0
        first = 0x000002B7 if self.kind == "abs32" else 0x00000297
        second = 0x00028293
        content = list(first.to_bytes(4, "little")) + list(second.to_bytes(4, "little"))
        code = obj.get_section("code", create=True)
        code.alignment = 4
        code.add_data(SymByteArray(content) if core.ENG is not None else bytearray(content))
        data = obj.get_section("data", create=True)
        data.alignment = 4
        data.add_data(bytes(16))
        obj.add_symbol(0, "target", "global", i["symoff"], "data", "object", 0)
        obj.add_relocation(of.RelocationEntry(hi, 0, "code", 0, 0))
        obj.add_relocation(of.RelocationEntry(lo, 0, "code", 4, 0))
        layout = lay.Layout()
        for nm, sec, loc in (("flash", "code", i["code_base"]), ("ram", "data", i["data_base"])):
            m = lay.Memory(nm)
            m.location = loc
            m.size = 1 << 21
            m.add_input(lay.Section(sec))
            layout.add_memory(m)
        out = lk.link([obj], layout=layout)
        return list(out.get_section("code").data)

    def post(self, i, out):
        if not out.ok:
            return {"error-or-exact": True}
        code = out.value
        w1 = RS.le(code[0:4])
        w2 = RS.le(code[4:8])
        hi = RS.bits(w1, 31, 12)
        lo = RS.sext(RS.bits(w2, 31, 20), 12)
        val = ((hi << 12) + lo) & 0xFFFFFFFF
        if self.kind == "abs32":
            want = i["S"] & 0xFFFFFFFF
        else:
            want = (i["S"] - i["P"]) & 0xFFFFFFFF
        return {"hi-lo-pair-designates-target": val == want,
                "opcodes-unchanged": sym_and((w1 & 0xFFF) == (0x2B7 if self.kind == "abs32" else 0x297),
                                             (w2 & 0xFFFFF) == 0x28293)}


def mk_link(**kw):
    return LinkRelocHarness(**kw)


def mk_hilo(**kw):
    return HiLoPairHarness(**kw)


def jobs(tier, seed):
    js = []
    for a in _reloc.ARCHS:
        seen = set()
        for s in _reloc.sites(a):
            # one instruction class per relocation type in quick (all classes emitting it in thorough;
            # for the ISAs in _reloc.NEW_ARCHS also every addressing mode / field offset)
            key = s["reloc"]
            if key in RELAXABLE:
                continue
            if tier == "quick" and key in seen:
                continue
            seen.add(key)
            for pl in ("other", "same"):
                js.append(("mk_link", dict(placement=pl, **s)))
    for a in ("riscv", "riscv:rvc"):
        for k in ("abs32", "rel"):
            js.append(("mk_hilo", dict(arch=a, kind=k)))
    only = os.environ.get("VERIF_ONLY")
    if only:
        js = [j for j in js if only in repr(j)]
    return js
