"""C39  Bit-manipulation helpers compute their mathematical definitions.

Real code: ppci.utils.bitfun.{rotl,rotr,rotate_left,rotate_right,reverse_bits,sign_extend,
to_signed,to_unsigned,correct,clz,ctz,popcnt,encode_imm32} and the integer wrappers of
ppci.wasm.execution.runtime, executed on symbolic values (full width) and symbolic rotation
counts; the bit width is a loop bound of the real code and is enumerated concretely.
"""
import os
from symx.harness import Harness
from symx import core
from symx.core import sym_and, sym_or, sym_not, implies, ite
from ref import bits as R

PROPERTY = "C39"
LEVEL = "model_checking"
QUICK_BITS = [1, 7, 8, 12, 16, 31, 32, 33, 64]
THOROUGH_BITS = list(range(1, 65))
BOUNDS = {
    "quick": {"bits": QUICK_BITS, "value": "every value of the stated width (unsigned, and signed where the wasm runtime passes signed)",
              "rotation_count": "[-2*bits-1, 2*bits+1]", "popcnt": "path-per-bit loop: widths <= 12 on the raw helper, 32/64 through if-converted source"},
    "thorough": {"bits": "1..64", "value": "every value of the stated width", "rotation_count": "[-2*bits-1, 2*bits+1]"},
}
OUTSIDE = ["bit widths above 64", "floating-point runtime helpers of ppci.wasm.execution.runtime",
           "BitView / wrap_negative / inrange (range checking: decided under C10)"]
ASSUMPTIONS = ["reference definitions in /verif/ref/bits.py (z3 built-in rotate/extract for the solver, textbook per-bit loops for the concrete replay)",
               "encode_imm32 domain: 0 <= v < 2**32 (what the ARM instruction classes pass)"]
SHIMS_USED = ["isinstance", "range", "int"]


class BitfunHarness(Harness):
    shim_modules = ("ppci.utils.bitfun",)
    max_paths = 20000

    def __init__(self, fn, bits):
        self.fn = fn
        self.bits = bits
        self.name = f"bitfun.{fn}[{bits}]"
        self.params = dict(fn=fn, bits=bits)
        self.W = 3 * bits + 16 if bits > 16 else 96

    def inputs(self, mk):
        b = self.bits
        fn = self.fn
        d = {}
        if fn in ("rotl", "rotr"):
            d["v"] = mk.int("v", 0, (1 << b) - 1)
            d["count"] = mk.int("count", -2 * b - 1, 2 * b + 1)
        elif fn in ("to_signed", "to_unsigned"):
            d["v"] = mk.int("v", -(1 << (b + 4)), (1 << (b + 4)))
        elif fn in ("clz", "ctz", "popcnt", "sign_extend"):
            d["v"] = mk.int("v", -(1 << (b - 1)) if b > 1 else -1, (1 << b) - 1)
        elif fn == "reverse_bits":
            d["v"] = mk.int("v", 0, (1 << b) - 1)
        else:
            raise ValueError(fn)
        return d

    def run(self, i):
        from ppci.utils import bitfun
        f = getattr(bitfun, self.fn)
        if self.fn in ("rotl", "rotr"):
            return f(i["v"], i["count"], self.bits)
        return f(i["v"], self.bits)

    def post(self, i, out):
        b = self.bits
        fn = self.fn
        if not out.ok:
            return {"no-exception": False}
        r = out.value
        v = i["v"]
        if fn == "rotl":
            return r == R.rotl(v, i["count"], b)
        if fn == "rotr":
            return r == R.rotr(v, i["count"], b)
        if fn == "to_signed":
            return r == R.signed(v, b)
        if fn == "to_unsigned":
            return r == R.unsigned(v, b)
        if fn == "sign_extend":
            return r == R.signed(v, b)
        if fn == "clz":
            return r == R.clz(v, b)
        if fn == "ctz":
            return r == R.ctz(v, b)
        if fn == "popcnt":
            return r == R.popcount(v, b)
        if fn == "reverse_bits":
            return r == R.reverse(v, b)
        raise ValueError(fn)


class Rot32Harness(Harness):
    """rotate_left / rotate_right (fixed 32 bit ARM helpers)"""
    shim_modules = ("ppci.utils.bitfun",)
    W = 128

    def __init__(self, fn):
        self.fn = fn
        self.name = f"bitfun.{fn}"
        self.params = dict(fn=fn)

    def inputs(self, mk):
        hi = 31 if self.fn == "rotate_left" else 32
        return dict(v=mk.int("v", 0, (1 << 32) - 1), n=mk.int("n", 0, hi))

    def run(self, i):
        from ppci.utils import bitfun
        return getattr(bitfun, self.fn)(i["v"], i["n"])

    def post(self, i, out):
        if not out.ok:
            return False
        ref = R.rotl if self.fn == "rotate_left" else R.rotr
        return out.value == ref(i["v"], i["n"], 32)


class EncodeImm32Harness(Harness):
    shim_modules = ("ppci.utils.bitfun",)
    W = 128
    name = "bitfun.encode_imm32"

    def __init__(self):
        self.params = {}

    def inputs(self, mk):
        return dict(v=mk.int("v", 0, (1 << 32) - 1))

    def run(self, i):
        from ppci.utils import bitfun
        return bitfun.encode_imm32(i["v"])

    def post(self, i, out):
        v = i["v"]
        rep = R.arm_imm_representable(v)
        if out.ok:
            x = out.value
            return {"accepted-only-if-representable": rep,
                    "field-fits-12-bits": sym_and(x >= 0, x < 4096),
                    "decodes-to-value": R.arm_imm_decode(x) == v}
        return {"rejected-only-if-not-representable": sym_and(out.exc == "ValueError", sym_not(rep))}


class WasmRtHarness(Harness):
    """integer wrappers of ppci.wasm.execution.runtime (signed i32/i64 in, signed out)"""
    shim_modules = ("ppci.utils.bitfun", "ppci.wasm.execution.runtime")

    def __init__(self, fn):
        self.fn = fn
        self.name = f"wasm.runtime.{fn}"
        self.params = dict(fn=fn)
        self.bits = 32 if fn.startswith("i32") else 64
        self.W = 3 * self.bits + 16

    def inputs(self, mk):
        b = self.bits
        d = dict(v=mk.int("v", -(1 << (b - 1)), (1 << (b - 1)) - 1))
        if "rot" in self.fn:
            d["cnt"] = mk.int("cnt", -(1 << (b - 1)), (1 << (b - 1)) - 1)
        return d

    def run(self, i):
        from ppci.wasm.execution import runtime
        f = getattr(runtime, self.fn)
        if "rot" in self.fn:
            return f(i["v"], i["cnt"])
        return f(i["v"])

    def post(self, i, out):
        if not out.ok:
            return False
        b = self.bits
        v = i["v"]
        r = out.value
        op = self.fn.split("_", 1)[1]
        if op == "rotl":
            return r == R.signed(R.rotl(R.unsigned(v, b), i["cnt"], b), b)
        if op == "rotr":
            return r == R.signed(R.rotr(R.unsigned(v, b), i["cnt"], b), b)
        if op == "clz":
            return r == R.clz(v, b)
        if op == "ctz":
            return r == R.ctz(v, b)
        if op == "popcnt":
            return r == R.popcount(v, b)
        if op.startswith("extend"):
            k = int(op[6:].split("_")[0])
            return r == R.signed(v, k)
        raise ValueError(op)


class PopcntIfConvHarness(BitfunHarness):
    """popcnt forks once per bit (2**bits paths); for wide words the real source is if-converted
    (pure conditional increments become ite) so that one path covers all values."""

    def __init__(self, bits):
        BitfunHarness.__init__(self, "popcnt", bits)
        self.name = f"bitfun.popcnt[ifconv,{bits}]"

    def modules(self):
        mods = Harness.modules(self)
        from symx import ifconv
        import ppci.utils.bitfun as bf
        self._orig = bf.popcnt
        self._conv = ifconv.convert(bf.popcnt)
        return mods

    def run(self, i):
        if core.ENG is None:
            return self._orig(i["v"], self.bits)     # concrete validation: untouched real function
        return self._conv(i["v"], self.bits)


def mk_bitfun(fn, bits):
    return BitfunHarness(fn, bits)


def mk_rot32(fn):
    return Rot32Harness(fn)


def mk_imm32():
    return EncodeImm32Harness()


def mk_wasm(fn):
    return WasmRtHarness(fn)


def mk_popcnt_ifconv(bits):
    return PopcntIfConvHarness(bits)


def jobs(tier, seed):
    bl = QUICK_BITS if tier == "quick" else THOROUGH_BITS
    js = []
    for fn in ("rotl", "rotr", "to_signed", "to_unsigned", "sign_extend", "clz", "ctz", "reverse_bits"):
        for b in bl:
            js.append(("mk_bitfun", dict(fn=fn, bits=b)))
    for b in bl:
        if b <= (10 if tier == "quick" else 12):
            js.append(("mk_bitfun", dict(fn="popcnt", bits=b)))
        js.append(("mk_popcnt_ifconv", dict(bits=b)))
    js.append(("mk_rot32", dict(fn="rotate_left")))
    js.append(("mk_rot32", dict(fn="rotate_right")))
    js.append(("mk_imm32", {}))
    for p in ("i32", "i64"):
        for op in ("rotl", "rotr", "clz", "ctz"):
            js.append(("mk_wasm", dict(fn=f"{p}_{op}")))
    for fn in ("i32_extend8_s", "i32_extend16_s", "i64_extend8_s", "i64_extend16_s", "i64_extend32_s"):
        js.append(("mk_wasm", dict(fn=fn)))
    only = os.environ.get("VERIF_ONLY")
    if only:
        js = [j for j in js if only in repr(j)]
    return js
