"""C19  S-record output decodes to the object's code.

Real code (ppci/format/srecord.py): write_srecord, SRecord.__init__ / to_line
(+ ppci.utils.bitfun.value_to_bytes_big_endian, ppci.utils.chunk.chunks, ObjectFile.get_section).

Symbolic: the code bytes (all of them up to 2000 bytes; the sizes around 4 KiB / 64 KiB have symbolic
windows - first/last records and the records around offset 65536 - and a fixed byte pattern elsewhere:
a fully symbolic 64 KiB image needs > 12 GB).  Concrete: the code size (enumerated family).
The object is a real ppci ObjectFile whose "code" section sits at address 0 (Section default).

Oracle: ref/srec.py (reader written from the S-record format description).
  records-wellformed             every line: 'S', known type, hex digits, count and checksum correct
  file-structure                 header first (if any), one termination record, last, matching the data type
  loaded-image-contains-code     loading the data records (S1/S2/S3) in order leaves code[k] at address k
  data-records-carry-only-code   data records write nothing outside 0..len(code)-1 and no address twice
                                 (so header text can only live in an S0 record)
"""
import os
from symx.harness import Harness
from symx import core, seq, hexlemma
from symx.core import sym_and, sym_or, sym_not, ite

PROPERTY = "C19"
LEVEL = "model_checking"
BOUNDS = {
    "quick": {"code sizes": "0,1,2,3,29,30,31,59,60,61,90,91,255,256 (all bytes symbolic); "
                            "65535, 65536, 65537..65567 (every residue of the record length after the S1/S2 switch), 65600 (symbolic windows of 64 bytes at the start, "
                            "around offset 65536 and at the end; fixed pattern elsewhere)"},
    "thorough": {"code sizes": "0..124, 255, 256, 257, 1000, 2000 (all bytes symbolic); 4095, 4096, 65505..65598 (every size around the S1/S2 switch), "
                               "65600, 70000 (symbolic windows of 512 bytes at the start, around offset "
                               "65536 and at the end; fixed pattern elsewhere)"},
}
OUTSIDE = ["code of 16 MiB and more (S3 records)", "a code section placed at a non-zero address "
           "(write_srecord writes section offsets; Section.address is 0 unless a layout was applied)",
           "reading S-records (ppci has no reader)"]
ASSUMPTIONS = ["S-record format as in the M68000 programmer's reference manual appendix C / srec(5) (ref/srec.py)",
               "a file object is modelled by a sink keeping the written text (print -> write)",
               "f-strings / print carry symbolic characters through real str objects as opaque placeholders "
               "(symx.seq.placeholders_begin); write_srecord only concatenates and prints that text"]
SHIMS_USED = ["isinstance", "bytes", "int", "hex", "format", "range"]
JOB_TIMEOUT = {"quick": 900, "thorough": 3000}   # generous: the machine is shared


class Sink:
    """what print(..., file=f) needs; keeps the text (placeholders mapped back to symbolic characters)"""

    def __init__(self):
        self.cps = []

    def write(self, s):
        s = seq.resolve_str(s)
        self.cps.extend(s.cps if isinstance(s, seq.SymStr) else [ord(c) for c in s])
        return len(s)

    def flush(self):
        pass

    def lines(self):
        out, cur = [], []
        for c in self.cps:
            if type(c) is int and c == 10:
                out.append(seq.SymStr.make(cur))
                cur = []
            else:
                cur.append(c)
        if cur:
            out.append(seq.SymStr.make(cur))
        return out


def _pattern(k):
    return (k * 167 + 13) & 0xFF


class WriteSrec(Harness):
    shim_modules = ("ppci.format.srecord",)
    W = 32
    max_paths = 200
    timeout_ms = 120000
    prove_timeout_ms = 600000

    def __init__(self, size, window=0):
        self.size = size
        self.window = window
        self.name = f"srecord.write[size={size}" + (f";window={window}]" if window else "]")
        self.params = dict(size=size, window=window)

    def symbolic_offsets(self):
        n, w = self.size, self.window
        if not w:
            return None
        s = set(range(0, min(w, n)))
        s |= set(range(max(0, n - w), n))
        s |= set(k for k in range(65536 - w, 65536 + w) if 0 <= k < n)
        return s

    def inputs(self, mk):
        if mk.symbolic:
            seq.placeholders_begin()
            core.INVERT_AS_NEG = True     # ~x encoded as -x-1: checksum identities cancel syntactically
        sym = self.symbolic_offsets()
        vals = []
        for k in range(self.size):
            if sym is None or k in sym:
                vals.append(mk.int(f"c[{k}]", 0, 255))
            else:
                vals.append(_pattern(k))
        return dict(code=seq.SymBytes.make(vals))

    def run(self, i):
        from ppci.format.srecord import write_srecord
        from ppci.binutils.objectfile import ObjectFile
        obj = ObjectFile(None)
        section = obj.get_section("code", create=True)
        section.data = i["code"]      # bytes instead of bytearray: write_srecord only reads and slices it
        f = Sink()
        write_srecord(obj, f)
        return f.lines()

    def post(self, i, out):
        from ref import srec
        if not out.ok:
            return {"no-exception": False}
        code = list(i["code"])
        n = len(code)
        dec = srec.decode(out.value, hexlemma.canon)
        res = {"records-wellformed": dec["records_ok"],
               "file-structure": dec["structure_ok"]}
        mem, twice = srec.load(dec["data"])
        if all(k in mem for k in range(n)):
            eqs = [mem[k] == code[k] for k in range(n)]
            res["loaded-image-contains-code"] = sym_and(*eqs) if eqs else True
        else:
            res["loaded-image-contains-code"] = False
        res["data-records-carry-only-code"] = (not twice) and all(0 <= a < n for a in mem)
        return res


def mk_w(size, window=0):
    return WriteSrec(size, window)


def _sizes(tier):
    if tier == "quick":
        return [(n, 0) for n in (0, 1, 2, 3, 29, 30, 31, 59, 60, 61, 90, 91, 255, 256)] + \
               [(n, 64) for n in (65535, 65536, 65600)] + \
               [(65536 + k, 64) for k in range(1, 32)]      # every residue of the 30-byte record length past the S1/S2 switch
    return [(n, 0) for n in list(range(0, 125)) + [255, 256, 257, 1000, 2000]] + \
           [(n, 512) for n in (4095, 4096, 65600, 70000)] + [(65536 + k, 512) for k in range(-31, 63)]


def jobs(tier, seed):
    from ref import srec
    srec.selftest()          # the reference reader agrees with the published example records
    js = [("mk_w", dict(size=n, window=w)) for n, w in _sizes(tier)]
    js.sort(key=lambda j: -j[1]["size"])
    only = os.environ.get("VERIF_ONLY")
    if only:
        js = [j for j in js if only in repr(j)]
    return js
