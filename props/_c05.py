"""C05 plumbing: build a linked RISC-V image with the REAL ppci pipeline (concretely), execute the LINKED
BYTES on the manual-derived RV32IMC model (ref/rv32.py) from the entry of a function with symbolic
argument registers / memory, next to the reference semantics (ref/irsem.py) of the IR that was compiled.

Nothing here knows what ppci's code generator emits: the emulator fetches bytes from the linked image,
decodes them with rv32.decode and applies rv32.SEM; the calling convention (argument / result locations,
callee-saved registers) is read from the real architecture object.
"""
import io
import logging
import z3
from symx import core
from ref import rv32, irsem, irsem_u
from props import _tv

CODE_BASE = 0x10000          # linked image: section code
DATA_BASE = 0x1000           # section data (globals + literal pools); irsem's buffers live at 0x4000.., its allocas at 0x8000..
DATA_SIZE = 0x3000
SP0 = 0x7FF00                # initial stack pointer (16-byte aligned), far away from every visible region
SENTINEL = 0xDEAD0000        # return address of the outermost call
CALLER_FRAME = 32            # bytes at SP0.. that belong to the caller (stack arguments live here) and must survive
CALLER_AREA = 0x8000         # no store may go to [SP0, SP0 + CALLER_AREA) except into incoming stack-argument slots
M32 = 0xFFFFFFFF
MAX_EXT = _tv.MAX_EXT


class MachineFault(Exception):
    """the linked code did something no RV32IMC program of the family may do (illegal word, fetch outside
    the image, jump to an address that is not decidable)"""


# ---------------------------------------------------------------------------------------------
# build: real ppci, concretely
class Built:
    pass


_CACHE = {}


def arch_for(rvc, march="riscv"):
    from ppci.api import get_arch
    if march == "arm":
        return get_arch("arm")
    return get_arch("riscv:rvc" if rvc else "riscv")


STUB = {"riscv": "jalr x0, x1, 0", "arm": "mov pc, lr"}


def make_module(src, kind, arch, level):
    """(front end) + optimizer; deterministic, so calling it twice gives two identical modules"""
    from ppci import api
    if kind == "c":
        m = api.c_to_ir(io.StringIO(src), arch)
    else:
        from ppci.irutils import read_module
        m = read_module(io.StringIO(src))
        for f in m.functions:
            for blk in f:
                for ins in blk:
                    if type(ins).__name__ == "Unop" and ins.name.startswith("inv_"):
                        ins.operation = "~"
    if level != "0":
        api.optimize(m, level=level)
    return m


def module_text(m):
    from ppci.irutils import Writer
    f = io.StringIO()
    Writer(f).write(m)
    return f.getvalue()


def build(key, src, kind, entry, externs, level, rvc, march="riscv"):
    """-> Built (status 'ok' | 'no-code' with the back-end exception).  Cached per process."""
    ck = (key, level, rvc, march)
    if ck in _CACHE:
        return _CACHE[ck]
    from ppci import api
    from ppci.binutils.layout import Layout, Memory, Section
    b = Built()
    b.status, b.error = "ok", ""
    logging.disable(logging.WARNING)
    try:
        arch = arch_for(rvc, march)
        b.arch = arch
        b.march = march
        b.module = m_cg = make_module(src, kind, arch, level)
        before = module_text(m_cg)
        try:
            obj = api.ir_to_object([m_cg], arch, opt="size" if level == "s" else "speed")
            objs = [obj]
            if externs:
                stub = "section code\n" + "".join(f"global {e}\n{e}:\n{STUB[march]}\n" for e in externs)
                objs.append(api.asm(io.StringIO(stub), arch))
            rt = None
            if march == "arm":
                rt = arch.get_runtime()                # ppci's own helper routines for this target (__sdiv)
                objs.append(rt)
            lay = Layout()
            mc = Memory("flash")
            mc.location, mc.size = CODE_BASE, 0x10000
            mc.add_input(Section("code"))
            lay.add_memory(mc)
            md = Memory("ram")
            md.location, md.size = DATA_BASE, DATA_SIZE
            md.add_input(Section("data"))
            lay.add_memory(md)
            out = api.link(objs, layout=lay)
        except Exception as e:  # noqa: any back-end / linker exception = no code for this program
            b.status = "no-code"
            b.error = f"{type(e).__name__}: {str(e)[:160]}"
            _CACHE[ck] = b
            return b
        # the reference reads this very module afterwards: the back end must not have changed it
        if module_text(m_cg) != before:
            raise RuntimeError("harness: the back end modified the IR module it compiled")
        img = {}
        b.sections = {}
        for s in out.sections:
            b.sections[s.name] = (s.address, len(s.data))
            for i, byte in enumerate(s.data):
                img[s.address + i] = byte
        b.image = img
        b.sym = {n: out.get_symbol_value(n) for n, s in out.symbol_map.items() if s.defined}
        b.entry = b.sym[entry]
        b.helper_lo = b.helper_hi = 0
        if march == "arm":     # address range of the runtime routines (linked last)
            names = [n for n, sy in rt.symbol_map.items() if sy.defined and n in b.sym]
            if names:
                b.helper_lo = min(b.sym[n] for n in names)
                b.helper_hi = b.sections["code"][0] + b.sections["code"][1]
        f = _tv.find_function(b.module, entry)
        b.func = f
        b.arg_locs = arch.determine_arg_locations([p.ty for p in f.arguments])
        b.rv_reg = None
        if type(f).__name__ == "Function":
            b.rv_reg = arch.determine_rv_location(f.return_ty).num
        b.sp = {"riscv": 2, "arm": 13}[march]
        b.lr = {"riscv": 1, "arm": 14}[march]
        b.callee_save = sorted({r.num for r in arch.callee_save} | {arch.fp.num, b.sp})
        if hasattr(arch, "caller_save"):
            b.caller_save = sorted(r.num for r in arch.caller_save)
        else:   # every allocatable register that the callee need not preserve
            alloc = {r.num for rc in arch.info.register_classes for r in rc.registers if hasattr(r, "num")}
            b.caller_save = sorted(alloc - set(b.callee_save))
        b.stubs = {}
        for e in getattr(b.module, "externals", []):
            if e.name in b.sym and type(e).__name__ in ("ExternalFunction", "ExternalProcedure"):
                locs = arch.determine_arg_locations(list(e.argument_types))
                rv = arch.determine_rv_location(e.return_ty).num if type(e).__name__ == "ExternalFunction" else None
                b.stubs[b.sym[e.name]] = (e, locs, rv)
        b.layout = {v.name: b.sym[v.name] for v in b.module.variables}
    finally:
        logging.disable(logging.NOTSET)
    _CACHE[ck] = b
    return b


# ---------------------------------------------------------------------------------------------
# memories (interface of rv32: load_byte / store_byte)
class PyMem:
    def __init__(self, init, junk):
        self.d = dict(init)
        self.junk = junk
        self.ops = rv32.PYOPS

    def load_byte(self, addr):
        return self.d.get(addr & M32, self.junk)

    def store_byte(self, addr, b, en=True):
        if en:
            self.d[addr & M32] = b & 0xFF
        return self


class Z3Mem:
    """z3 Array (address -> byte) plus a cache of the bytes at concrete addresses; a store through a
    symbolic address invalidates the cache.  One instance per path (paths are re-executed, never forked
    in flight), so updates are done in place."""

    def __init__(self, init, junk8):
        self.ops = rv32.Z3OPS
        arr = z3.K(z3.BitVecSort(32), junk8)
        self.conc = {}
        for a, v in init.items():
            t = v if z3.is_expr(v) else z3.BitVecVal(v, 8)
            arr = z3.Store(arr, z3.BitVecVal(a, 32), t)
            self.conc[a] = t
        self.arr = arr
        self.junk8 = junk8
        self.clean = True        # no symbolic-address store so far: unknown concrete addresses hold junk

    def load_byte(self, addr):
        a = z3.simplify(addr)
        if z3.is_bv_value(a):
            k = a.as_long()
            t = self.conc.get(k)
            if t is None:
                t = self.junk8 if self.clean else z3.simplify(z3.Select(self.arr, a))
                self.conc[k] = t
            return t
        return z3.Select(self.arr, a)

    def whole(self, addr, n):
        """the 32-bit term v if the n bytes at concrete address addr are exactly Extract(8i+7, 8i, v), i < n
        (what a store of v's low n bytes left there); else None.  Lets a load hand back the stored term itself
        instead of a byte-wise reassembly that the simplifier may or may not recognise as the same value."""
        v = None
        for i in range(n):
            b = self.conc.get((addr + i) & M32)
            if b is None or not z3.is_app_of(b, z3.Z3_OP_EXTRACT) or b.params() != [8 * i + 7, 8 * i]:
                return None
            if v is None:
                v = b.arg(0)
            elif not v.eq(b.arg(0)):
                return None
        return v if v is not None and v.size() == 32 else None

    def store_byte(self, addr, b, en=True):
        assert en is True
        a = z3.simplify(addr)
        self.arr = z3.Store(self.arr, a, b)
        if z3.is_bv_value(a):
            self.conc[a.as_long()] = b
        else:
            self.conc = {}
            self.clean = False
        return self


# ---------------------------------------------------------------------------------------------
_DEC = {}
DIVOPS = {"div", "divu", "rem", "remu"}
LOADS = {"lb": (1, True), "lh": (2, True), "lw": (4, True), "lbu": (1, False), "lhu": (2, False)}
MEMOPS = {"lb", "lh", "lw", "lbu", "lhu", "sb", "sh", "sw"}


def decode_word(word, ilen):
    k = (word, ilen)
    if k not in _DEC:
        d = rv32.decode(word, ilen)
        mn = d.mnemonic
        _DEC[k] = None if mn is None else (mn,) + tuple(d.expansion(mn))
    return _DEC[k]


def fetch(img, pc):
    if pc not in img or pc + 1 not in img:
        raise MachineFault(f"instruction fetch outside the linked image at {pc:#x}")
    lo = img[pc] | (img[pc + 1] << 8)
    if lo & 3 != 3:
        return lo, 2
    if pc + 3 not in img:
        raise MachineFault(f"instruction fetch outside the linked image at {pc:#x}")
    return lo | (img[pc + 2] << 16) | (img[pc + 3] << 24), 4


def next_pc(o, t):
    """concrete next pc; a symbolic one forks through the engine"""
    if not o.sym:
        return t
    t = z3.simplify(t)
    if z3.is_bv_value(t):
        return t.as_long()
    if z3.is_app_of(t, z3.Z3_OP_ITE) and z3.is_bv_value(t.arg(1)) and z3.is_bv_value(t.arg(2)):
        return t.arg(1).as_long() if irsem._decide(t.arg(0)) else t.arg(2).as_long()
    if core.ENG is None:
        raise MachineFault("undecidable jump target")
    try:
        return core.ENG.choose(core.from_bv(t, signed=False))
    except core.SymbolicEscape:
        raise MachineFault("jump to an address that the inputs can set to more than 8 values")


def reg_width_value(o, v, n, signed=None):
    """low n bits of a 32-bit machine value, as a value of width n (z3) / int"""
    if n == 32:
        return v
    if o.sym:
        return z3.Extract(n - 1, 0, v)
    return v & ((1 << n) - 1)


def above_sp0(o, a, allowed):
    """condition 'byte address a lies in the caller's stack area [SP0, SP0 + CALLER_AREA)' (minus the incoming
    stack-argument slots, which belong to the callee); None if certainly not"""
    if not o.sym:
        a &= M32
        return True if (SP0 <= a < SP0 + CALLER_AREA and a not in allowed) else None
    c = z3.And(z3.UGE(a, z3.BitVecVal(SP0, 32)), z3.ULT(a, z3.BitVecVal(SP0 + CALLER_AREA, 32)),
               *[a != z3.BitVecVal(k, 32) for k in sorted(allowed)])
    c = z3.simplify(c)
    return None if z3.is_false(c) else c


def emulate(b, o, x, mem, on_ext, max_steps, wild=None, allowed=()):
    """run from b.entry until pc == SENTINEL.  x: list of 32 register values (domain o), mem: memory.
    on_ext(stub, x, mem) handles a call that reached an external symbol.  wild: list collecting the
    conditions under which a store hit the caller's stack area.  Returns (x, mem, steps)."""
    pc = b.entry
    steps = 0
    img = b.image
    while pc != SENTINEL:
        if pc in b.stubs:
            on_ext(b.stubs[pc], x, mem)
            pc = next_pc(o, o.band(x[1], o.val(0xFFFFFFFE)))
            continue
        steps += 1
        if steps > max_steps:
            raise core.PathCut("machine step bound")
        word, ilen = fetch(img, pc)
        d = decode_word(word, ilen)
        if d is None:
            raise MachineFault(f"illegal / unmodelled instruction word {word:#x} at {pc:#x}")
        mn, base, rd, rs1, rs2, imm = d
        if o.sym and base in MEMOPS and rs1:
            x[rs1] = irsem_u.concretise(x[rs1])          # few feasible addresses: one path each
        st = rv32.State(o, x, o.val(pc), mem)
        e = rv32.SEM[base](o, st, rd, rs1, rs2, imm, ilen)
        if e.system:
            raise MachineFault(f"system instruction {mn} at {pc:#x}")
        if e.wr and rd:
            val = e.val
            if o.sym and base in LOADS:
                n, signed = LOADS[base]
                a = z3.simplify(x[rs1] + imm)
                w = mem.whole(a.as_long(), n) if z3.is_bv_value(a) else None
                if w is not None:        # same value as e.val, in the form it was stored
                    val = w if n == 4 else (z3.SignExt if signed else z3.ZeroExt)(32 - 8 * n, z3.Extract(8 * n - 1, 0, w))
            if o.sym and base in DIVOPS:
                # the special cases of division (divisor 0, overflow) are cases of the manual's definition: take them as
                # branches under the path condition instead of carrying an if-then-else term around
                val = z3.simplify(val)
                while z3.is_app_of(val, z3.Z3_OP_ITE):
                    val = val.arg(1) if irsem._decide(val.arg(0)) else val.arg(2)
            x[rd] = z3.simplify(val) if o.sym else val
        for (a, v) in e.stores:
            if wild is not None:
                c = above_sp0(o, a, allowed)
                if c is not None:
                    wild.append(c)
            mem = mem.store_byte(a, v)
        pc = (pc + ilen) & M32 if e.npc is None else next_pc(o, e.npc)
    return x, mem, steps
