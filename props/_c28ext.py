"""C28 extension: the C3 front end and the textual-IR reader -- the VALUE dimension of their integer literals.

Same technique as props/C27.py / props/C28.py for the C front end:
  * a program TEMPLATE is an enumerated shape (text with numbered literal holes @0@, @1@ ...); the families below
    enumerate declaration kinds x operators x integer TYPES x uses;
  * every hole is a SYMBOLIC integer over a wide range.  For the symbolic run the hole is printed as a distinct
    concrete placeholder numeral and mapped back to the symbolic value at the single spot where the real front end
    turns the NUMBER token into a value:
        C3      : ppci.lang.c3.astnodes.Literal.__init__  (called by Parser.parse_primary_expression on the token value)
        IR text : Reader.parse_integer / Reader.parse_number (the consumers of the INT token value)
    everything downstream is the real code on proxies;
  * on every explored path the run is repeated CONCRETELY with no instrumentation (the model's values printed into the
    text, the unmodified entry point called) and must agree (encoding validation);
  * obligation per path: the run ends normally, or in the front end's diagnostic exception
        C3      : ppci.api.c3_to_ir -> TaskError (how c3_to_ir reports every CompilerError/SemanticError), CompilerError
        IR text : ppci.irutils.reader.IrParseException (the reader's error() helper), CompilerError
    any other exception (ZeroDivisionError, struct.error, KeyError, NotImplementedError, ValueError, AssertionError ...)
    is a violation with the literal values as the model.
After a successful C3 compile / IR read the module goes through verify_module and ppci.api.optimize(level=2)
("compiled at every optimization level"); internal errors there count as well.
"""
import io
import os
import logging
import contextlib
from symx.harness import Harness
from symx import core
from symx.core import any_sym

PLACEHOLDER0 = 7770001            # hole i is printed as the numeral PLACEHOLDER0 + i in the symbolic run
C3_SHIMS = ("ppci.lang.c3.context", "ppci.lang.c3.codegenerator", "ppci.lang.c3.typechecker",
            "ppci.lang.c3.astnodes", "ppci.lang.c3.scope", "ppci.ir", "ppci.irutils.builder",
            "ppci.irutils.verify", "ppci.binutils.debuginfo",
            "ppci.opt.constantfolding", "ppci.opt.cse", "ppci.opt.mem2reg", "ppci.opt.transform",
            "ppci.opt.clean", "ppci.opt.load_after_store", "ppci.opt.tailcall", "ppci.opt.cjmp")
IR_SHIMS = ("ppci.irutils.reader", "ppci.ir", "ppci.irutils.verify",
            "ppci.opt.constantfolding", "ppci.opt.cse", "ppci.opt.mem2reg", "ppci.opt.transform",
            "ppci.opt.clean", "ppci.opt.load_after_store", "ppci.opt.tailcall", "ppci.opt.cjmp")

BIG = (1 << 64) + 1000            # "wide range" of a literal: beyond every integer type of either language
M32 = (1 << 32) + 1000


def _sym_type(*a):
    """`type(x)` for the code under analysis: a proxy stands for the int / bool it models"""
    if len(a) == 1:
        t = type(a[0])
        if t is core.SymInt:
            return int
        if t is core.SymBool:
            return bool
        return t
    return type(*a)


def _truediv(a, b):
    """`a / b` on symbolic integers (reached in Context.eval_const when the divisor of a constant is zero, or with
    float operands): Python raises for a zero divisor at once; the quotient itself is the exact model of props/C27.py"""
    if b == 0:
        raise ZeroDivisionError("division by zero")
    from props.C27 import FloatQuotient
    return FloatQuotient(a, b)


def fill(text, fn):
    out = text
    k = 0
    while f"@{k}@" in out:
        out = out.replace(f"@{k}@", fn(k))
        k += 1
    return out


def nholes(text):
    k = 0
    while f"@{k}@" in text:
        k += 1
    return k


class _StableHashes:
    """Symbolic runs only.  ppci's IR / graph objects hash by identity (memory address), so the iteration order of sets
    of instructions differs between two executions of the same run; the engine re-executes a path prefix by the
    POSITION of its decisions and needs the same order every time.  While active, the listed base classes hash by a
    per-run sequence number handed out at the first hash() of each object (hash values of identity-hashed objects are
    arbitrary in Python: this selects one legitimate execution).  The concrete re-run of every path is unpatched."""
    CLASSES = (("ppci.ir", ("Value", "Instruction", "Block", "Module")),
               ("ppci.graph.graph", ("Node", "BaseGraph")), ("ppci.graph.cfg", ("DomTreeNode",)))

    def __enter__(self):
        import importlib
        import itertools
        counter = itertools.count(1)

        def stable_hash(obj):
            d = obj.__dict__
            h = d.get("_c28_hash")
            if h is None:
                h = d["_c28_hash"] = next(counter) * 0x9E3779B1 % (1 << 61)
            return h
        self.done = []
        for mod, names in self.CLASSES:
            m = importlib.import_module(mod)
            for n in names:
                cls = getattr(m, n, None)
                if cls is not None and "__hash__" not in cls.__dict__ and "__eq__" not in cls.__dict__:
                    cls.__hash__ = stable_hash
                    self.done.append(cls)
        return self

    def __exit__(self, *a):
        for cls in self.done:
            del cls.__hash__
        return False


class _UniformIntKeys:
    """Symbolic runs only.  With ENG.hash_collapse every symbolic integer hashes alike, so that dict look-ups keyed by
    symbolic integers fall through to == (which forks).  That is sound only if ALL integer keys of such a dict are
    proxies: a plain int key hashes differently and would never be compared with a symbolic one.  The two dicts of
    this kind on the way are CommonSubexpressionEliminationPass' (Const.value, ty) map and the BlobDataTyp interning
    cache keyed by (size, alignment).  While active, plain int values of ir.Const and plain int arguments of
    BlobDataTyp.__new__ are wrapped as CONSTANT proxies (same value, collapsed hash; comparisons of constants are
    decided by simplification, no fork), and the interning cache starts empty (restored afterwards)."""

    @staticmethod
    def wrap(v):
        if type(v) is int:
            W = core.ENG.W
            if -(1 << (W - 1)) <= v < (1 << (W - 1)):
                import z3
                return core.SymInt(z3.BitVecVal(v, W), v, v)
        return v

    def __enter__(self):
        from ppci import ir
        wrap = self.wrap
        self.ir = ir
        self.const_init = ir.Const.__init__
        self.blob_new = ir.BlobDataTyp.__dict__["__new__"]
        self.cache = ir.BlobDataTyp._cache
        const_init, blob_new = self.const_init, self.blob_new.__func__

        def init(node, value, name, ty):
            const_init(node, value, name, ty)
            node.value = wrap(value)

        def new(cls, size, alignment):
            return blob_new(cls, wrap(size), wrap(alignment))
        ir.Const.__init__ = init
        ir.BlobDataTyp.__new__ = staticmethod(new)
        ir.BlobDataTyp._cache = {}
        return self

    def __exit__(self, *a):
        ir = self.ir
        ir.Const.__init__ = self.const_init
        ir.BlobDataTyp.__new__ = self.blob_new
        ir.BlobDataTyp._cache = self.cache
        return False


class _Instrumented:
    """the harness-side context of a SYMBOLIC run (nothing of it is active in the concrete re-run)"""

    def __init__(self, sym):
        self.ctx = [_StableHashes(), _UniformIntKeys()] if sym else []

    def __enter__(self):
        for c in self.ctx:
            c.__enter__()
        return self

    def __exit__(self, *a):
        for c in reversed(self.ctx):
            c.__exit__(*a)
        return False


class _LitHarness(Harness):
    max_paths = 600
    prove_timeout_ms = 120000
    timeout_ms = 60000
    kind = "?"

    def __init__(self, fam, text, ranges, march="x86_64", opt=2, W=None):
        self.fam = fam
        self.text = text
        self.ranges = [list(r) for r in ranges]
        assert len(self.ranges) == nholes(text), (text, ranges)
        self.march = march
        self.opt = opt
        shown = " ".join(fill(text, lambda k: f"L{k}").split())
        self.name = f"c28.{self.kind}.{fam}[{march}:O{opt}: {shown}]"
        self.params = dict(fam=fam, text=text, ranges=self.ranges, march=march, opt=opt)
        self.W = W or 96
        self.seen = {}             # symbolic paths by result (statistics only)

    def inputs(self, mk):
        lv = [mk.int(f"L{k}", lo, hi) for k, (lo, hi) in enumerate(self.ranges)]
        inp = dict(lits=lv)
        for k, v in enumerate(lv):
            inp[f"L{k}"] = v
        return inp

    def post(self, inp, out):
        return {"only-diagnostics": out.ok}

    def _seen(self, what, sym):
        if sym:
            self.seen[what] = self.seen.get(what, 0) + 1
        return what


# ---------------------------------------------------------------------------------------------------
class C3LitHarness(_LitHarness):
    """ppci.api.c3_to_ir (+ optimize) on a C3 template with symbolic literals"""
    shim_modules = C3_SHIMS
    kind = "c3"

    def shim_extra(self):
        return {"type": _sym_type}

    def run(self, inp):
        from ppci.api import c3_to_ir, optimize
        from ppci.common import CompilerError
        from ppci.build.tasks import TaskError
        from ppci.lang.c3 import astnodes
        logging.disable(logging.CRITICAL)
        lv = inp["lits"]
        sym = any_sym(*lv)
        sink = io.StringIO()
        if sym:
            core.ENG.hash_collapse = True       # dict keys built from symbolic sizes (blob-type cache): compare by ==
            core.ENG.truediv_hook = _truediv
            table = {PLACEHOLDER0 + k: v for k, v in enumerate(lv)}
            src = "module m;\n" + fill(self.text, lambda k: str(PLACEHOLDER0 + k))
            orig = astnodes.Literal.__init__

            def init(node, val, loc):
                if type(val) is int and val in table:
                    val = table[val]
                orig(node, val, loc)
            astnodes.Literal.__init__ = init
        else:
            src = "module m;\n" + fill(self.text, lambda k: str(int(lv[k])))
        try:
            with contextlib.redirect_stdout(sink), _Instrumented(sym):
                try:
                    m = c3_to_ir([io.StringIO(src)], [], self.march)
                except (CompilerError, TaskError):
                    return self._seen("diagnostic", sym)
                if self.opt:
                    optimize(m, level=self.opt)
            return self._seen("compiled", sym)
        finally:
            if sym:
                astnodes.Literal.__init__ = orig


# ---------------------------------------------------------------------------------------------------
class IrLitHarness(_LitHarness):
    """ppci.irutils.reader.read_module + verify_module + optimize on an IR-text template with symbolic numbers"""
    shim_modules = IR_SHIMS
    kind = "ir"

    def run(self, inp):
        from ppci.irutils import reader, verify_module
        from ppci.api import optimize
        from ppci.common import CompilerError
        logging.disable(logging.CRITICAL)
        lv = inp["lits"]
        sym = any_sym(*lv)
        if sym:
            core.ENG.hash_collapse = True
            table = {PLACEHOLDER0 + k: v for k, v in enumerate(lv)}
            src = fill(self.text, lambda k: str(PLACEHOLDER0 + k))
            R = reader.Reader
            orig_int, orig_num = R.parse_integer, R.parse_number

            def parse_integer(rd):
                v = orig_int(rd)
                return table[v] if type(v) is int and v in table else v

            def parse_number(rd):
                v = orig_num(rd)
                return table[v] if type(v) is int and v in table else v
            R.parse_integer, R.parse_number = parse_integer, parse_number
        else:
            src = fill(self.text, lambda k: str(int(lv[k])))
        try:
          with _Instrumented(sym):
            try:
                m = reader.read_module(io.StringIO(src))
            except (reader.IrParseException, CompilerError):
                return self._seen("diagnostic", sym)
            try:
                verify_module(m)
            except CompilerError:
                return self._seen("rejected-by-verifier", sym)
            if self.opt:
                optimize(m, level=self.opt)
            return self._seen("compiled", sym)
        finally:
            if sym:
                R.parse_integer, R.parse_number = orig_int, orig_num


# ---------------------------------------------------------------------------------------------------
# template families.  A template = (family, text, ranges[, march]); holes @k@; ranges = [lo, hi] per hole
ITYPES = ["int", "byte", "int8_t", "int16_t", "int32_t", "int64_t", "uint8_t", "uint16_t", "uint32_t", "uint64_t"]
ARITH = ["+", "-", "*", "/", "%", "<<", ">>", "&", "|", "^"]
CMP = ["==", "!=", "<", ">", "<=", ">="]
WIDE = [0, BIG]
W32 = [0, M32]


W16 = [0, (1 << 16) + 1000]
W8 = [0, 300]                      # depth-2 expressions with TWO of * / % (thorough tier only)


def _r(text, heavy=False):
    """ranges of a C3 template: every literal 0 .. 2**64+1000; in a template with a product / quotient / remainder of
    two holes: 0 .. 2**32+1000, of compound operands (three holes): 0 .. 2**16+1000 (wide symbolic products and
    quotients are out of the solvers' reach); depth-2 expressions with two of * / %: 0 .. 300"""
    n = nholes(text)
    return [list((W16 if n > 2 else W32) if heavy else WIDE) for _ in range(n)]


INT16_TARGETS = ("msp430", "avr")
W17 = [0, (1 << 17) + 1000]


def _narrow(ranges, march):
    """targets with a 16-bit int: the 0 .. 2**32+1000 operands of a product / quotient / remainder become 0 .. 2**17+1000
    (still beyond the 16-bit types on both sides)"""
    if march in INT16_TARGETS:
        return [list(W17) if list(r) == W32 else list(r) for r in ranges]
    return [list(r) for r in ranges]


def fam_hard16(fam, text):
    return fam == "const" and ("% (@1@ - @2@)" in text or "const int32_t x = @0@ % @1@" in text)


def c3_templates(tier):
    q = tier == "quick"
    T = []

    def add(fam, text, heavy=None, march="x86_64", rng=None):
        if heavy is None:
            heavy = nholes(text) > 1 and any(f"@ {o} " in text or f") {o} " in text or f" {o} (" in text for o in "*/%")
        rg = _r(text, heavy) if heavy != 2 else [list(W8) for _ in range(nholes(text))]
        if rng is not None:
            rg = [list(rng) for _ in range(nholes(text))]
        T.append((fam, text, _narrow(rg, march), march))

    # (1) constant declarations with arithmetic; the constant initialises a global and is returned by a function
    use = "var {T} g = x; function {T} f() {{ return x; }}"
    for T_ in (("int", "byte") if q else ITYPES):
        for op in ARITH:
            # a symbolic remainder followed by the two's complement wrap of the cast to a signed type other than int
            # is out of the solvers' reach at 2**32: operands 0 .. 2**17+1000 there
            hard = op == "%" and T_ in ("int8_t", "int16_t", "int32_t", "int64_t")
            if op == "%" and T_ == "int64_t":
                continue        # HARD_REMAINDER: the solver does not decide path feasibility here (stated in OUTSIDE)
            add("const", f"const {T_} x = @0@ {op} @1@; " + use.format(T=T_), rng=W17 if hard else None)
    for T_ in ITYPES:
        add("const", f"const {T_} x = cast<{T_}>(@0@); " + use.format(T=T_))
        add("const", f"const {T_} x = cast<{T_}>(@0@ - @1@); " + use.format(T=T_))
        add("const", f"const {T_} x = @0@; " + use.format(T=T_))
    for op in ("/", "%", "*", "+"):
        add("const", f"const int x = (@0@ - @1@) {op} @2@; " + use.format(T="int"), heavy=op in "*/%")
        add("const", f"const int x = @0@ {op} (@1@ - @2@); " + use.format(T="int"), heavy=op in "*/%")
    add("const", "const int x = -@0@; " + use.format(T="int"))
    add("const", "const int x = +@0@; " + use.format(T="int"))
    add("const", "const int a = @0@; const int b = a * @1@; const int c = b - a; var int g = c;", heavy=True)
    add("const", "const int a = @0@; const int b = @1@ / a; var int g = b;", heavy=True)
    add("const", "const int N = @0@; var int[N] a; function int f() { return a[0]; }")
    add("const", "const int N = @0@; const int M = N - @1@; var byte[M] a; function void f() { var int[N] b; b[0] = 1; }")
    add("const", "const int x = @0@; function int f(int a) { return a + x; }")
    add("const", "const byte x = @0@; function byte f(byte a) { return a + x; }")
    add("const", "const int64_t x = @0@; function int64_t f(int64_t a) { return a + x; }")
    # (2) array sizes
    for T_ in ITYPES:
        add("arrsize", f"var {T_}[@0@] a;")
    for T_ in (("int", "byte", "int64_t") if q else ITYPES):
        add("arrsize", f"function void f() {{ var {T_}[@0@] a; a[0] = 1; }}")
        add("arrsize", f"function int f() {{ return sizeof({T_}[@0@]); }}")
        add("arrsize", f"type struct {{ {T_}[@0@] a; int b; }} S; var S s; function int f() {{ return s.b; }}")
    for op in ("-", "/", "*", "%", "+"):
        add("arrsize", f"var int[@0@ {op} @1@] a;")
        add("arrsize", f"function void f() {{ var byte[@0@ {op} @1@] a; a[0] = 1; }}")
    add("arrsize", "var int[@0@] a = {1, 2};")
    add("arrsize", "var byte[@0@] a = {1, 2, 3};")
    add("arrsize", "function int f() { var int[@0@] a = {1, 2}; return a[1]; }")
    add("arrsize", "var int[@0@][@1@] a;", heavy=True)
    add("arrsize", "function void f() { var int[@0@][@1@] a; a[0][0] = 1; }", heavy=True)
    add("arrsize", "type int[@0@] A; var A[@1@] a; function int f() { return sizeof(A); }", heavy=True)
    add("arrsize", "type struct { int[@0@] a; byte[@1@] b; int c; } S; function int f() { var S s; s.c = 1; return s.c; }")
    add("arrsize", "function int f(int[@0@]* p) { return 1; }")
    # (3) array index literals
    for T_ in ITYPES:
        add("index", f"var {T_}[4] a; function {T_} f() {{ return a[@0@]; }}")
    for T_ in (("int", "byte") if q else ITYPES):
        add("index", f"var {T_}[4] a; function void f() {{ a[@0@] = a[@1@]; }}")
        add("index", f"var {T_}[4] a; function void f() {{ a[@0@ - @1@] = 1; }}")
        add("index", f"function {T_} f() {{ var {T_}[4] a; a[@0@] = cast<{T_}>(@1@); return a[@0@]; }}")
    add("index", "var int[4][4] a; function int f() { return a[@0@][@1@]; }")
    # (4) global initialisers of every integer type, in and out of range
    for T_ in ITYPES:
        add("ginit", f"var {T_} g = @0@;")
        add("ginit", f"var {T_} g = cast<{T_}>(@0@);")
        add("ginit", f"var {T_} g = cast<{T_}>(@0@ - @1@);")
        add("ginit", f"var {T_}[2] g = {{cast<{T_}>(@0@), cast<{T_}>(@1@)}};")
        add("ginit", f"type struct {{ int a; {T_} b; }} S; var S g = {{.a = @0@, .b = cast<{T_}>(@1@)}};")
    add("ginit", "var int g = @0@ - @1@;")
    add("ginit", "var int[3] g = {1, @0@, @1@ - @2@};")
    add("ginit", "type struct { int a; byte b; } S; var S g = {.a = @0@ - @1@, .b = @2@};")
    add("ginit", "type struct { int a; byte b; } S; var S[2] g = {{.a = @0@, .b = 1}, {.a = 2, .b = @1@}};")
    add("ginit", "var int* g = @0@;")
    add("ginit", "var int g = @0@, h = @1@;")
    marches = ("msp430",) if q else ("msp430", "arm", "or1k", "avr", "riscv")
    for m in marches:
        for T_ in (("int", "int64_t", "uint16_t") if q else ITYPES):
            add("ginit", f"var {T_} g = cast<{T_}>(@0@ - @1@);", march=m)
        add("const", "const int x = @0@ / @1@; " + use.format(T="int"), march=m)
        add("arrsize", "function void f() { var int[@0@] a; a[0] = 1; }", march=m)
        add("switch", "function int f(int a) { switch(a) { case @0@: { return 1; } default: { return 2; } } return 0; }", march=m)
    # (5) function bodies: the TYPE dimension x operators
    for T_ in ITYPES:
        ops = ARITH if (not q or T_ in ("int", "byte", "int64_t", "uint16_t")) else ("/", "<<", ">>")
        for op in ops:
            add("local", f"function {T_} f({T_} a) {{ return a {op} cast<{T_}>(@0@); }}")
            if not q or op in ("/", "%", "<<"):
                add("local", f"function {T_} f({T_} a) {{ return cast<{T_}>(@0@) {op} a; }}")
        add("local", f"function {T_} f({T_} a) {{ return a + @0@; }}")
        add("local", f"function {T_} f({T_} a) {{ var {T_} x = @0@; return x; }}")
        add("local", f"function {T_} f({T_} a) {{ var {T_} x = cast<{T_}>(@0@ - @1@); return x; }}")
        add("local", f"function {T_} f() {{ return @0@; }}")
        add("local", f"function int f({T_} a) {{ if (a == @0@) {{ return 1; }} return 0; }}")
        add("local", f"function int g({T_} a) {{ return 1; }} function int f() {{ return g(@0@); }}")
        for op in (("+=", "-=") if q else ("+=", "-=", "*=", "|=", "&=")):
            add("local", f"function {T_} f({T_} a) {{ a {op} @0@; return a; }}")
    for op in ARITH:
        add("local", f"function int f() {{ return @0@ {op} @1@; }}")
        add("local", f"function int f() {{ var int x = @0@; var int y = @1@; return x {op} y; }}")
    for op in CMP:
        add("local", f"function int f(int a) {{ if (a {op} @0@) {{ return 1; }} return 0; }}")
        add("local", f"function int f() {{ if (@0@ {op} @1@) {{ return 1; }} return 0; }}")
        add("local", f"function int f(byte a) {{ while (a {op} @0@) {{ a += @1@; }} return 0; }}")
    add("local", "function int f(int a) { return -@0@; }")
    add("local", "function int f(int a) { return a - -@0@; }")
    add("local", "function int f(int a) { if (a < @0@ and a > @1@ or a == @2@) { return 1; } return 0; }")
    add("local", "function void f() { var int* p = @0@; *p = @1@; }")
    add("local", "function int f() { return *cast<int*>(@0@); }")
    add("local", "function int f(int a) { for (a = @0@; a < @1@; a += @2@) { } return a; }")
    add("local", "function bool f(int a) { return a == @0@ or @1@ < @2@; }")
    # (6) switch / case: type of the switch expression x case label values
    for T_ in ITYPES:
        add("switch", f"function int f({T_} a) {{ switch(a) {{ case @0@: {{ return 1; }} case @1@: {{ return 3; }} default: {{ return 2; }} }} return 0; }}")
    for op in (("+", "/", "<<") if q else ARITH):
        add("switch", f"function int f(int a) {{ switch(a) {{ case @0@ {op} @1@: {{ return 1; }} default: {{ return 2; }} }} return 0; }}")
    add("switch", "function int f(int a) { switch(@0@) { case @1@: { return 1; } default: { return 2; } } return 0; }")
    add("switch", "function int f(int a) { switch(a + @0@) { case @1@: { return 1; } case @2@: { return 4; } default: { return 2; } } return 0; }")
    add("switch", "const int K = @0@; function int f(int a) { switch(a) { case K: { return 1; } case K + @1@: { return 4; } default: { return 2; } } return 0; }")
    if not q:
        # depth-2 constant expressions over the evaluable operators, as constant, array size and case label
        ev = ("+", "-", "*", "/", "%")
        for o1 in ev:
            for o2 in ev:
                hv = sum(o in "*/%" for o in (o1, o2))
                add("const2", f"const int x = (@0@ {o1} @1@) {o2} @2@; " + use.format(T="int"), heavy=hv)
                add("const2", f"const int x = @0@ {o1} (@1@ {o2} @2@); var int[x] a; function int f(int b) {{ switch(b) {{ case x: {{ return 1; }} "
                              "default: { return 2; } } return 0; }", heavy=hv)
        # every x86_64 template again on a 16-bit-int target and on a big-endian target
        base = [t for t in T if t[3] == "x86_64"]
        for m in ("msp430", "or1k"):
            # (a remainder by a difference next to a 16-bit range check is out of the solvers' reach: x86_64 / or1k only)
            T += [(f, t, _narrow(r, m), m) for f, t, r, _ in base if not (m in INT16_TARGETS and fam_hard16(f, t))]
    seen, out = set(), []
    for f, t, r, m in T:
        if (t, m) not in seen:
            seen.add((t, m))
            out.append((f, t, r, m, 2))
    return out


# --- textual IR ------------------------------------------------------------------------------------
IRTYPES = ["i8", "i16", "i32", "i64", "u8", "u16", "u32", "u64"]
IROPS = ["+", "-", "*", "/", "%", "|", "&", "^", "<<", ">>"]
SWIDE = [-BIG, BIG]
S32 = [-M32, M32]


def _irfn(body, ret="i32", res="c", params="i32 p", pre=""):
    return f"module m;\n{pre}global function {ret} f({params}) {{\n b0: {{\n{body}\n  return {res};\n }}\n}}\n"


def ir_templates(tier):
    q = tier == "quick"
    T = []

    def add(fam, text, heavy=0):
        # heavy = bit width of the type of a product / quotient / remainder of two holes: operands -+(2**(bits+1)+1000),
        # at most -+(2**32+1000) (wide symbolic products and quotients are out of the solvers' reach)
        n = nholes(text)
        h = min(M32, (1 << (heavy + 1)) + 1000)
        T.append((fam, text, [[-h, h] if heavy else list(SWIDE) for _ in range(n)], "x86_64"))

    for ty in IRTYPES + ["ptr"]:
        add("const", _irfn(f"  {ty} c = @0@;", ty))
    for ty in IRTYPES:
        add("const", _irfn(f"  {ty} a = @0@;\n  {ty} c = -a;", ty))
        add("const", _irfn(f"  {ty} a = @0@;\n  store a, p;\n  {ty} c = load p;", ty, params="ptr p"))
        for op in (IROPS if (not q or ty in ("i32", "u8", "i64", "u16")) else ("/", "%", "<<", ">>")):
            hv = int(ty[1:]) if op in "*/%" else 0
            add("binop", _irfn(f"  {ty} a = @0@;\n  {ty} b = @1@;\n  {ty} c = a {op} b;", ty), heavy=hv)
            add("binop", _irfn(f"  {ty} b = @0@;\n  {ty} c = p {op} b;", ty, params=f"{ty} p"))
            if not q or op in ("/", "%", "<<", "-"):
                add("binop", _irfn(f"  {ty} b = @0@;\n  {ty} c = b {op} p;", ty, params=f"{ty} p"))
        for ty2 in (IRTYPES if not q or ty in ("i32", "u8") else ("i8", "u64")):
            if ty2 != ty:
                add("cast", _irfn(f"  {ty} a = @0@;\n  {ty2} c = cast a;", ty2))
        add("binop", _irfn(f"  {ty} a = @0@;\n  {ty} b = @1@;\n  {ty} d = a + b;\n  {ty} e = @2@;\n  {ty} c = d + e;", ty))
        add("binop", _irfn(f"  {ty} b = @0@;\n  {ty} d = p + b;\n  {ty} e = @1@;\n  {ty} c = d + e;", ty, params=f"{ty} p"))
    add("const", _irfn("  i32 a = @0@;\n  ptr c = cast a;", "ptr"))
    add("const", _irfn("  ptr a = @0@;\n  ptr b = @1@;\n  ptr c = a + b;", "ptr"))
    # alloc / blob types / global variables
    add("alloc", _irfn("  blob<@0@:@1@> a = alloc @2@ bytes aligned at @3@;\n  ptr q = &a;\n  i32 v = @4@;\n  store v, q;\n  i32 c = load q;"))
    add("alloc", _irfn("  blob<4:4> a = alloc @0@ bytes aligned at @1@;\n  ptr q = &a;\n  i32 c = load q;"))
    add("alloc", _irfn("  blob<@0@:@1@> a = alloc @0@ bytes aligned at @1@;\n  ptr q = &a;\n  i8 v = @2@;\n  store v, q;\n  i32 c = @3@;"))
    add("alloc", "module m;\nglobal procedure f() {\n b0: {\n  blob<@0@:@1@> a = alloc @0@ bytes aligned at @1@;\n  exit;\n }\n}\n")
    for binding in ("global", "local"):
        add("gvar", f"module m;\n{binding} variable g (@0@ bytes aligned at @1@)\n")
        add("gvar", _irfn("  i32 c = load g;", pre=f"{binding} variable g (@0@ bytes aligned at @1@)\n"))
        add("gvar", _irfn("  i32 v = @2@;\n  store v, g;\n  i32 c = load g;", pre=f"{binding} variable g (@0@ bytes aligned at @1@)\n"))
    add("gvar", "module m;\nglobal variable g (@0@ bytes aligned at @1@)\nlocal variable h (@2@ bytes aligned at @3@)\n")
    add("blobtype", "module m;\nexternal function i32 e(i32, blob<@0@:@1@>);\n")
    add("blobtype", "module m;\nexternal procedure e(blob<@0@:@1@>, blob<@2@:@3@>);\n")
    add("blobtype", _irfn("  i32 c = @2@;", params="blob<@0@:@1@> p"))
    # control flow on constants
    for ty in (("i32", "u8") if q else IRTYPES):
        for op in CMP:
            add("cjmp", _irfn(f"  {ty} a = @0@;\n  {ty} b = @1@;\n  cjmp a {op} b ? b1 : b2;\n }}\n b1: {{\n  i32 x = @2@;\n  jmp b3;\n }}\n b2: {{\n"
                              f"  i32 y = @3@;\n  jmp b3;\n }}\n b3: {{\n  i32 c = phi b1: x, b2: y;"))
    add("call", _irfn("  i32 a = @0@;\n  i8 b = @1@;\n  i32 c = call e(a, b);", pre="external function i32 e(i32, i8);\n"))
    return [(f, t, r, m, 2) for f, t, r, m in T]


HEXLENS = {"quick": (0, 1, 2, 3, 4, 8), "thorough": tuple(range(0, 13))}


class IrHexHarness(IrLitHarness):
    """`literal '<hex>'` instruction data: the NUMBER of hex digits is the enumerated shape, every digit value
    (0..15) is symbolic.  The symbolic bytes enter where the reader converts the STRING token (reader.unhexlify);
    for an odd digit count the real unhexlify runs on the placeholder text (it rejects by length alone)."""

    def __init__(self, fam, ndigits, march="x86_64", opt=2, W=None):
        self.ndigits = ndigits
        text = _irfn("  blob<%d:1> a = literal '%s';\n  ptr q = &a;\n  i32 c = load q;" % (max(1, ndigits // 2), "#" * ndigits))
        _LitHarness.__init__(self, fam, text, [], march, opt, W)
        self.name = f"c28.ir.{fam}[{ndigits} hex digits:O{opt}]"
        self.params = dict(fam=fam, ndigits=ndigits, march=march, opt=opt)

    def inputs(self, mk):
        d = [mk.int(f"D{k}", 0, 15) for k in range(self.ndigits)]
        inp = dict(lits=d)
        for k, v in enumerate(d):
            inp[f"D{k}"] = v
        return inp

    def run(self, inp):
        from ppci.irutils import reader, verify_module
        from ppci.api import optimize
        from ppci.common import CompilerError
        from symx.seq import SymBytes
        logging.disable(logging.CRITICAL)
        d = inp["lits"]
        sym = any_sym(*d)
        n = self.ndigits
        if sym:
            ph = "".join("0123456789abcdef"[(3 * k + 1) % 16] for k in range(n))
            orig = reader.unhexlify

            def unhexlify(txt):
                if txt != ph or n % 2:
                    return orig(txt)
                return SymBytes.make([16 * d[2 * k] + d[2 * k + 1] for k in range(n // 2)])
            reader.unhexlify = unhexlify
        else:
            ph = "".join("0123456789abcdef"[int(v)] for v in d)
        src = self.text.replace("#" * n, ph) if n else self.text
        try:
            with _Instrumented(sym):
                try:
                    m = reader.read_module(io.StringIO(src))
                except (reader.IrParseException, CompilerError):
                    return self._seen("diagnostic", sym)
                verify_module(m)
                if self.opt:
                    optimize(m, level=self.opt)
                return self._seen("compiled", sym)
        finally:
            if sym:
                reader.unhexlify = orig


# ---------------------------------------------------------------------------------------------------
KINDS = {"c3": C3LitHarness, "ir": IrLitHarness, "irhex": IrHexHarness}
_SUM = ("obligations", "discharged", "validated", "reached", "twin_violated")
WIDTHS = (96, 136, 168, 232, 296)     # engine width ladder: EngineBound (value may not fit) => next width
ROOT = os.path.dirname(os.path.dirname(os.path.abspath(__file__)))


def run_batch(kind, specs, tag="", prop="C28"):
    """custom job: one harness per template, results merged (same scheme as props/C27.py:run_batch)"""
    from symx.harness import run_harness, load_known
    known = load_known(os.environ.get("VERIF_KNOWN") or os.path.join(ROOT, "known_findings.json"), prop)
    cls = KINDS[kind]
    res = dict(harness=f"batch.{kind}{tag}[{len(specs)} templates]", violations=[], known_hits=[], inconclusive=[],
               errors=[], funcs=[], samples=[], stats={}, solver={}, outcomes={}, exhaustive=True, nontrivial=0,
               wall_s=0.0, results={}, **{k: 0 for k in _SUM})
    funcs = set()
    for n, spec in enumerate(specs):
        for W in WIDTHS:
            h = cls(*spec, W=W)
            r = run_harness(h, known, want_trace=(n < 2))
            if not any(e.get("kind") == "EngineBound" for e in r.get("errors", [])):
                break
        for k in _SUM:
            res[k] += r.get(k, 0)
        for k in ("violations", "known_hits", "inconclusive", "errors"):
            res[k] += r.get(k, [])
        funcs.update(r.get("funcs", []))
        if len(res["samples"]) < 2:
            res["samples"] += r.get("samples", [])[:1]
        for d, src in ((res["stats"], r.get("stats", {})), (res["solver"], r.get("solver", {})),
                       (res["outcomes"], r.get("outcomes", {})), (res["results"], h.seen)):
            for k, v in src.items():
                d[k] = d.get(k, 0) + v
        res["exhaustive"] = res["exhaustive"] and r.get("exhaustive", False)
        if r.get("stats", {}).get("paths", 0) > 1:
            res["nontrivial"] += 1
        res["wall_s"] += r.get("wall_s", 0.0)
    res["funcs"] = sorted(funcs)
    return res


def _cost(spec):
    text = spec[1] if isinstance(spec[1], str) else ""
    return 1 + 4 * sum(text.count(f" {o} ") for o in "*/%") + text.count("<<")


def batches(specs, nbatch):
    specs = sorted(specs, key=_cost, reverse=True)
    bins = [[] for _ in range(nbatch)]
    load = [0] * nbatch
    for s in specs:
        k = load.index(min(load))
        bins[k].append(s)
        load[k] += _cost(s)
    return [b for b in bins if b]


def mk_batch_c3(specs, tag=""):
    return run_batch("c3", specs, tag)


def mk_batch_ir(specs, tag=""):
    return run_batch("ir", specs, tag)


def mk_batch_irhex(specs, tag=""):
    return run_batch("irhex", specs, tag)


def ext_jobs(tier, seed):
    """jobs of the C3 / IR-text extension (appended by props/C28.py:jobs)"""
    c3 = [list(s) for s in c3_templates(tier)]
    irs = [list(s) for s in ir_templates(tier)]
    hx = [["literal", n] for n in HEXLENS[tier]]
    only = os.environ.get("VERIF_ONLY")
    if only:
        c3 = [s for s in c3 if only in C3LitHarness(*s).name]
        irs = [s for s in irs if only in IrLitHarness(*s).name]
        hx = [s for s in hx if only in IrHexHarness(*s).name]
    nb = 12 if tier == "quick" else 24
    js = [("mk_batch_c3", dict(specs=b, tag=f"#{i}")) for i, b in enumerate(batches(c3, nb))]
    js += [("mk_batch_ir", dict(specs=b, tag=f"#{i}")) for i, b in enumerate(batches(irs, nb))]
    if hx:
        js.append(("mk_batch_irhex", dict(specs=hx, tag="")))
    return js
