"""C26  C preprocessor agrees with a conforming preprocessor -- the `#if` / `#elif` expression half.

Claimed part of the property text: "#if expressions are evaluated with C's integer rules: truncating
division and remainder, and unsigned arithmetic for unsigned operands."

Real code: ppci.lang.c.preprocessor.CPreProcessor.process_file on a conditional group
        #if <E>            |   #if 0 / zero / #elif <E>
        yes                |   yes
        #else              |   #else
        no                 |   no
        #endif             |   #endif
i.e. the real lexer, handle_directive, handle_if_directive / handle_elif_directive, eval_expr,
parse_expression (operator precedence parser), _eval_tree, OP_MAP, do_if, skip_excluded_block.
The integer literals of <E> carry SYMBOLIC values (whole range of intmax_t for unsuffixed, of uintmax_t
for u-suffixed literals); they are injected by wrapping the module-global `cnum` the real
parse_expression calls for a NUMBER token (real cnum runs on a placeholder, its value is replaced).
Observation: which of the identifiers `yes` / `no` survives in the output token stream.
Every explored path is re-run concretely with no instrumentation (values printed into the text).

Oracle: ref/csem.py with the preprocessor data model (C11 6.10.1p4: every signed type is intmax_t,
every unsigned type uintmax_t, 64 bits): the group is kept iff the value is non-zero.
Premise: the controlling expression is free of undefined behaviour in its EVALUATED operands
(signed overflow, division by zero, shift count out of range, left shift of a negative value).

NOT claimed (stated in OUTSIDE): macro expansion, stringification, token pasting, rescanning -- they
rewrite token sequences and have no value dimension a solver could quantify over.
"""
import os
import io
import logging
import random
from symx.harness import Harness
from symx import core
from symx.core import sym_and, sym_or, sym_not, any_sym
from ref import csem
from props.C27 import run_batch, batches, lit, SHIFT_COUNT_MAX, optags, tractable, has_defined_point, precedence_shapes

PROPERTY = "C26"
LEVEL = "model_checking"
BOUNDS = {
    "quick": {"literal values": "unsuffixed: 0..2**63-1, u-suffixed: 0..2**64-1 (symbolic); literals inside a shift count: "
                                f"0..{SHIFT_COUNT_MAX}; literals inside the right factor of a product: 0..65535",
              "expression shapes": "depth 1 exhaustive (18 binary operators, unary - ~ ! +, ?:) over leaves L, Lu, (-L), (-Lu), each "
                                   "observed through its truth value and through == against a further symbolic literal (depth 2); == -L, == Lu, < L, Lu < on "
                                   "rotating subsets of the shapes without / and %",
              "directives": "#if and #elif"},
    "thorough": {"literal values": "as quick",
                 "expression shapes": "as quick + 2500 depth-2/3 trees sampled by VERIF_SEED",
                 "directives": "#if and #elif"},
}
OUTSIDE = ["macro expansion, stringification (#), token pasting (##), nested/recursive expansion, rescanning, hide sets "
           "(token-sequence rewriting: not encodable as solver obligations; the oracle would be gcc -E on concrete texts)",
           "`defined`, identifiers and character constants inside #if expressions, #ifdef/#ifndef",
           "literal spelling (hex/octal, l/ll suffixes: all signed types are intmax_t in #if anyway); unsuffixed literals above INTMAX_MAX",
           f"shift counts built from literals larger than {SHIFT_COUNT_MAX} (undefined for 64-bit operands)",
           "expression trees deeper than 3 operators; in the sampled trees * / % only over leaf operands, at most one of them "
           "per tree, no << next to them (64-bit symbolic products/quotients of sub-expressions are out of the solvers' reach)"]
ASSUMPTIONS = ["#if arithmetic as written in /verif/ref/csem.py (C11 6.10.1p4 + 6.5), cross-checked against gcc -E on concrete points "
               "(tools/csem_selftest.py)",
               "undefined behaviour in an evaluated operand of the controlling expression is a premise",
               "symbolic literals enter through a wrapper around the module-global cnum used by parse_expression; the "
               "uninstrumented concrete re-run of every path validates this"]
SHIMS_USED = ["isinstance", "int", "bool"]
JOB_TIMEOUT = {"quick": 600, "thorough": 1700}
TASKS_PER_CHILD = 4
RULE = ("one evaluation = one batch job of #if templates; every template is one harness (all paths of the real preprocessor "
        "for all literal values); non-trivial = templates whose exploration had more than one path")

DM = csem.PP
MUL_RIGHT_MAX = 0xFFFF      # literals inside the right factor of a product (64 x 64-bit symbolic products are out of the solvers' reach)


def pp_text(directive, etext):
    if directive == "if":
        return f"#if {etext}\nyes\n#else\nno\n#endif\n"
    return f"#if 0\nzero\n#elif {etext}\nyes\n#else\nno\n#endif\n"


class PPIfHarness(Harness):
    shim_modules = ("ppci.lang.c.preprocessor",)
    max_paths = 400
    prove_timeout_ms = 120000
    timeout_ms = 60000
    mode = "c26"

    def __init__(self, directive, expr, paren="full", W=None):
        self.directive = directive
        self.expr = expr
        self.lits = csem.literals(expr)
        self.paren = paren
        self.render = csem.render if paren == "full" else csem.render_min
        self.text = self.render(expr, lambda i, s: f"L{i}{s}")
        prefix = "c26" if self.mode == "c26" else "c28.pp"
        self.name = f"{prefix}.{directive}[{self.text}] ops=,{','.join(optags(expr))},"
        self.params = dict(directive=directive, expr=expr, paren=paren)
        self.W = W or (80 + 64 * self.text.count("*") + (SHIFT_COUNT_MAX + 1) * self.text.count("<<"))
        self.shiftlits = csem.shift_count_literals(expr)
        self.mullits = csem.mul_right_literals(expr)

    def inputs(self, mk):
        vals = {}
        for i, s in self.lits:
            hi = DM.hi(csem.SUFFIX_TYPE[s])
            if i in self.shiftlits:
                hi = min(hi, SHIFT_COUNT_MAX)
            if i in self.mullits:
                hi = min(hi, MUL_RIGHT_MAX)
            vals[i] = mk.int(f"L{i}", 0, hi)
        lv = [vals[i] for i in sorted(vals)]
        E = csem.Eval(DM, lv, mk.assume if self.mode == "c26" else None)
        v, t = E.ev(self.expr)
        inp = dict(lits=lv, truth=csem._truth(v), defined=E.defined)
        for k, f in E.flags.items():
            inp["F_" + k] = f
        for i, x in enumerate(lv):
            inp[f"L{i}"] = x
        if self.mode == "c26":
            mk.assume(E.defined)
        return inp

    def literal_ranges(self):
        out = []
        for i, s in sorted(self.lits):
            hi = DM.hi(csem.SUFFIX_TYPE[s])
            if i in self.shiftlits:
                hi = min(hi, SHIFT_COUNT_MAX)
            if i in self.mullits:
                hi = min(hi, MUL_RIGHT_MAX)
            out.append((0, hi))
        return out

    def premise(self, lv):
        E = csem.Eval(DM, lv)
        E.ev(self.expr)
        return bool(E.defined)

    def run(self, inp):
        from ppci.lang.c import CPreProcessor, COptions
        from ppci.lang.c import preprocessor as ppmod
        logging.disable(logging.CRITICAL)
        lv = inp["lits"]
        if any_sym(*lv):
            table = {}

            def littext(i, s):
                tok = f"{101 + i}{s}"
                table[tok] = lv[i]
                return tok
            text = pp_text(self.directive, self.render(self.expr, littext))
            orig = ppmod.cnum

            def cnum(txt):
                value, spec = orig(txt)
                if txt in table:
                    value = table[txt]
                return value, spec
            ppmod.cnum = cnum
            try:
                toks = list(CPreProcessor(COptions()).process_file(io.StringIO(text), "x.c"))
            finally:
                ppmod.cnum = orig
        else:
            text = pp_text(self.directive, self.render(self.expr, lambda i, s: f"{int(lv[i])}{s}"))
            toks = list(CPreProcessor(COptions()).process_file(io.StringIO(text), "x.c"))
        return [t.val for t in toks if getattr(t, "typ", None) == "ID"]

    def post(self, inp, out):
        if self.mode == "c28":
            return {"only-diagnostics": out.ok or out.exc == "CompilerError"}
        if not out.ok:
            return {"preprocesses": False}
        ids = out.value
        if ids == ["yes"]:
            ok = inp["truth"]
        elif ids == ["no"]:
            ok = sym_not(inp["truth"])
        else:
            ok = False
        return {"preprocesses": True, "branch": ok}


# ---------------------------------------------------------------------------------------------------
BIN = list(csem.BINOPS)


def pp_leaves(idx):
    return [lit(idx, ""), lit(idx, "u"), ["neg", lit(idx, "")], ["neg", lit(idx, "u")]]


def depth1():
    out = []
    for op in BIN:
        for a in pp_leaves(0):
            for b in pp_leaves(1):
                out.append(([op, a, b], 2))
    for op in csem.UNOPS:
        for a in pp_leaves(0):
            out.append(([op, a], 1))
    for c in (lit(0, ""), ["neg", lit(0, "u")]):
        for a in (lit(1, ""), ["neg", lit(1, "")]):
            for b in (lit(2, ""), lit(2, "u")):
                out.append((["cond", c, a, b], 3))
    return out


def observers(e, n, full):
    """ways of observing the VALUE of e through the branch decision"""
    obs = [e, ["eq", e, lit(n, "")], ["eq", e, ["neg", lit(n, "")]]]
    if full:
        obs += [["eq", e, lit(n, "u")], ["lt", e, lit(n, "")], ["lt", lit(n, "u"), e]]
    return obs


def quick_templates():
    T = []
    for k, (e, n) in enumerate(depth1()):
        heavy = e[0] in ("div", "mod")
        # every depth-1 shape through its truth value and through == L
        T.append(("if", e))
        T.append(("if", ["eq", e, lit(n, "")]))
        if not heavy:
            # further observers (negative / unsigned comparands, orderings) on rotating subsets
            if k % 4 == 0:
                T.append(("if", ["eq", e, ["neg", lit(n, "")]]))
            if k % 8 == 0:
                T += [("if", ["eq", e, lit(n, "u")]), ("if", ["lt", e, lit(n, "")]), ("if", ["lt", lit(n, "u"), e])]
        if k % 8 == 0:
            T.append(("elif", e))
            T.append(("elif", ["eq", e, lit(n, "")]))
    for s in ("", "u"):
        T.append(("if", lit(0, s)))
        T.append(("elif", lit(0, s)))
    # operator precedence / associativity of the real parse_expression: depth-2 shapes printed with only the
    # parentheses C needs, observed through == L
    rnd = random.Random(26)
    for e in precedence_shapes():
        if "cast" in csem.operators(e):
            continue                      # no casts in #if
        n = len(csem.literals(e))
        sp = ("if", ["eq", e, lit(n, "")], "min")
        if has_defined_point(PPIfHarness(*sp), rnd):
            T.append(sp)
    return T


def _rand_leaf(rnd, idx):
    return rnd.choice(pp_leaves(idx))


def _rand_tree(rnd, depth, base):
    """-> (expr, next literal index)"""
    if depth == 0:
        return _rand_leaf(rnd, base), base + 1
    f = rnd.random()
    if f < 0.8:
        a, n = _rand_tree(rnd, rnd.choice([0, depth - 1]), base)
        b, n = _rand_tree(rnd, rnd.choice([0, depth - 1]) if a[0] in ("lit", "neg") else 0, n)
        op = rnd.choice(BIN)
        if op in ("shl", "shr") and b[0] not in ("lit", "neg"):
            b, n = _rand_leaf(rnd, n), n + 1
        return [op, a, b], n
    if f < 0.9:
        a, n = _rand_tree(rnd, depth - 1, base)
        return [rnd.choice(list(csem.UNOPS)), a], n
    c, n = _rand_tree(rnd, depth - 1, base)
    a, n = _rand_tree(rnd, 0, n)
    b, n = _rand_tree(rnd, 0, n)
    return ["cond", c, a, b], n


def sampled_templates(rnd, n):
    T = []
    while len(T) < n:
        e, k = _rand_tree(rnd, 2, 0)
        if e[0] in ("lit", "neg") or not tractable(e):
            continue
        o = csem.renumber(rnd.choice(observers(e, k, True)))
        spec = (rnd.choice(["if", "if", "elif"]), o)
        if not has_defined_point(PPIfHarness(*spec), rnd):
            continue
        T.append(spec)
    return T


def select(tier, seed):
    T = quick_templates()
    if tier == "thorough":
        T += sampled_templates(random.Random(2600001 * seed + 26), 2500)
    return T


def mk_batch(specs, tag=""):
    return run_batch(PPIfHarness, PROPERTY, specs, tag)


def jobs(tier, seed):
    specs = select(tier, seed)
    only = os.environ.get("VERIF_ONLY")
    if only:
        specs = [s for s in specs if only in repr(s) or only in PPIfHarness(*s).name]
    nb = 48 if tier == "quick" else 160
    return [("mk_batch", dict(specs=b, tag=f"#{i}")) for i, b in enumerate(batches(specs, nb, key=1))]
