"""Shared plumbing for IR-level translation validation (C02, C03, C24, ...):
build IR from the corpus with the REAL front end, declare symbolic arguments / memory /
external results for a function, run the reference semantics (ref/irsem.py)."""
import io
import z3
from symx import core
from symx.core import sym_and, sym_or, sym_not, SymInt, SymBool
from ref import irsem

MARCH = "x86_64"
PTR_BITS = 64
BUF_LEN = 16          # bytes behind every pointer argument
MAX_EXT = 4           # external call results declared per run


def c_module(src, march=MARCH):
    from ppci.api import c_to_ir
    return c_to_ir(io.StringIO(src), march)


def find_function(module, name):
    for f in module.functions:
        if f.name == name:
            return f
    raise KeyError(name)


def consts_of(module):
    """integer Const instructions in deterministic order"""
    out = []
    for f in module.functions:
        for b in f:
            for i in b:
                if type(i).__name__ == "Const" and isinstance(i.value, int) and not isinstance(i.value, bool):
                    out.append(i)
    return out


def ty_range(ty, ptr_bits=PTR_BITS):
    n = irsem.bits_of(ty, ptr_bits)
    if irsem.is_signed(ty):
        return -(1 << (n - 1)), (1 << (n - 1)) - 1
    return 0, (1 << n) - 1


def declare_inputs(mk, module, fname, ptr_bits=PTR_BITS, symbolic_globals=True):
    """symbolic argument vector, initial contents of every global and of one buffer per pointer
    argument, external-call results"""
    f = find_function(module, fname)
    args = []
    bufs = {}
    for k, p in enumerate(f.arguments):
        if type(p.ty).__name__ == "PointerTyp":
            bufs[f"buf{k}"] = [mk.int(f"buf{k}[{j}]", 0, 255) for j in range(BUF_LEN)]
            args.append(("ptr", f"buf{k}"))
        else:
            lo, hi = ty_range(p.ty, ptr_bits)
            args.append(("int", mk.int(f"arg{k}", lo, hi)))
    glob = {}
    for v in module.variables:
        if v.value is None and symbolic_globals and v.amount <= 32:
            glob[v.name] = [mk.int(f"{v.name}[{j}]", 0, 255) for j in range(v.amount)]
    ext = [mk.int(f"ext{k}", -(1 << 63), (1 << 63) - 1) for k in range(MAX_EXT)]
    return dict(args=args, bufs=bufs, glob=glob, ext=ext)


def declare_havoc(mk, inp):
    """opt-in: one symbolic byte per external call, XOR-ed into all memory an external can name"""
    inp["havoc"] = [mk.int(f"havoc{k}", 0, 255) for k in range(MAX_EXT)]
    return inp


def run_ref(module, fname, inp, ptr_bits=PTR_BITS, max_steps=300):
    """execute the reference semantics; returns (machine, result term or None)"""
    sem = irsem.IrSem(module, ptr_bits=ptr_bits, ext_results=inp["ext"], max_steps=max_steps,
                      init_globals=inp["glob"], buffers=inp["bufs"])
    if inp.get("havoc"):
        sem.ext_havoc = inp["havoc"]
        sem.abstract_local_pointers = True
    f = find_function(module, fname)
    argv = []
    for (kind, v), p in zip(inp["args"], f.arguments):
        if kind == "ptr":
            argv.append(z3.BitVecVal(sem.buf_addr[v], ptr_bits))
        else:
            argv.append(irsem.bvv(v, irsem.bits_of(p.ty, ptr_bits)))
    try:
        r = sem.call(f, argv)
    except irsem.StepLimit as e:
        raise core.PathCut(str(e))
    return sem, r


def term_out(t):
    """z3 term -> SymInt (engine active) / int (concrete replay), unsigned reading"""
    t = z3.simplify(t)
    if z3.is_bv_value(t):
        return t.as_long()
    if z3.is_true(t):
        return True
    if z3.is_false(t):
        return False
    if core.ENG is None:
        raise irsem.Unsupported(f"non-constant term in concrete mode: {t}")
    if z3.is_bool(t):
        return SymBool(t)
    return core.from_bv(t, signed=False)


def observable(sem, r):
    """(return value, visible memory, external call trace) in harness-comparable form"""
    mem = {k: [term_out(b) for b in bs] for k, bs in sorted(sem.visible_memory().items())}
    def targ(a):
        if isinstance(a, irsem.LocalPointer):
            # comparable form: (marker, size, offset, contents...) — the address itself is not observable
            return [-1, a.size, term_out(a.off)] + [term_out(c) for c in a.contents]
        return [term_out(a)]
    trace = [(n, [x for a in args for x in targ(a)]) for n, args in sem.trace]
    return dict(ret=None if r is None else term_out(r), mem=mem, trace=trace)


def same_observable(o1, o2):
    if (o1["ret"] is None) != (o2["ret"] is None):
        return False
    if [n for n, _ in o1["trace"]] != [n for n, _ in o2["trace"]]:
        return False
    if sorted(o1["mem"]) != sorted(o2["mem"]):
        return False
    conds = []
    if o1["ret"] is not None:
        conds.append(o1["ret"] == o2["ret"])
    for k in o1["mem"]:
        if len(o1["mem"][k]) != len(o2["mem"][k]):
            return False
        conds += [a == b for a, b in zip(o1["mem"][k], o2["mem"][k])]
    for (_, a1), (_, a2) in zip(o1["trace"], o2["trace"]):
        if len(a1) != len(a2):
            return False
        conds += [x == y for x, y in zip(a1, a2)]
    return sym_and(*conds) if conds else True
