"""C07  Instruction read/write annotations match machine semantics  (RISC-V: RV32IM + C; ARM: A32).

Same symbolic encodings as C08 (real instruction classes, symbolic register numbers / immediates / branch
distance, real encode() and relocation).  The emitted word is executed by the manual-derived single-step
semantics ref/rv32.step (RISC-V) resp. ref/arm32.step (ARM) from a fully symbolic machine state, twice:
  frame             every general register that the step changes is in the instruction's real
                    defined_registers (+ clobbers);
  non-interference  a second state that agrees with the first on the real used_registers (and on pc, sp,
                    memory; ARM: the NZCV flags) and is arbitrary (inputs z..) on every other register yields the
                    same next pc, the same memory and the same values in the defined registers (ARM: and the same
                    new flags).
ARM flags: ppci has no flag register; the CPSR flags are treated as fixed implicit state like pc and sp (both
states agree on them, flag changes are outside the frame claim), but the new flag values of an instruction must
depend on declared reads only (otherwise a wrong annotation of cmp would be invisible).
"""
import os
import z3
from symx.harness import Harness
from symx import core
from ref import rv32, arm32
from props import _rv, _arm

PROPERTY = "C07"
LEVEL = "model_checking"
BOUNDS = {
    "quick": {"registers": "riscv: every register number 0..31; arm: every register number 0..15; for every register operand, all symbolic at once",
              "immediates": "[-2**33, 2**33] (whatever encode() accepts is executed)",
              "branch/jump distance": "twice the documented reach, every even (arm: word-aligned) instruction address below 2**32",
              "machine state": "riscv: x1..x31 and pc; arm: r0..r14, pc (word aligned), N Z C V: every value; memory: every content of the bytes an "
                               "instruction can touch (8 symbolic bytes, address mod 8; arm push/pop: 64 bytes, address mod 64), compared at a symbolic probe address",
              "instruction classes": "every non-system class of ppci.arch.riscv.instructions / rvc_instructions / ppci.arch.arm.arm_instructions with syntax + tokens",
              "pseudo-instructions": "li rd, imm: rd 0..31, imm -2**31 .. 2**32-1 (signed and unsigned spellings); the whole "
                                     "rendered sequence (real render() + encode()) is executed",
              "arm shift suffix": "NoShift / lsl / lsr / asr, amount [-64, 64] (whatever encode() accepts is executed)",
              "arm register lists (push/pop)": "every list of at most 3 registers"},
}
BOUNDS["thorough"] = dict(BOUNDS["quick"])
BOUNDS["thorough"]["immediates"] = BOUNDS["quick"]["immediates"].replace("2**33", "2**48")
BOUNDS["thorough"]["branch/jump distance"] = BOUNDS["quick"]["branch/jump distance"].replace("twice", "16 times")
BOUNDS["thorough"]["arm register lists (push/pop)"] = "every non-empty register list and every single register"
OUTSIDE = ["thumb, m68k, mips, x86_64 (no ISA model)", "F/D floating-point and CSR/system instructions (csr*, rdcycle*, ebreak, mret); arm coprocessor classes (mcr, mrc)",
           "pseudo-instructions whose expansion needs relocations (la, lw rd,label; arm ldr rt,=label) and the rvc selection helpers (Andv, Lwv, ...: not in the ISA object); extra_uses/extra_defs/clobbers that the code generator attaches "
           "to individual call instructions (instances are built the way the assembler builds them)",
           "words that are not an RV32IMC / A32 instruction (reserved encodings: decided under C08)",
           "arm: operand combinations and run-time cases the manual calls UNPREDICTABLE / UNKNOWN (pc as shift register, base register in a load-multiple "
           "list with writeback, bx to an address with bits 1:0 = 10 ...): no claim",
           "arm: changes of the CPSR flags (ppci declares no flag register: outside the frame claim)",
           "traps (misaligned targets, access faults; arm: push/pop at an unaligned sp): the model has none"]
ASSUMPTIONS = ["ref/rv32.py states the RISC-V Unprivileged ISA manual 20191213 correctly (see C08 self-test; integer and z3 back ends of step() cross-checked)",
               "ref/arm32.py states the ARM ARM (DDI 0406C, ARMv7, ARM state, SCTLR.A = 0) correctly (see C08 self-test: decoder vs repo vectors / llvm-mc, 60 hand-computed "
               "step results incl. flag setting, shifter carry-out, PC reads as address + 8, interworking PC writes; integer and z3 back ends cross-checked)",
               "the stack pointer (x2 / r13) and pc are fixed implicit inputs (property text): both states agree on them; arm: likewise the NZCV flags",
               "memory of period 8 bytes (arm push/pop: 64 bytes) is general for one instruction (at most 4 resp. 64 consecutive bytes are touched)",
               "a conditional arm instruction whose condition fails leaves rd unchanged: the value of the declared output then depends on the old rd",
               "any exception out of encode()/relocation.apply() = operand combination rejected (nothing to execute)"]
SHIMS_USED = ["isinstance", "int", "range", "bytes", "bytearray", "struct", "bool"]
JOB_TIMEOUT = {"quick": 150, "thorough": 600}
TASKS_PER_CHILD = 64
M32 = (1 << 32) - 1


def _wrap(b):
    return core.SymBool(b) if z3.is_expr(b) else bool(b)


class AnnotationHarness(_rv.EncodeHarness):
    PREFIX = "rv.usedef"
    W = 72

    def inputs(self, mk):
        d = self.operand_inputs(mk)
        for i in range(1, 32):
            d[f"x{i}"] = mk.int(f"x{i}", 0, M32)
            d[f"z{i}"] = mk.int(f"z{i}", 0, M32)
        d["pc"] = mk.int("pc", 0, M32 - 1)
        mk.assume(d["pc"] % 2 == 0)
        for k in range(8):
            d[f"m{k}"] = mk.int(f"m{k}", 0, 255)
        d["probe"] = mk.int("probe", 0, M32)
        d["k"] = mk.int("k", 1, 31)
        return d

    def run(self, i):
        return self.encode(i)

    def post(self, i, out):
        if not out.ok:
            return {"harness-ran": False}
        r = out.value
        if r[0] == "rejected":
            return {"rejected": True}
        _, data, printed, used, defined = r
        if len(data) not in (2, 4):
            return {"instruction-length": False}
        return self.obligations(i, [data], printed, used, defined)

    def obligations(self, i, seq, printed, used, defined):
        """seq: the emitted instructions (byte lists), executed one after the other"""
        mem = [i[f"m{k}"] for k in range(8)]
        xs = [0] + [i[f"x{k}"] for k in range(1, 32)]
        zs = [0] + [i[f"z{k}"] for k in range(1, 32)]
        shared = list(used) + [2]          # registers the two states agree on: declared reads + sp
        words = [(_rv.le(d), len(d)) for d in seq]
        symbolic = any(type(v) is not int for v in xs + zs + mem + shared + [w for w, n in words] +
                       [i["pc"], i["probe"], i["k"]])
        if symbolic:
            # register files as z3 arrays tied to the declared inputs (keeps symbolic register numbers cheap);
            # state B reads X on the shared registers and Z elsewhere
            bv5 = z3.BitVecSort(5)
            X, Z = z3.Array("X", bv5, z3.BitVecSort(32)), z3.Array("Z", bv5, z3.BitVecSort(32))
            link = [z3.Select(A, z3.BitVecVal(k, 5)) == core.to_bv(v[k], 32)
                    for A, v in ((X, xs), (Z, zs)) for k in range(1, 32)]
            sh5 = [z3.simplify(core.to_bv(u, 5)) for u in shared]

            def mixed(j):
                c = z3.simplify(z3.Or(*[j == u for u in sh5]))
                return z3.If(c, z3.Select(X, j), z3.Select(Z, j))
            sa = rv32.make_state(rv32.RegArray(X), core.to_bv(i["pc"], 32), membytes=mem)
            sb = rv32.make_state(rv32.RegArray(fn=mixed), core.to_bv(i["pc"], 32), membytes=mem)
        else:
            link = []
            ys = [xs[k] if k in shared else zs[k] for k in range(32)]
            sa = rv32.make_state(xs, i["pc"], membytes=mem)
            sb = rv32.make_state(ys, i["pc"], membytes=mem)
        o = sa.ops
        ta, tb = sa, sb
        la, sysa = True, False
        for w, n in words:
            ta = rv32.step(ta, w, n)
            tb = rv32.step(tb, w, n)
            la = o.and_(la, ta.legal)
            sysa = o.or_(sysa, ta.system)
        rr = rv32.read_reg

        def member(k, nums):
            cs = [o.eq(o.val(n), o.val(k)) for n in nums]
            return o.or_(*cs) if cs else False

        def imp(a, b):
            return o.or_(o.not_(a), b)

        k = o.val(i["k"])
        frame = o.or_(o.eq(rr(ta, k), rr(sa, k)), member(k, defined))
        same_regs = [o.eq(rr(ta, o.val(d)), rr(tb, o.val(d))) for d in defined]
        probe = o.val(i["probe"])
        same_pc = o.eq(ta.pc, tb.pc)
        same_mem = o.eq(ta.mem.load_byte(probe), tb.mem.load_byte(probe))
        legal = o.and_(la, o.not_(sysa), *link)
        docprem = self.imm_premise(i, printed)
        if symbolic:
            docprem = core.tobool(docprem)
        return {"executes: bytes are an RV32IMC instruction (C08)": _wrap(imp(o.and_(docprem, *link), la)),
                "frame: only defined registers change": _wrap(imp(legal, frame)),
                "non-interference: defined registers": _wrap(imp(legal, o.and_(True, *same_regs))),
                "non-interference: next pc": _wrap(imp(legal, same_pc)),
                "non-interference: memory": _wrap(imp(legal, same_mem))}


class PseudoAnnotationHarness(_rv.PseudoHarness, AnnotationHarness):
    """pseudo-instructions: the rendered SEQUENCE is executed; annotations are the pseudo-instruction's own"""
    PREFIX = "rv.usedef-pseudo"

    def run(self, i):
        return self.expand(i)

    def post(self, i, out):
        if not out.ok:
            return {"harness-ran": False}
        r = out.value
        if r[0] == "rejected":
            return {"rejected": True}
        _, seq, printed, used, defined, after = r
        if not seq or any(len(d) not in (2, 4) for d in seq):
            return {"instruction-length": False}
        return self.obligations(i, seq, printed, used, defined)


class ArmAnnotationHarness(_arm.EncodeHarness):
    """ARM A32: the emitted word is executed by ref/arm32.step from a fully symbolic state (r0..r14, pc, NZCV,
    memory), twice: state A = the inputs x0..x14; state B agrees with A on the real used_registers, on sp, pc,
    the flags and memory and is arbitrary (z0..z14) elsewhere."""
    PREFIX = "arm.usedef"
    W = 72

    def nmem(self):
        return 64 if "L" in self.ks else 8

    def inputs(self, mk):
        d = self.operand_inputs(mk)
        for i in range(15):
            d[f"x{i}"] = mk.int(f"x{i}", 0, M32)
            d[f"z{i}"] = mk.int(f"z{i}", 0, M32)
        d["pc"] = mk.int("pc", 0, M32 - 3)
        mk.assume(d["pc"] % 4 == 0)
        for fl in "nzcv":
            d["f" + fl] = mk.int("f" + fl, 0, 1)
        for k in range(self.nmem()):
            d[f"m{k}"] = mk.int(f"m{k}", 0, 255)
        d["probe"] = mk.int("probe", 0, M32)
        d["k"] = mk.int("k", 0, 14)
        return d

    def run(self, i):
        return self.encode(i)

    def post(self, i, out):
        if not out.ok:
            return {"harness-ran": False}
        r = out.value
        if r[0] == "rejected":
            return {"rejected": True}
        _, data, printed, used, defined = r
        if len(data) != 4:
            return {"instruction-length": False}
        mem = [i[f"m{k}"] for k in range(self.nmem())]
        xs = [i[f"x{k}"] for k in range(15)]
        zs = [i[f"z{k}"] for k in range(15)]
        fl = [i["f" + c] for c in "nzcv"]
        shared = list(used) + [13]         # registers the two states agree on: declared reads + sp
        word = _arm.le(data)
        symbolic = any(type(v) is not int for v in xs + zs + mem + fl + shared + [word, i["pc"], i["probe"], i["k"]])
        if symbolic:
            bv4 = z3.BitVecSort(4)
            X, Z = z3.Array("X", bv4, z3.BitVecSort(32)), z3.Array("Z", bv4, z3.BitVecSort(32))
            link = [z3.Select(A, z3.BitVecVal(k, 4)) == core.to_bv(v[k], 32)
                    for A, v in ((X, xs), (Z, zs)) for k in range(15)]
            sh4 = [z3.simplify(core.to_bv(u, 4)) for u in shared]

            def mixed(j):
                c = z3.simplify(z3.Or(*[j == u for u in sh4]))
                return z3.If(c, z3.Select(X, j), z3.Select(Z, j))
            flz = [core.to_bv(f, 1) == 1 for f in fl]
            pcz = core.to_bv(i["pc"], 32)
            sa = arm32.make_state(arm32.Z3Regs(arr=X), pcz, flags=flz, membytes=mem)
            sb = arm32.make_state(arm32.Z3Regs(fn=mixed), pcz, flags=flz, membytes=mem)
        else:
            link = []
            ys = [xs[k] if k in shared else zs[k] for k in range(15)]
            sa = arm32.make_state(xs, i["pc"], flags=[bool(f) for f in fl], membytes=mem)
            sb = arm32.make_state(ys, i["pc"], flags=[bool(f) for f in fl], membytes=mem)
        o = sa.ops
        w = o.val(word)
        ta, tb = arm32.step(sa, w), arm32.step(sb, w)

        def member(k, nums):
            cs = [o.eq(o.val(n), o.val(k)) for n in nums]
            return o.or_(*cs) if cs else False

        def imp(a, b):
            return o.or_(o.not_(a), b)

        k = o.val(i["k"])
        rd = (lambda st, j: st.regs.read(j))
        frame = o.or_(o.eq(rd(ta, k), rd(sa, k)), member(k, defined))
        same_regs = [o.or_(o.eq(o.val(d), o.val(15)), o.eq(rd(ta, o.val(d)), rd(tb, o.val(d)))) for d in defined]
        probe = o.val(i["probe"])
        same_pc = o.and_(o.eq(ta.pc, tb.pc), o.eq(o.b2v(ta.t), o.b2v(tb.t)))
        same_mem = o.eq(ta.mem.load_byte(probe), tb.mem.load_byte(probe))
        same_flags = o.and_(*[o.eq(o.b2v(p), o.b2v(q)) for p, q in
                              ((ta.n, tb.n), (ta.z, tb.z), (ta.c, tb.c), (ta.v, tb.v))])
        oka = o.and_(ta.legal, o.not_(ta.system), o.not_(ta.unpred), o.not_(ta.fault), *link)
        okab = o.and_(oka, o.not_(tb.unpred), o.not_(tb.fault))
        docprem = self.imm_premise(i, printed)
        if symbolic:
            docprem = core.tobool(docprem)
        return {"executes: bytes are an A32 instruction (C08)": _wrap(imp(o.and_(docprem, *link), ta.legal)),
                "frame: only defined registers change": _wrap(imp(oka, frame)),
                "non-interference: defined registers": _wrap(imp(okab, o.and_(True, *same_regs))),
                "non-interference: next pc": _wrap(imp(okab, same_pc)),
                "non-interference: memory": _wrap(imp(okab, same_mem)),
                "non-interference: condition flags": _wrap(imp(okab, same_flags))}


def mk_arm_ann(**kw):
    return ArmAnnotationHarness(**kw)


ARM_NLIST = {"quick": (3,), "thorough": (1, 16)}


def arm_claimed():
    cl, un = _arm.discover()
    return [c for c in cl if _arm.SPEC[(c[3], c[5])]["base"] not in arm32.SYSTEM]


def arm_jobs(tier):
    js = [("mk_arm_selftest", {})]
    for (idx, cls, mn, base, cond, ks) in arm_claimed():
        for nl in (ARM_NLIST[tier] if "L" in ks else (0,)):
            js.append(("mk_arm_ann", dict(idx=idx, cls=cls, mn=mn, base=base, cond=cond, ks=ks,
                                          wide=int(tier == "thorough"), nlist=nl)))
    return js


def mk_arm_selftest():
    import time
    t0 = time.time()
    res = dict(harness="arm32.selftest", violations=[], known_hits=[], inconclusive=[], errors=[], funcs=[],
               samples=[], stats=dict(paths=1, decisions=0, feas_queries=0, cut_paths=0, solver_s=0.0),
               obligations=1, discharged=0, validated=0, reached=1, twin_violated=1, exhaustive=True, nontrivial=1)
    try:
        st = arm32.selftest()
        res["discharged"] = 1
        res["samples"] = [dict(harness="arm32.selftest", selftest=st, claimed_classes=len(arm_claimed()))]
    except AssertionError as e:
        res["errors"].append(dict(kind="reference-selftest-failed", harness="arm32.selftest", error=repr(e)[:500]))
    res["wall_s"] = time.time() - t0
    return res


def mk_pseudo(**kw):
    return PseudoAnnotationHarness(**kw)


def mk_ann(**kw):
    return AnnotationHarness(**kw)


def claimed():
    out = []
    cl, un = _rv.discover()
    for (arch, idx, cls, mn, ks) in cl:
        base = _rv.SPEC[(mn, ks)]["base"]
        if "c" in ks or base in rv32.SYSTEM or base == "c.ebreak":
            continue
        out.append((arch, idx, cls, mn, ks))
    return out


def mk_selftest():
    import time
    t0 = time.time()
    res = dict(harness="rv32.selftest", violations=[], known_hits=[], inconclusive=[], errors=[], funcs=[],
               samples=[], stats=dict(paths=1, decisions=0, feas_queries=0, cut_paths=0, solver_s=0.0),
               obligations=1, discharged=0, validated=0, reached=1, twin_violated=1, exhaustive=True, nontrivial=1)
    try:
        st = rv32.selftest()
        res["discharged"] = 1
        res["samples"] = [dict(harness="rv32.selftest", selftest=st, claimed_classes=len(claimed()))]
    except AssertionError as e:
        res["errors"].append(dict(kind="reference-selftest-failed", harness="rv32.selftest", error=repr(e)[:500]))
    res["wall_s"] = time.time() - t0
    return res


def jobs(tier, seed):
    js = [("mk_selftest", {})]
    for (arch, idx, cls, mn, ks) in claimed():
        js.append(("mk_ann", dict(arch=arch, idx=idx, cls=cls, mn=mn, ks=ks, wide=int(tier == "thorough"))))
    for (arch, idx, cls, mn, ks) in _rv.discover(True):
        js.append(("mk_pseudo", dict(arch=arch, idx=idx, cls=cls, mn=mn, ks=ks, wide=int(tier == "thorough"))))
    js += arm_jobs(tier)
    only = os.environ.get("VERIF_ONLY")
    if only:
        js = [j for j in js if only in repr(j)]
    return js
