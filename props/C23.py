"""C23  IR -> WebAssembly translation preserves behaviour (ppci/wasm/ppci2wasm.py, ppci/graph/relooper.py).

Translation validation: the REAL `IrToWasmCompiler` (exactly the three calls `ir_to_wasm` makes) runs concretely on an
IR module of a stated family
  * C programs of corpus/cprogs.py through the real C front end (march "arm": 32-bit int / long / pointers, what ppci's
    own wasm sample tests use), unoptimised and after `optimize(level=2)` (phis),
  * the IR-text CFG skeleton family corpus/irprogs.py (every terminator assignment over n blocks: structured and
    unstructured control flow, self loops, multi-exit loops, phis on every join) read by the real `read_module`;
its OUTPUT (a ppci.wasm Module object, consumed directly -- no text / binary round trip) is executed by the reference
semantics ref/wasmsem.py next to ref/irsem.py on the INPUT with the same symbolic arguments, initial global contents,
16-byte buffers behind pointer arguments and external-call results.  The IR reference is evaluated under the address
map of the generated module (globals where ppci2wasm put them in linear memory, buffers at fixed free addresses).
Per path, under irsem's premise (the source execution is defined), the solver decides: the wasm execution does not
trap, the result is equal (low bits of the IR type's width), every byte of every global / caller buffer is equal,
the external call trace is equal.  A module ppci does not compile (any exception of the compiler) is outside the
property's quantifier ("every module that ppci compiles"); such modules are counted as rejected, never as passed.
"""
import os
import io
import contextlib
import z3
from symx.harness import Harness
from symx import core
from symx.core import sym_and, sym_or, sym_not, implies, SymInt, SymBool
from ref import wasmsem, irsem
from corpus import cprogs, irprogs, irnested
from props import _tv

PROPERTY = "C23"
LEVEL = "translation_validation"
JOB_TIMEOUT = {"quick": 280, "thorough": 1500}
TASKS_PER_CHILD = 40
MARCH = "arm"
PTR_BITS = 32
IR_STEPS = 120            # quick-tier unwinding bound (IR instructions of the source execution); small enough that the depth-first
                          # exploration is exhaustive below it instead of spending its path budget near the bound
BUF_ADDR = 0x6000          # caller buffers behind pointer arguments live here in linear memory (free: globals start at 1000)

BOUNDS = {
    "quick": {"programs": "every program of corpus/cprogs.py and 23 extra programs (props/C23.py EXTRA_PROGS: narrow / unsigned types, loops with "
                          "break / continue / early return, switch in loop) unoptimised and after optimize level 2; "
                          "13 hand-written IR templates of nested structured control flow with 5-10 blocks (corpus/irnested.py: loop in if in "
                          "loop, if-if-while with shared joins, sequential loops, early return in a nested loop, break + continue, ...); "
                          "IR CFG skeletons: all 44 with 2 and 3 blocks, a fixed (seed-independent) sample of 60 with 4 blocks",
              "symbolic": "all arguments (full range of the IR type), initial contents of globals (<= 32 bytes), 16 bytes behind each "
                          "pointer argument, 4 external call results",
              "unwinding": "120 IR instructions / 1200 wasm steps per execution (small enough that the depth-first exploration is exhaustive "
                           "below the bound), call depth 3, at most 400 paths per program (longer / further paths are cut and counted)"},
    "thorough": {"programs": "every C program unoptimised and at levels 1 and 2; ALL 2-, 3- and 4-block skeletons (2216)",
                 "unwinding": "200 IR instructions / 2000 wasm steps"}}
OUTSIDE = ["floating point (no symbolic float domain)", "modules that ppci2wasm does not compile (any compiler exception): counted, not claimed",
           "function pointers / call_indirect (front-end output of the corpus has none)",
           "running the output in ppci's own engine or wasmtime: the reference is the specification (ref/wasmsem.py)",
           "the value of the bits above the IR type's width in a returned wasm value (i8/i16 in i32, u32 in i64)",
           "programs outside the stated families; executions beyond the unwinding bound"]
ASSUMPTIONS = ["IR reference semantics ref/irsem.py, 32-bit pointers, evaluated under the address map of the generated module",
               "wasm reference semantics ref/wasmsem.py (WebAssembly Core Specification section 4)",
               "premise: the source execution is defined (no division by zero / signed overflow of division, shift count < width, accesses "
               "inside one live region, no read of Undefined)",
               "arguments are passed to the wasm function in canonical form: signed IR types sign-extended, unsigned zero-extended to the wasm type",
               "imported functions (IR externals) do not touch linear memory"]
SHIMS_USED = ["isinstance"]
RULE = ("one evaluation = one IR module: the real IR->wasm compiler runs once per path, reference semantics of its input and of its "
        "output are compared by the solver for all inputs; non-trivial = more than one path")

# C programs in addition to corpus/cprogs.py: value ranges where the representation of narrow / unsigned IR types in
# wasm i32 / i64 matters (wrap-around of u32 kept in an i64, i8 / i16 arithmetic kept in an i32, casts between them)
EXTRA_PROGS = {
    "w_u32_carry": ("int f(unsigned a, unsigned b) { unsigned s = a + b; return s < a; }", "f"),
    "w_u32_mul_shift": ("unsigned f(unsigned a, unsigned b) { return (a * b) >> 4; }", "f"),
    "w_u32_sub_div": ("unsigned f(unsigned a, unsigned b) { return (a - b) / 7u; }", "f"),
    "w_u32_to_ll": ("long long f(unsigned a, unsigned b) { return (long long)(a + b) + 1; }", "f"),
    "w_u32_global": ("unsigned g;\nunsigned f(unsigned a) { g = g + a; return g >> 1; }", "f"),
    "w_short_mul": ("int f(short a, short b) { short c = a * b; return c; }", "f"),
    "w_uchar_add_cmp": ("int f(unsigned char a, unsigned char b) { unsigned char c = a + b; return c < a; }", "f"),
    "w_schar_neg": ("int f(signed char a) { signed char b = -a; return b; }", "f"),
    "w_int_to_short_to_int": ("int f(int a) { return (short)a + (unsigned char)a; }", "f"),
    "w_ull_cmp": ("int f(unsigned long long a, unsigned long long b) { return (a < b) + 2 * (a >= b + 1); }", "f"),
    "w_loop_in_if": ("int f(int n, int k) { int s = 0; if (k > 0) { while (n > 0) { s += n; n -= k; if (s > 50) break; } s += 2; } return s + 1; }", "f"),
    "w_two_loops": ("int f(int n, int k) { int s = 0; if (k & 1) { for (int i = 0; i < (n & 3); i++) s += i; } else { for (int j = 0; j < (k & 3); j++) s -= j; } return s * 3; }", "f"),
    "w_globals_mixed": ("char tag[5]; int counter; short h; long long w; char last;\n"
                        "int f(int a) { tag[4] = (char)a; counter = a * 3; h = (short)(a >> 3); w = a; last = 7; tag[0] = 1; return counter + tag[4] + h + last; }", "f"),
    "w_ll_bitops": ("long long f(long long a, long long b) { return (a & b) | (a ^ 5) ; }", "f"),
    "w_ll_shift": ("long long f(long long a, int n) { return (a << (n & 31)) + (a >> (n & 31)); }", "f"),
    "w_ull_shift": ("unsigned long long f(unsigned long long a, int n) { return a >> (n & 63); }", "f"),
    "w_neg_not": ("int f(int a, int b) { return -a + ~b; }", "f"),
    "w_ll_neg_not": ("long long f(long long a) { return -a + ~a; }", "f"),
    "w_global_init": ("int t[3] = {7, -2, 100000}; char c = 'x';\nint f(int i) { int k = (i & 1); t[k] = t[k + 1] + c; return t[0] + t[1]; }", "f"),
    "w_while_break_continue": ("int f(int n, int m) { int s = 0; while (n > 0) { n--; if (n == m) continue; if (s > 100) break; s += n; } return s; }", "f"),
    "w_nested_break": ("int f(int n) { int s = 0; for (int i = 0; i < (n & 3); i++) { for (int j = 0; j < 3; j++) { if (j == i) break; s += j + 1; } s += 10; } return s; }", "f"),
    "w_goto_like": ("int f(int a, int b) { int r = 0; if (a > 0) { if (b > 0) { r = 1; } else { return 7; } } r += a; if (r > b) return r; return b; }", "f"),
    "w_early_return_loop": ("int f(int n, int k) { for (int i = 0; i < (n & 7); i++) { if (i * i == k) return i; } return -1; }", "f"),
    "w_do_while_if": ("int f(int n) { int c = 0; do { if (n & 1) c += 3; else c -= 1; n = n >> 1; } while (n > 0 && c < 9); return c; }", "f"),
    "w_switch_loop": ("int f(int n) { int s = 0; for (int i = 0; i < (n & 3); i++) { switch (i) { case 0: s += 1; break; case 1: s += 10; case 2: s += 100; break; default: s = -1; } } return s; }", "f"),
    "w_void_proc": ("int g;\nvoid p(int a) { if (a > 3) { g = a; return; } g = -a; }\nint f(int a) { p(a); return g; }", "f"),
    "w_many_args": ("int h(int a, int b, int c, int d, int e) { return a - b * 2 + c * 3 - d * 4 + e * 5; }\nint f(int a, int b) { return h(a, b, 3, a + b, 5); }", "f"),
}


def c_source(prog):
    if prog in EXTRA_PROGS:
        src, entry = EXTRA_PROGS[prog]
        return src.replace("\\n", "\n"), entry
    src, entry, _ext = cprogs.PROGS[prog]
    return src, entry


SKIP = {"tail_swap_gcd"}      # chained symbolic remainders (Euclid): path feasibility alone exhausts the solver budget

LOOPY = ["while_sum", "for_break", "do_while", "nested_loops", "ifelse", "ternary", "logic", "switch", "recursion", "tail_self",
         "unsigned_cmp", "calls"]


def build(prog, opt):
    """-> (module for the reference, module for the compiler, entry name)"""
    if prog.startswith("ir:") or prog.startswith("irn:"):
        from ppci.irutils import read_module
        text = irprogs.source(prog) if prog.startswith("ir:") else irnested.source(prog)
        return read_module(io.StringIO(text)), read_module(io.StringIO(text)), "f"
    src, entry = c_source(prog)
    ms = []
    for _ in range(2):
        m = _tv.c_module(src, MARCH)
        if opt:
            from ppci.api import optimize
            optimize(m, level=opt)
        ms.append(m)
    return ms[0], ms[1], entry


def wasm_ty(ty):
    n = type(ty).__name__
    if n == "PointerTyp":
        return "i32"
    if ty.bits <= 16 or (ty.bits == 32 and irsem.is_signed(ty)):
        return "i32"
    return "i64"


def eqn(a, b, n):
    if type(a) not in (int, bool, SymInt, SymBool) or type(b) not in (int, bool, SymInt, SymBool):
        return False
    if core.ENG is None or not (core.is_sym(a) or core.is_sym(b)):
        return (int(a) - int(b)) % (1 << n) == 0
    return SymBool(core.to_bv(a, n) == core.to_bv(b, n))


def sval(t):
    return _tv.term_out(t)


class Ir2WasmHarness(Harness):
    max_paths = 400
    max_decisions = 500
    cut_allowance = 10 ** 6
    W = 80
    timeout_ms = 20000
    prove_timeout_ms = 30000
    prove_fresh_smt = True
    prove_uf_first = True
    shim_modules = ()

    def __init__(self, prog, opt=None):
        self.prog = prog
        self.opt = opt
        self.name = f"ir2wasm[{prog}|{'O' + str(opt) if opt else 'O0'}]"
        self.params = dict(prog=prog, opt=opt)
        self.t0 = None

    def inputs(self, mk):
        import time
        if self.t0 is None:
            self.t0 = time.time()
        tier = os.environ.get("VERIF_TIER_ACTIVE", "quick")
        if core.ENG is not None and time.time() - self.t0 > 0.8 * JOB_TIMEOUT.get(tier, 280):
            raise core.PathCut("job time budget")     # remaining paths are cut and counted (evidence: cut_paths, exhaustive=false)
        m1, m2, entry = build(self.prog, self.opt)
        inp = _tv.declare_inputs(mk, m1, entry, ptr_bits=PTR_BITS)
        inp.update(m1=m1, m2=m2, entry=entry)
        return inp

    def run(self, i):
        from ppci.wasm.ppci2wasm import IrToWasmCompiler
        m1, m2, entry = i["m1"], i["m2"], i["entry"]
        res = dict(status="ok")
        if core.ENG is not None:
            core.ENG.uf_prune = True
        # -- the compiler under test (the three calls of ppci.wasm.ir_to_wasm)
        try:
            with contextlib.redirect_stdout(io.StringIO()):
                comp = IrToWasmCompiler()
                comp.prepare_compilation()
                comp.compile(m2)
                wm = comp.create_wasm_module()
        except (core.Abort, core.PathCut, core.EngineError):
            raise
        except Exception as e:
            res["status"] = "rejected:" + type(e).__name__
            return res
        f = _tv.find_function(m1, entry)
        layout = {}
        for v in m1.variables:
            layout[v.name] = comp.global_labels[v.name]
        spans = sorted((layout[v.name], layout[v.name] + v.amount) for v in m1.variables)
        if any(x[1] > y[0] for x, y in zip(spans, spans[1:])) or (spans and spans[0][0] < comp.STACKSIZE):
            res["status"] = "globals-overlap"
            return res
        for k, name in enumerate(sorted(i["bufs"])):
            layout[name] = BUF_ADDR + 32 * k
        # -- reference: the IR
        try:
            steps = IR_STEPS if os.environ.get("VERIF_TIER_ACTIVE", "quick") == "quick" else 200
            sem = irsem.IrSem(m1, ptr_bits=PTR_BITS, ext_results=i["ext"], max_steps=steps, init_globals=i["glob"],
                              buffers=i["bufs"], layout=layout)
            argv = []
            for (kind, v), p in zip(i["args"], f.arguments):
                if kind == "ptr":
                    argv.append(z3.BitVecVal(layout[v], PTR_BITS))
                else:
                    argv.append(irsem.bvv(v, irsem.bits_of(p.ty, PTR_BITS)))
            try:
                r1 = sem.call(f, argv)
            except irsem.StepLimit as e:
                raise core.PathCut(str(e))
        except irsem.Unsupported as e:
            res["status"] = "reference-unsupported:" + str(e)[:60]
            return res
        o1 = _tv.observable(sem, r1)
        res["o1"] = o1
        res["premise"] = _tv.term_out(sem.premise())
        # -- the output: wasm
        results = list(i["ext"])
        host = {}
        extty = {e.name: e for e in getattr(m1, "externals", [])}
        for d in wm:
            if type(d).__name__ == "Import" and d.kind == "func":
                e = extty.get(d.name)

                def fn(argv, e=e):
                    rty = getattr(e, "return_ty", None)
                    if rty is None:
                        return []
                    if not results:
                        raise core.PathCut("more external calls than declared results")
                    v = irsem.bvv(results.pop(0), irsem.bits_of(rty, PTR_BITS))
                    n = 32 if wasm_ty(rty) == "i32" else 64
                    if v.size() < n:
                        v = z3.SignExt(n - v.size(), v) if irsem.is_signed(rty) else z3.ZeroExt(n - v.size(), v)
                    return [v]
                host[f"{d.modname}.{d.name}"] = fn
        out = dict(trap=None, ret=None, mem={}, trace=[])
        try:
            ws = wasmsem.WasmSem(wm, host=host, max_steps=10 * steps, max_depth=4)
            for v in m1.variables:
                if v.name in i["glob"]:
                    for j, b in enumerate(i["glob"][v.name]):
                        ws.poke(layout[v.name] + j, b)
            for name, data in i["bufs"].items():
                for j, b in enumerate(data):
                    ws.poke(layout[name] + j, b)
            wargs = []
            for (kind, v), p in zip(i["args"], f.arguments):
                n = 32 if wasm_ty(p.ty) == "i32" else 64
                if kind == "ptr":
                    wargs.append(z3.BitVecVal(layout[v], 32))
                else:
                    t = irsem.bvv(v, irsem.bits_of(p.ty, PTR_BITS))
                    if t.size() < n:
                        t = z3.SignExt(n - t.size(), t) if irsem.is_signed(p.ty) else z3.ZeroExt(n - t.size(), t)
                    wargs.append(t)
            try:
                r2 = ws.invoke(entry, wargs)
                out["ret"] = sval(r2[0]) if r2 else None
            except wasmsem.Trap as e:
                out["trap"] = str(e)
            except wasmsem.StepLimit as e:
                # the source execution ended within its bound (IR_STEPS); 10 wasm steps per IR instruction
                # are far beyond what the translation needs: reported as non-termination, not cut
                out["trap"] = "does not terminate within 10 wasm steps per IR instruction of the bound"
            for name in o1["mem"]:
                out["mem"][name] = [sval(ws.peek(layout[name] + j)) for j in range(len(o1["mem"][name]))]
            out["trace"] = [(n.split(".", 1)[1], [sval(a) for a in args]) for n, args in ws.trace]
        except wasmsem.Unsupported as e:
            res["status"] = "output-not-executable:" + str(e)[:60]
            return res
        res["o2"] = out
        return res

    def post(self, i, out):
        if not out.ok:
            return {"harness-ran": False}
        v = out.value
        st = v["status"]
        if st.startswith("rejected") or st.startswith("reference-unsupported"):
            return {"not-comparable(" + st[:60] + ")": True}
        if st == "globals-overlap":
            return {"globals-have-disjoint-storage-outside-the-stack-area": False}
        if st != "ok":
            return {"output-is-valid-wasm": False}
        o1, o2, prem = v["o1"], v["o2"], v["premise"]
        f = _tv.find_function(i["m1"], i["entry"])
        posts = {"no-trap": implies(prem, o2["trap"] is None)}
        if o2["trap"] is not None:
            return posts
        rty = getattr(f, "return_ty", None)
        if rty is not None:
            posts["return-value"] = implies(prem, eqn(o1["ret"], o2["ret"], irsem.bits_of(rty, PTR_BITS)))
        conds = []
        for name, bs in o1["mem"].items():
            conds += [eqn(a, b, 8) for a, b in zip(bs, o2["mem"][name])]
        if conds:
            posts["memory"] = implies(prem, sym_and(*conds))
        if o1["trace"] or o2["trace"]:
            extty = {e.name: e for e in getattr(i["m1"], "externals", [])}
            ok = [n for n, _ in o1["trace"]] == [n for n, _ in o2["trace"]]
            conds = []
            if ok:
                for (n, a1), (_, a2) in zip(o1["trace"], o2["trace"]):
                    ok = ok and len(a1) == len(a2)
                    for x, y, t in zip(a1, a2, extty[n].argument_types):
                        conds.append(eqn(x, y, irsem.bits_of(t, PTR_BITS)))
            posts["external-calls"] = implies(prem, sym_and(ok, *conds))
        return posts


def mk_ir2wasm(**kw):
    """custom job: explore the harness here so that the result can say whether the module was compared or rejected"""
    from symx import harness as H
    import logging
    logging.disable(logging.WARNING)      # the C front end logs a warning per compilation
    h = Ir2WasmHarness(**kw)
    counts = {}
    post = h.post

    def counting_post(i, out):
        r = post(i, out)
        for k in r:
            key = "not-comparable" if k.startswith("not-comparable") else "compared" if k == "no-trap" else None
            if key:
                counts[key + (":" + k[15:-1] if key == "not-comparable" else "")] = 1
        return r
    h.post = counting_post
    known = H.load_known(os.path.join(os.path.dirname(os.path.dirname(os.path.abspath(__file__))), "known_findings.json"), PROPERTY)
    with contextlib.redirect_stdout(io.StringIO()):
        res = H.run_harness(h, known)
    if not counts and res["stats"].get("cut_paths") and all(e.get("kind") == "vacuous" for e in res["errors"]):
        # every execution of this program is longer than the unwinding bound (e.g. a skeleton whose loops cannot be left)
        res["errors"] = []
        counts["all-paths-beyond-unwinding-bound"] = 1
    res["outcomes"].update(counts)
    res["programs"] = 1 if "compared" in counts else 0
    res["disagreements_checked"] = len(res["violations"]) + len(res["known_hits"])
    return res


def jobs(tier, seed):
    js = []
    for p in sorted(cprogs.PROGS) + sorted(EXTRA_PROGS):
        if p in SKIP:
            continue
        js.append(("mk_ir2wasm", dict(prog=p, opt=None)))
        js.append(("mk_ir2wasm", dict(prog=p, opt="2")))
        if tier != "quick":
            js.append(("mk_ir2wasm", dict(prog=p, opt="1")))
    # the skeleton family does not depend on the run seed: quick takes a FIXED sample of the 4-block skeletons,
    # thorough enumerates all 2172 of them
    import random
    n4 = list(irprogs.all_names(4))
    skel = list(irprogs.all_names(2)) + list(irprogs.all_names(3)) + (random.Random(0).sample(n4, 600)[:60] if tier == "quick" else n4)
    for nm in irnested.names() + skel:
        js.append(("mk_ir2wasm", dict(prog=nm, opt=None)))
    only = os.environ.get("VERIF_ONLY")
    if only:
        js = [j for j in js if only in repr(j)]
    return js
