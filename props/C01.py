"""C01  The C front end preserves the meaning of defined-behaviour C programs.

Real code: ppci.api.c_to_ir (CPreProcessor, CParser, CSemantics [on_binop, on_unop, on_ternop, coerce, promote,
get_common_type, on_call, on_return, on_switch_*, on_case ...], CContext [type sizes, struct layout],
CCodeGenerator [gen_expr, gen_stmt, gen_binop, gen_unop, gen_inplace_mutation, gen_condition, gen_switch, gen_call,
gen_local_init*, gen_global_ival ...]) compiles the C TEXT of a program concretely.

Translation validation, per program of a stated finite family (corpus/c01fam.py: typed ASTs of our own, rendered to C):
  * the reference C semantics ref/csem_prog.py (written from ISO C11, independent of ppci, validated against gcc on
    concrete points by tools/csem_prog_selftest.py) executes the AST on z3 terms with SYMBOLIC argument values
    (every value of the parameter types), initial contents of uninitialised globals, 16 bytes behind every pointer
    parameter and results of external calls; it also yields the undefined-behaviour predicate, which is ASSUMED
    (premise; a program whose defined region is empty is a harness error = vacuity guard);
  * the IR the real front end produced is executed by the reference IR semantics ref/irsem.py with the same
    symbolic inputs;
  * per path, the solver decides for ALL inputs in the defined region:
      returns      same returned value (bit pattern of the C return type)
      memory       same final contents of every global (padding bytes of structs excluded) and pointed-to buffer
      calls        same sequence of external calls with the same argument values
      ir-defined   the IR execution itself stays defined (no division by zero, shift count >= width, read of an
                   undefined value, out-of-region access) whenever the C program is defined
      terminates   (only when violated) the IR finishes within the step bound (400 instructions) on every path on which
                   the C program finished within 12 loop iterations (a mis-compiled loop that spins is reported, not
                   cut; a path on which the C program itself runs longer is a cut path = INCONCLUSIVE)
      layout       (only when violated) the size of every global object equals sizeof of its type in the data model
Loops are unwound; the family bounds every trip count by a mask or constant, so no path may be cut (cut allowance 0:
a cut path is reported INCONCLUSIVE).
"""
import os
import io
import sys
import logging
import z3
from symx.harness import Harness, run_harness, load_known
from symx import core
from symx.core import sym_and, sym_or, sym_not, SymBool
from props import _tv
from ref import irsem
from ref import csem_prog as cp
from corpus import c01fam

PROPERTY = "C01"
LEVEL = "translation_validation"
ROOT = os.path.dirname(os.path.dirname(os.path.abspath(__file__)))

MODELS = {"x86_64": cp.LP64, "arm": cp.ILP32, "riscv": cp.ILP32, "msp430": cp.IP16}

BOUNDS = {
    "quick": {"target": "x86_64 (LP64)",
              "programs": "corpus/c01fam.py quick: every binary operator (18 + comma) x 23 operand type pairs, the 4 unary "
                          "operators x 11 integer types, 22 conversion pairs (as cast and as return conversion; 11 as "
                          "initialisation), 12 ?: type triples, 60 sampled depth-2/3 trees (VERIF_SEED), ~235 statement "
                          "template instances (control flow, switch, compound assignment, ++/--, arrays, structs, pointers, "
                          "globals, internal and external calls, literals, sizeof; declarations with initialisers in loop "
                          "bodies and in for-init clauses at nesting depth 2 with outer loops running up to 3 times, for "
                          "statements as brace-less bodies of if / else / while / do / for)",
              "symbolic": "all argument values (full range of each parameter type), initial bytes of uninitialised globals, "
                          "16 bytes behind each pointer parameter, 4 external call results (64 bit), the initial contents "
                          "of the first 96 bytes of the IR machine's stack area (indeterminate automatic storage)",
              "unwinding": "24 loop iterations / 400 IR instructions per run, call depth 8"},
    "thorough": {"targets": "x86_64 (LP64), arm (ILP32), msp430 (16-bit int, 16-bit pointers); riscv (ILP32) on the quick-size "
                            "covering subset",
                 "programs": "per target: every binary operator x all 121 operand type pairs, all 121 conversion pairs (cast, "
                             "return), compound assignment for all 121 pairs x 10 operators, all 121 call conversions, the thorough "
                             "statement templates; ?: type triples: all 1331 on x86_64, 212 sampled on arm / msp430; sampled "
                             "depth-2/3 trees: 300 on x86_64, 100 on arm / msp430 (VERIF_SEED)",
                 "symbolic": "as quick", "unwinding": "as quick"},
}
OUTSIDE = ["floating point, bit-fields, unions, enums, goto, variadic functions, function pointers, string literals, "
           "pointers stored in aggregates, pointer-to-pointer, casts between pointer types (not in the generated family)",
           "programs outside the stated family; expression trees deeper than 3 operators",
           "executions longer than the unwinding bound (the family bounds trip counts by masks, so none are cut)",
           "external functions that modify memory visible to the caller",
           "the avr target: c_to_ir raises KeyError('ir-typ i32') for every program (front end unusable there; see C28)",
           "big-endian targets (the reference IR semantics is little-endian)",
           "evaluation-order dependent programs (unsequenced side effects are undefined / unspecified in C; "
           "ref/csem_prog.check_program keeps the family free of them)"]
ASSUMPTIONS = ["C semantics as written in /verif/ref/csem_prog.py from ISO C11 6.3, 6.5, 6.7.9, 6.8; implementation-defined "
               "choices: two's complement, out-of-range conversion to a signed type wraps modulo 2**N, >> of a negative value is "
               "arithmetic, plain char signed, natural alignment, ptrdiff_t/size_t of pointer width; cross-checked against "
               "gcc -fsanitize=undefined on concrete points (tools/csem_prog_selftest.py, LP64 only)",
               "IR reference semantics /verif/ref/irsem.py (wrap-around arithmetic, truncating / %, arithmetic >> on signed types)",
               "undefined behaviour of the C program (signed overflow, division by zero, shift count out of range, left shift of "
               "a negative value, out-of-bounds access, read of an uninitialised object) is a premise",
               "type sizes, alignments and pointer width of the data model are asserted against ppci's arch info / CContext at run time",
               "no shims: the front end runs concretely on the program text; symbolic values exist only in the two reference "
               "semantics (ref/csem_prog.py, ref/irsem.py)"]
SHIMS_USED = []
JOB_TIMEOUT = {"quick": 900, "thorough": 1700}
RULE = ("one evaluation = one batch job of programs; every program is one harness (the real front end compiles its text once; "
        "reference C semantics and reference IR semantics of the result are compared by the solver on every path for all "
        "inputs); non-trivial = programs whose exploration had more than one path")


def _one_line(p):
    return " ".join(cp.render_program(p).split())


class ProgHarness(Harness):
    W = 80
    max_paths = 600
    max_decisions = 400
    cut_allowance = 0               # the family bounds all trip counts: no path may be cut
    timeout_ms = 60000
    prove_timeout_ms = 120000
    prove_uf_first = True
    shim_modules = ()
    max_iter = 24
    max_steps = 400
    max_depth = 8
    STACK_JUNK = 96

    def __init__(self, fam, prog, march="x86_64", tags=None):
        self.fam = fam
        self.prog = prog
        self.march = march
        self.model = MODELS[march]
        tags = tags or dict(ops=c01fam.ops_of(prog), types=[])
        self.tags = tags
        text = _one_line(prog)
        self.name = (f"c01.{fam}[{march}|{text[:150]}] ops=,{','.join(tags['ops'])}, "
                     f"types=,{','.join(map(str, tags['types']))},")
        self.params = dict(fam=fam, prog=prog, march=march, tags=tags)
        self._mod = None
        cp.check_program(prog)           # generator discipline (outside the subset = harness error)

    # -- real code: compile once ---------------------------------------------------------------------
    def module(self):
        if self._mod is None:
            from ppci.api import c_to_ir, get_arch
            from ppci.common import CompilerError
            logging.disable(logging.CRITICAL)
            self._check_model(get_arch(self.march).info)
            src = cp.render_program(self.prog)
            try:
                self._mod = ("ok", c_to_ir(io.StringIO(src), self.march))
            except CompilerError as e:
                self._mod = ("compiler-error", str(e.msg)[:80])
            except (core.Abort, core.PathCut, core.EngineError):
                raise
            except Exception as e:      # noqa
                self._mod = ("internal-error", type(e).__name__)
        return self._mod

    def _check_model(self, info):
        M = self.model
        assert info.get_size("int") == M.size("int"), "data model: int"
        assert max(info.get_size("int"), info.get_size("long")) == M.size("long"), "data model: long"
        assert info.get_size("ptr") == M.ptr_bytes, "data model: ptr"
        # alignments are the target ABI's choice: the model's table must be the one the front end works with
        from ppci.lang.c import CContext, COptions
        from ppci.lang.c.nodes.types import BasicType
        ctx = CContext(COptions(), info)
        for t, tid in (("char", BasicType.CHAR), ("short", BasicType.SHORT), ("int", BasicType.INT), ("long", BasicType.LONG),
                       ("llong", BasicType.LONGLONG)):
            assert ctx.type_size_map[tid] == (M.size(t), M.align(t)), f"data model: size/alignment of {t}"
        assert info.get_alignment("ptr") == M.align("ptr"), "data model: ptr alignment"

    def inputs(self, mk):
        st, m = self.module()
        if st != "ok":
            return dict(status=st, detail=m)
        inp = _tv.declare_inputs(mk, m, "f", ptr_bits=self.model.ptr_bits)
        inp["status"] = "ok"
        # arbitrary initial contents of the first STACK_JUNK bytes of the IR machine's stack area: automatic objects
        # start with indeterminate values, so the result of a defined C program must not depend on them
        inp["stk"] = [mk.int(f"stk[{k}]", 0, 255) for k in range(self.STACK_JUNK)]
        # argument values in the reading of their C type, for known-finding regions: a0, a1, a2
        f = cp.CSem(self.model, self.prog).funcs["f"]
        for k, ((kind, v), (pn, pt)) in enumerate(zip(inp["args"], f[2])):
            if kind == "int":
                inp[f"a{k}"] = v
                inp[pn] = v
        return inp

    # -- both semantics ------------------------------------------------------------------------------
    def run(self, inp):
        if inp["status"] != "ok":
            return dict(status=inp["status"], detail=inp["detail"])
        M = self.model
        mod = self.module()[1]
        if sys.getprofile() is not None:
            # evidence: let the driver's function tracer (first path of the first program of a batch) see the real
            # front end at work; the module used below is the one compiled once in module()
            from ppci.api import c_to_ir
            c_to_ir(io.StringIO(cp.render_program(self.prog)), self.march)
        fir = _tv.find_function(mod, "f")
        fc = [x for x in self.prog["funcs"] if x[0] == "f"][0]
        # signature agreement (widths); a mismatch makes the results incomparable = violation of "returns"
        sig_ok = len(fir.arguments) == len(fc[2])
        argv = []
        for (kind, v), (pn, pt), pa in zip(inp["args"], fc[2], fir.arguments):
            pt = cp.T(pt)
            if cp.is_ptr(pt):
                sig_ok = sig_ok and kind == "ptr"
                argv.append(v)
            else:
                sig_ok = sig_ok and kind == "int" and irsem.bits_of(pa.ty, M.ptr_bits) == M.bits(pt)
                argv.append(v)
        if not sig_ok:
            return dict(status="signature-mismatch", detail="")
        # 1. reference C semantics; its undefined-behaviour predicate is the premise
        # object sizes must agree (sizeof is observable); where they do not, the C semantics still runs on the common
        # prefix (a missing tail can only be trailing padding if the field offsets agree, which "memory" then checks)
        sizes = cp.CSem(M, self.prog)
        glob = {}
        layout_ok = True
        for name, t, init in self.prog.get("globals", []):
            n = sizes.sizeof(cp.T(t))
            var = [v for v in mod.variables if v.name == name]
            if not var or var[0].amount != n:
                layout_ok = False
            if name in inp["glob"]:
                bs = list(inp["glob"][name])
                glob[name] = (bs + [0] * n)[:n]
        sem = cp.CSem(M, self.prog, ext_results=inp["ext"], init_globals=glob, buffers=inp["bufs"],
                      max_iter=self.max_iter, max_depth=self.max_depth)
        try:
            rc = sem.run("f", argv)
        except cp.StepLimit as e:
            raise core.PathCut(str(e))
        # 2. reference IR semantics of the front end's output
        try:
            s, ri = self.run_ir(mod, inp)
        except irsem.Unsupported as e:
            return dict(status="ir-unsupported", detail=str(e)[:100])
        except core.PathCut:
            # the C program has terminated (within the unwinding bound) but the IR is still running after max_steps
            # instructions / max call depth: on the inputs of this path the front end's output does not terminate
            # the way the program does (an infinite loop shows up here)
            if self.max_steps < 60 + 28 * sem.iters:
                raise          # the C program itself ran long: a cut path (inconclusive), not a verdict
            self._assume(sem.defined())
            return dict(status="ir-step-limit", detail=f"{sem.iters} loop iterations in C")
        # the premise: the C program is defined on this path (assumed last, so that the branch feasibility queries of
        # both executions do not carry the overflow predicates; a path without any defined input is dropped)
        self._assume(sem.defined())
        out = dict(status="ok")
        # returned value
        rt = cp.T(fc[1])
        if rt == "void":
            out["ret"] = [True, 0, 0] if ri is None else [False, 0, 0]
        elif ri is None or rc is None or ri.size() != rc.size():
            out["ret"] = [False, 0, 0]
        else:
            out["ret"] = [True, _tv.term_out(ri), _tv.term_out(rc)]
        # memory: globals (value bytes) and buffers
        vis = s.visible_memory()
        mem = []
        shape_ok = True
        for name, t, init in self.prog.get("globals", []):
            if name not in vis:
                shape_ok = False
                continue
            for k, b in sem.global_bytes(name):
                if k >= len(vis[name]):
                    shape_ok = False
                    continue
                mem.append([f"{name}[{k}]", _tv.term_out(vis[name][k]), _tv.term_out(b)])
        for name in inp["bufs"]:
            for k, b in enumerate(sem.buffer_bytes(name)):
                mem.append([f"{name}[{k}]", _tv.term_out(vis[name][k]), _tv.term_out(b)])
        out["mem_shape"] = shape_ok
        out["layout"] = layout_ok
        out["mem"] = mem
        # external call trace
        t1 = [(n, [(a.size(), _tv.term_out(a)) for a in args]) for n, args in s.trace]
        t2 = [(n, [(a.size(), _tv.term_out(a)) for a in args]) for n, args in sem.trace]
        out["trace_ir"] = [[n, [list(a) for a in args]] for n, args in t1]
        out["trace_c"] = [[n, [list(a) for a in args]] for n, args in t2]
        out["ir_defined"] = _tv.term_out(s.premise())
        return out

    def run_ir(self, mod, inp):
        """reference IR semantics of function f (as props/_tv.run_ref, with this harness' bounds)"""
        pb = self.model.ptr_bits
        s = irsem.IrSem(mod, ptr_bits=pb, ext_results=inp["ext"], max_steps=self.max_steps, max_depth=self.max_depth + 1,
                        init_globals=inp["glob"], buffers=inp["bufs"])
        for k, b in enumerate(inp["stk"]):
            s.mem = z3.Store(s.mem, z3.BitVecVal(s.stack_base + k, pb), irsem.bvv(b, 8))
        f = _tv.find_function(mod, "f")
        argv = []
        for (kind, v), p in zip(inp["args"], f.arguments):
            if kind == "ptr":
                argv.append(z3.BitVecVal(s.buf_addr[v], pb))
            else:
                argv.append(irsem.bvv(v, irsem.bits_of(p.ty, pb)))
        try:
            r = s.call(f, argv)
        except irsem.StepLimit as e:
            raise core.PathCut(str(e))
        return s, r

    @staticmethod
    def _assume(cond):
        c = z3.simplify(cond)
        if z3.is_true(c):
            return
        if z3.is_false(c):
            raise core.Abort()
        if core.ENG is None:
            raise irsem.Unsupported("symbolic premise without engine")
        core.ENG.assume(SymBool(c))

    # -- the property --------------------------------------------------------------------------------
    def post(self, inp, out):
        if not out.ok:
            return {"harness-ran": False}
        v = out.value
        st = v["status"]
        if st == "compiler-error":
            # the front end rejects the program with a diagnostic: outside "ppci's supported subset" (counted)
            return {"not-compiled(" + v["detail"][:40] + ")": True}
        if st == "internal-error":
            return {"front-end-crash(" + v["detail"] + ")": False}
        if st == "signature-mismatch":
            return {"returns": False}
        if st == "ir-unsupported":
            return {"not-comparable(" + v["detail"][:40] + ")": True}
        if st == "ir-step-limit":
            return {"terminates": False}
        ok, ri, rc = v["ret"]
        posts = {"returns": (ri == rc) if ok else False}
        conds = [a == b for _, a, b in v["mem"]]
        posts["memory"] = (sym_and(*conds) if conds else True) if v["mem_shape"] else False
        t1, t2 = v["trace_ir"], v["trace_c"]
        if [n for n, _ in t1] != [n for n, _ in t2] or any(len(a) != len(b) or any(x[0] != y[0] for x, y in zip(a, b))
                                                            for (_, a), (_, b) in zip(t1, t2)):
            posts["calls"] = False
        else:
            conds = [x[1] == y[1] for (_, a), (_, b) in zip(t1, t2) for x, y in zip(a, b)]
            posts["calls"] = sym_and(*conds) if conds else True
        posts["ir-defined"] = v["ir_defined"]
        if not v["layout"]:
            posts["layout"] = False          # sizeof of a global object differs from the data model's layout
        return posts


def mk_prog(fam, prog, march="x86_64", tags=None):
    return ProgHarness(fam, prog, march, tags)


# ---------------------------------------------------------------------------------------------------
_SUM = ("obligations", "discharged", "validated", "reached", "twin_violated")


def mk_batch(specs, tag=""):
    """custom job: one harness per program, results merged.  spec = [family, program, march, tags]"""
    known = load_known(os.path.join(ROOT, "known_findings.json"), PROPERTY)
    res = dict(harness=f"batch{tag}[{len(specs)} programs]", violations=[], known_hits=[], inconclusive=[],
               errors=[], funcs=[], samples=[], stats={}, solver={}, outcomes={}, exhaustive=True, nontrivial=0,
               wall_s=0.0, programs=0, disagreements_checked=0, **{k: 0 for k in _SUM})
    funcs = set()
    for n, (fam, prog, march, tags) in enumerate(specs):
        try:
            h = ProgHarness(fam, prog, march, tags)
        except cp.Unsupported as e:
            res["errors"].append(dict(kind="generator-outside-subset", harness=f"c01.{fam}", error=str(e)))
            continue
        r = run_harness(h, known, want_trace=(n < 1))
        if fam == "expr/deep" and any(e.get("kind") == "vacuous" for e in r.get("errors", [])):
            # a sampled tree that is undefined for every input (e.g. a shift by a constant >= width): nothing to claim
            r["errors"] = [e for e in r["errors"] if e.get("kind") != "vacuous"]
            res["outcomes"]["sampled-program-never-defined"] = res["outcomes"].get("sampled-program-never-defined", 0) + 1
        else:
            res["programs"] += 1
        res["disagreements_checked"] += r.get("obligations", 0)
        for k in _SUM:
            res[k] += r.get(k, 0)
        for k in ("violations", "known_hits", "inconclusive", "errors"):
            res[k] += r.get(k, [])
        funcs.update(r.get("funcs", []))
        if len(res["samples"]) < 2:
            for s in r.get("samples", [])[:1]:
                s = dict(s)
                s["program"] = _one_line(prog)[:300]
                res["samples"].append(s)
        for k, v in r.get("stats", {}).items():
            res["stats"][k] = res["stats"].get(k, 0) + v
        for k, v in r.get("solver", {}).items():
            res["solver"][k] = res["solver"].get(k, 0) + v
        for k, v in r.get("outcomes", {}).items():
            res["outcomes"][k] = res["outcomes"].get(k, 0) + v
        res["exhaustive"] = res["exhaustive"] and r.get("exhaustive", False)
        if r.get("stats", {}).get("paths", 0) > 1:
            res["nontrivial"] += 1
        res["wall_s"] += r.get("wall_s", 0.0)
        if (len(res["violations"]) >= 5 or len(res["errors"]) >= 5) and not os.environ.get("VERIF_C01_ALL"):
            res["exhaustive"] = False
            break
    res["funcs"] = sorted(funcs)
    return res


def _cost(spec):
    fam, prog, march, tags = spec
    ops = tags["ops"]
    c = 1.0
    if fam.startswith("stmt"):
        c += 2
    for o in ops:
        if o in ("mul", "div", "mod", "asg_mul", "asg_div", "asg_mod"):
            c += 2
        if o.startswith("cmp_") or o.startswith("log_") or o == "cond":
            c += 0.5
    return c


def select(tier, seed):
    specs = []
    if tier == "quick":
        specs += [[f, p, "x86_64", t] for f, p, t in c01fam.family("quick", seed, "x86_64")]
    else:
        specs += [[f, p, "x86_64", t] for f, p, t in c01fam.family("thorough", seed, "x86_64", primary=True)]
        for m in ("arm", "msp430"):
            specs += [[f, p, m, t] for f, p, t in c01fam.family("thorough", seed, m, primary="wide")]
        specs += [[f, p, "riscv", t] for f, p, t in c01fam.family("thorough", seed, "riscv", primary=False)]
    return specs


def batches(specs, nbatch):
    specs = sorted(specs, key=_cost, reverse=True)
    bins = [[] for _ in range(nbatch)]
    load = [0.0] * nbatch
    for s in specs:
        k = load.index(min(load))
        bins[k].append(s)
        load[k] += _cost(s)
    return [b for b in bins if b]


def jobs(tier, seed):
    specs = select(tier, seed)
    only = os.environ.get("VERIF_ONLY")
    if only:
        specs = [s for s in specs if only in s[0] or only in _one_line(s[1]) or only in repr(s[3]) or only == "@" + s[2]]
    nb = 48 if tier == "quick" else 640
    return [("mk_batch", dict(specs=b, tag=f"#{i}")) for i, b in enumerate(batches(specs, nb))]
