"""C12  Linker places sections correctly and preserves their contents.

Real code executed on proxies: ppci.binutils.linker.link / Linker.{link, merge_objects, inject_object,
merge_global_symbol, inject_symbol, layout_sections, check_undefined_symbols, do_relocations},
ppci.binutils.objectfile.{ObjectFile, Section, Symbol, RelocationEntry, Image.data/size},
ppci.binutils.layout.{Layout, Memory, Section, SectionData, Align, SymbolDefinition, EntrySymbol}.

One harness = one *shape* (concrete): number of objects, section names / lengths per object, symbol
names / bindings / defined-or-undefined, relocation sites, the layout script (memories, order of
SECTION / ALIGN / DEFINESYMBOL / SECTIONDATA items), partial / staged (partial link of a prefix, result
linked again) / entry / extra symbols.
Symbolic per shape (decided by the solver): every data byte of every input section, every memory
LOCATION and SIZE, every symbol offset, the values of extra symbols, and the alignment of up to two
sections / ALIGN directives marked "S" (domain {1,2,4,8,16}; {4,8,16} for sections holding an absaddr32 site).

Obligations (per explored path of the real linker; see LinkHarness.post):
  duplicate-or-undefined-global-is-an-error   shape has a multiply defined global, or (final link) an undefined one
                                              => CompilerError on every path
  fails-only-when-stated                      any other CompilerError => some memory cannot hold its inputs
                                              even with least padding (ref/linkspec.layout_positions)
  input-bytes-preserved / sectiondata-copy-preserved   output bytes == input bytes outside relocation sites
  pieces-aligned                              final address of every input piece is a multiple of its alignment
  inside-declared-memory                      LOCATION <= address, address + size <= LOCATION + SIZE
  sections-disjoint                           sections of one image pairwise disjoint
  layout-symbols-and-align-directives         DEFINESYMBOL = location counter, ALIGN honoured, order kept
  image-data-holds-sections, one-image-per-memory      Image.data has every section at address - image.address
  symbols-at-section-address-plus-offset      every (global/local/extra) symbol; partial links: section relative
  absaddr32-site-holds-symbol-address         symbol-id mapping and re-based site offsets (final links)
  partial-link-relocations-rebased, partial-link-has-no-images
"""
import os
import random
from symx.harness import Harness
from symx import core
from symx.core import sym_and, sym_or, sym_not, ite, implies
from ref import linkspec as LS

PROPERTY = "C12"
LEVEL = "model_checking"
N_SHAPES = {"quick": 64, "thorough": 600}
BOUNDS = {
    "quick": {"shapes": "15 hand-written + seeded sample up to 64 (family: 1-3 objects, 1-3 sections each from "
                        "{code,data,bss}, lengths 0-9, 0-3 symbols per object, 0-2 absaddr32 sites per object, "
                        "0-2 memories with SECTION/ALIGN/DEFINESYMBOL/SECTIONDATA items, partial, staged, entry, extra symbols)",
              "memory LOCATION": "[0, 2**32-256] (two-memory shapes: one memory over all residues, the other a multiple of 16)", "memory SIZE": "[0, 2**32-1]", "section bytes": "every value",
              "symbol offset": "[0, section length]", "symbolic alignments": "{1,2,4,8,16}, at most 2 per shape",
              "extra symbol value": "[0, 2**32-1]"},
    "thorough": {"shapes": "15 hand-written + seeded sample up to 600 (same family)",
                 "memory LOCATION": "[0, 2**32-256] (two-memory shapes: one memory over all residues, the other a multiple of 16)", "memory SIZE": "[0, 2**32-1]", "section bytes": "every value",
                 "symbol offset": "[0, section length]", "symbolic alignments": "{1,2,4,8,16}, at most 2 per shape",
                 "extra symbol value": "[0, 2**32-1]"},
}
OUTSIDE = ["alignments that are not powers of two", "section lengths > 9, more than 3 objects",
           "layout text parsing (Layout.load), object (de)serialisation, libraries/archives, debug info",
           "the value written at a relocation site beyond 'absaddr32 holds the address of the referenced symbol' (C10/C11)",
           "one section name placed in two memories; layout symbol names that clash with '_$name_' pseudo sections"]
ASSUMPTIONS = ["piece offsets inside an output section follow ref/linkspec.merge_offsets (input order, each start rounded "
               "up to the piece's alignment) - gABI sh_addralign / GNU ld input-section semantics",
               "an output section has alignment >= 4 (ppci Section default) when deciding whether a memory is genuinely overfull",
               "absaddr32 sites are 4-aligned inside their section and live in sections aligned >= 4 (ppci asserts it)",
               "'fails with an error' = CompilerError for duplicate / undefined / overfull"]
SHIMS_USED = ["isinstance", "int", "range", "bytes", "bytearray", "bool"]
JOB_TIMEOUT = {"quick": 900, "thorough": 3600}

SEC_NAMES = ["code", "data", "bss"]
ALIGNS = [1, 2, 4, 8, 16]
MAXLOC = (1 << 32) - 256
_ARCH = {}


def _arch():
    if "a" not in _ARCH:
        from ppci.api import get_arch
        _ARCH["a"] = get_arch("arm")
    return _ARCH["a"]


def _al_domain(mk, name, spec):
    """alignment value: concrete int, or symbolic 'S' (1..16) / 'S4' (4..16)"""
    if spec == "S":
        a = mk.int(name, 1, 16)
        mk.assume(sym_or(a == 1, a == 2, a == 4, a == 8, a == 16))
        return int(a)     # small declared domain: the engine forks over the feasible values (recorded in the path)
    if spec == "S4":
        a = mk.int(name, 4, 16)
        mk.assume(sym_or(a == 4, a == 8, a == 16))
        return int(a)
    return int(spec)


def _smax(a, b):
    return ite(a > b, a, b)


class LinkHarness(Harness):
    shim_modules = ("ppci.binutils.linker", "ppci.binutils.objectfile", "ppci.binutils.layout",
                    "ppci.arch.encoding", "ppci.arch.token", "ppci.utils.bitfun", "ppci.arch.data_instructions")
    W = 48
    max_paths = 6000
    max_decisions = 600
    timeout_ms = 20000

    def __init__(self, shape, idx=0):
        self.shape = shape
        self.idx = idx
        self.name = f"link[{idx}:{describe(shape)}]"
        self.params = dict(shape=shape, idx=idx)

    # ------------------------------------------------------------------ inputs
    def inputs(self, mk):
        sh = self.shape
        objs = []
        for oi, o in enumerate(sh["objs"]):
            data, al, symv = [], [], []
            for si, s in enumerate(o["secs"]):
                data.append(mk.bytes(f"o{oi}.{s['n']}", s["len"]))
                al.append(_al_domain(mk, f"o{oi}.{s['n']}.al", s["al"]))
            for yi, y in enumerate(o["syms"]):
                if y["s"] is None:
                    symv.append(None)
                else:
                    symv.append(mk.int(f"o{oi}.sym{yi}.off", 0, o["secs"][y["s"]]["len"]))
            objs.append(dict(data=data, al=al, symv=symv))
        mems = []
        for mi, m in enumerate(sh.get("layout") or []):
            loc = mk.int(f"m{mi}.loc", 0, MAXLOC)
            if m.get("fix"):
                mk.assume(loc % 16 == 0)     # see BOUNDS: only one memory per shape ranges over all residues
            size = mk.int(f"m{mi}.size", 0, (1 << 32) - 1)
            als = {}
            for k, it in enumerate(m["inputs"]):
                if it[0] == "align":
                    als[k] = _al_domain(mk, f"m{mi}.align{k}", it[1])
            mems.append(dict(loc=loc, size=size, al=als))
        extra = {n: mk.int(f"extra.{n}", 0, (1 << 32) - 1) for n in sh.get("extra", [])}
        return dict(objs=objs, mems=mems, extra=extra)

    # ------------------------------------------------------------------ run
    def _build_objects(self, inp):
        from ppci.binutils.objectfile import ObjectFile, RelocationEntry
        arch = _arch()
        objs = []
        for oi, o in enumerate(self.shape["objs"]):
            obj = ObjectFile(arch)
            io = inp["objs"][oi]
            for si, s in enumerate(o["secs"]):
                sec = obj.get_section(s["n"], create=True)
                sec.alignment = io["al"][si]
                sec.add_data(io["data"][si])
            for yi, y in enumerate(o["syms"]):
                if y["s"] is None:
                    obj.add_symbol(yi, y["n"], y["b"], None, None, "object", 0)
                else:
                    obj.add_symbol(yi, y["n"], y["b"], io["symv"][yi], o["secs"][y["s"]]["n"], "object", 0)
            for r in o["rels"]:
                obj.add_relocation(RelocationEntry("absaddr32", r["sym"], o["secs"][r["s"]]["n"], r["off"], 0))
            objs.append(obj)
        return objs

    def _build_layout(self, inp):
        from ppci.binutils import layout as L
        sh = self.shape
        if sh.get("layout") is None:
            return None
        lay = L.Layout()
        for mi, m in enumerate(sh["layout"]):
            mem = L.Memory(m["name"])
            mem.location = inp["mems"][mi]["loc"]
            mem.size = inp["mems"][mi]["size"]
            for k, it in enumerate(m["inputs"]):
                if it[0] == "sec":
                    mem.add_input(L.Section(it[1]))
                elif it[0] == "align":
                    mem.add_input(L.Align(inp["mems"][mi]["al"][k]))
                elif it[0] == "def":
                    mem.add_input(L.SymbolDefinition(it[1]))
                elif it[0] == "secdata":
                    mem.add_input(L.SectionData(it[1]))
            lay.add_memory(mem)
        if sh.get("layout_entry"):
            lay.entry = L.EntrySymbol(sh["layout_entry"])
        return lay

    @staticmethod
    def _snap(out):
        secs = {}
        for s in out.sections:
            secs[s.name] = [s.address, s.alignment, list(s.data)]
        syms = []
        for y in out.symbols:
            absv = None
            if y.value is not None:
                absv = out.get_symbol_id_value(y.id)
            syms.append([y.name, y.binding, y.section, y.value, absv])
        imgs = []
        for im in out.images:
            try:
                d = list(im.data)
            except ValueError:
                d = "overlap"
            imgs.append([im.name, im.address, [s.name for s in im.sections], d])
        rels = [[r.reloc_type, r.symbol_id, r.section, r.offset] for r in out.relocations]
        entry = out.entry_symbol_id
        return dict(secs=secs, syms=syms, imgs=imgs, rels=rels, entry=entry)

    def run(self, inp):
        import logging
        logging.getLogger("linker").setLevel(logging.CRITICAL)
        from ppci.binutils.linker import link
        from ppci.common import CompilerError
        sh = self.shape
        objs = self._build_objects(inp)
        lay = self._build_layout(inp)
        stage = sh.get("stage", 0)
        res = dict(status="ok", exc=None, where=None, stage=None)
        final_inputs = objs
        if stage:
            try:
                p = link(objs[:stage], partial_link=True)
            except CompilerError:
                res.update(status="exc", exc="CompilerError", where="stage")
                return res
            res["stage"] = {s.name: [s.size, s.alignment] for s in p.sections}
            final_inputs = [p] + objs[stage:]
        kw = {}
        if sh.get("extra"):
            kw["extra_symbols"] = {n: inp["extra"][n] for n in sh["extra"]}
        if sh.get("entry"):
            kw["entry"] = sh["entry"]
        try:
            out = link(final_inputs, layout=lay, partial_link=bool(sh.get("partial")), **kw)
        except CompilerError:
            res.update(status="exc", exc="CompilerError", where="final")
            return res
        res.update(self._snap(out))
        return res

    # ------------------------------------------------------------------ expectations from the shape
    def _expect(self):
        """(dup, undef): does the shape contain a multiply defined / an undefined global symbol"""
        sh = self.shape
        partial = bool(sh.get("partial"))
        defs = {}
        refs = set()
        for o in sh["objs"]:
            for y in o["syms"]:
                if y["b"] != "global":
                    continue
                if y["s"] is None:
                    refs.add(y["n"])
                else:
                    defs[y["n"]] = defs.get(y["n"], 0) + 1
        for n in sh.get("extra", []):
            defs[n] = defs.get(n, 0) + 1
        if not partial:
            for m in sh.get("layout") or []:
                for it in m["inputs"]:
                    if it[0] == "def":
                        defs[it[1]] = defs.get(it[1], 0) + 1
        ent = sh.get("entry") or sh.get("layout_entry")
        if ent:
            refs.add(ent)
        dup = any(c > 1 for c in defs.values())
        undef = (not partial) and any(n not in defs for n in refs)
        return dup, undef

    def _pieces(self, inp, stage_info):
        """reference placement: {secname: {"al": out alignment (>=4), "size": total, "at": {(oi,si): offset}}}"""
        sh = self.shape
        stage = sh.get("stage", 0)
        n = len(sh["objs"])

        def merged(obj_ids):
            out = {}
            for oi in obj_ids:
                for si, s in enumerate(sh["objs"][oi]["secs"]):
                    out.setdefault(s["n"], []).append((oi, si, s["len"], inp["objs"][oi]["al"][si]))
            return out

        res = {}
        if stage:
            first = merged(range(stage))
            rest = merged(range(stage, n))
            names = list(first) + [k for k in rest if k not in first]
            for name in names:
                at = {}
                pcs = []
                if name in first:
                    offs1, tot1 = LS.merge_offsets([(ln, al) for (_, _, ln, al) in first[name]])
                    if stage_info is not None:
                        psize, pal = stage_info[name]
                    else:
                        psize = tot1
                        pal = 4
                        for (_, _, _, al) in first[name]:
                            pal = _smax(pal, al)
                    pcs.append(("P", first[name], offs1, psize, pal))
                for (oi, si, ln, al) in rest.get(name, []):
                    pcs.append(("O", (oi, si), None, ln, al))
                offs2, tot2 = LS.merge_offsets([(p[3], p[4]) for p in pcs])
                oal = 4
                for p, o2 in zip(pcs, offs2):
                    oal = _smax(oal, p[4])
                    if p[0] == "P":
                        for (oi, si, _, _), o1 in zip(p[1], p[2]):
                            at[(oi, si)] = o2 + o1
                    else:
                        at[p[1]] = o2
                res[name] = dict(al=oal, size=tot2, at=at)
        else:
            for name, lst in merged(range(n)).items():
                offs, tot = LS.merge_offsets([(ln, al) for (_, _, ln, al) in lst])
                oal = 4
                at = {}
                for (oi, si, _, al), o in zip(lst, offs):
                    oal = _smax(oal, al)
                    at[(oi, si)] = o
                res[name] = dict(al=oal, size=tot, at=at)
        return res

    def _reloc_cover(self):
        """{(oi,si): set of byte offsets covered by a relocation}"""
        cov = {}
        for oi, o in enumerate(self.shape["objs"]):
            for r in o["rels"]:
                cov.setdefault((oi, r["s"]), set()).update(range(r["off"], r["off"] + 4))
        return cov

    def _overfull_ref(self, inp, ref):
        """some memory cannot hold its inputs even with least padding"""
        sh = self.shape
        conds = []
        for mi, m in enumerate(sh.get("layout") or []):
            items = []
            for k, it in enumerate(m["inputs"]):
                if it[0] == "sec":
                    r = ref.get(it[1])
                    items.append(("sec", r["size"], r["al"]) if r else ("sec", 0, 4))
                elif it[0] == "align":
                    items.append(("align", inp["mems"][mi]["al"][k]))
                elif it[0] == "def":
                    items.append(("def",))
                elif it[0] == "secdata":
                    r = ref.get(it[1])
                    items.append(("data", r["size"] if r else 0))
            _, end = LS.layout_positions(inp["mems"][mi]["loc"], items)
            conds.append(end > inp["mems"][mi]["loc"] + inp["mems"][mi]["size"])
        return sym_or(*conds) if conds else False

    # ------------------------------------------------------------------ post
    def post(self, inp, out):
        sh = self.shape
        if not out.ok:
            # anything but the CompilerError handled in run(): never acceptable for these inputs
            return {"no-unexpected-exception": False}
        v = out.value
        partial = bool(sh.get("partial"))
        dup, undef = self._expect()
        ref = self._pieces(inp, v.get("stage"))
        if dup or undef:
            return {"duplicate-or-undefined-global-is-an-error": v["status"] == "exc"}
        if v["status"] == "exc":
            if v["where"] == "stage" or sh.get("layout") is None:
                return {"fails-only-when-stated": False}
            return {"fails-only-when-stated": self._overfull_ref(inp, ref)}
        secs, syms, imgs = v["secs"], v["syms"], v["imgs"]
        ob = {}
        cover = self._reloc_cover()

        # -- bytes of every input section, at its place in the output section of its name
        conds = []
        for name, r in ref.items():
            if name not in secs:
                conds.append(False)
                continue
            odata = secs[name][2]
            for (oi, si), off in r["at"].items():
                off = int(off)
                idata = list(inp["objs"][oi]["data"][si])
                if off + len(idata) > len(odata):
                    conds.append(False)
                    continue
                skip = cover.get((oi, si), ())
                for k, b in enumerate(idata):
                    if k not in skip:
                        conds.append(odata[off + k] == b)
        ob["input-bytes-preserved"] = sym_and(*conds) if conds else True

        # -- SECTIONDATA copies hold the same bytes
        placed = {}      # section name -> memory index (final links with layout)
        if not partial and sh.get("layout"):
            conds = []
            for mi, m in enumerate(sh["layout"]):
                for it in m["inputs"]:
                    if it[0] == "sec":
                        placed[it[1]] = mi
                    if it[0] == "secdata":
                        cname = f"_${it[1]}_"
                        placed[cname] = mi
                        if cname not in secs:
                            conds.append(False)
                            continue
                        cdata = secs[cname][2]
                        r = ref.get(it[1])
                        for (oi, si), off in (r["at"].items() if r else ()):
                            off = int(off)
                            idata = list(inp["objs"][oi]["data"][si])
                            if off + len(idata) > len(cdata):
                                conds.append(False)
                                continue
                            skip = cover.get((oi, si), ())
                            for k, b in enumerate(idata):
                                if k not in skip:
                                    conds.append(cdata[off + k] == b)
            ob["sectiondata-copy-preserved"] = sym_and(*conds) if conds else True

            # -- alignment of every input piece at its final address
            conds = []
            for name, r in ref.items():
                if name in placed and name in secs:
                    addr = secs[name][0]
                    for (oi, si), off in r["at"].items():
                        conds.append(LS.aligned(addr + off, inp["objs"][oi]["al"][si]))
            ob["pieces-aligned"] = sym_and(*conds) if conds else True

            # -- containment in the declared memory, pairwise disjointness inside one image
            conds = []
            dis = []
            for mi, m in enumerate(sh["layout"]):
                loc, size = inp["mems"][mi]["loc"], inp["mems"][mi]["size"]
                here = [n for n, k in placed.items() if k == mi]
                for n in here:
                    if n not in secs:
                        conds.append(False)
                        continue
                    a, ln = secs[n][0], len(secs[n][2])
                    conds.append(sym_and(loc <= a, a + ln <= loc + size))
                for i in range(len(here)):
                    for j in range(i + 1, len(here)):
                        if here[i] in secs and here[j] in secs:
                            dis.append(LS.disjoint(secs[here[i]][0], len(secs[here[i]][2]),
                                                   secs[here[j]][0], len(secs[here[j]][2])))
            ob["inside-declared-memory"] = sym_and(*conds) if conds else True
            ob["sections-disjoint"] = sym_and(*dis) if dis else True

            # -- ALIGN directives and DEFINESYMBOL positions (location counter semantics, relative to
            #    the real addresses of the neighbouring sections)
            conds = []
            symabs = {(y[0], y[1]): y[4] for y in syms if y[1] == "global"}
            for mi, m in enumerate(sh["layout"]):
                cur = inp["mems"][mi]["loc"]      # the location counter
                for k, it in enumerate(m["inputs"]):
                    if it[0] == "sec":
                        if it[1] in secs:
                            conds.append(secs[it[1]][0] >= cur)
                            cur = secs[it[1]][0] + len(secs[it[1]][2])
                    elif it[0] == "secdata":
                        n = f"_${it[1]}_"
                        if n in secs:
                            conds.append(secs[n][0] == cur)
                            cur = secs[n][0] + len(secs[n][2])
                    elif it[0] == "align":
                        a = inp["mems"][mi]["al"][k]
                        cur = LS.roundup(cur, a)
                        # the next section / symbol must be aligned to a
                        for it2 in m["inputs"][k + 1:k + 2]:
                            if it2[0] == "sec" and it2[1] in secs:
                                conds.append(LS.aligned(secs[it2[1]][0], a))
                    elif it[0] == "def":
                        sv = symabs.get((it[1], "global"))
                        conds.append(False if sv is None else sv == cur)
            ob["layout-symbols-and-align-directives"] = sym_and(*conds) if conds else True

            # -- Image.data: every section's bytes at address - image.address
            conds = []
            for (iname, iaddr, snames, idata) in imgs:
                if idata == "overlap":
                    conds.append(False)
                    continue
                for n in snames:
                    a, sd = secs[n][0], secs[n][2]
                    o = int(a - iaddr)
                    if o < 0 or o + len(sd) > len(idata):
                        conds.append(False)
                        continue
                    for k, b in enumerate(sd):
                        conds.append(idata[o + k] == b)
            ob["image-data-holds-sections"] = sym_and(*conds) if conds else True
            ob["one-image-per-memory"] = [im[0] for im in imgs] == [m["name"] for m in sh["layout"]]

        # -- symbols
        conds = []
        seen_local = {}
        out_locals = {}
        for y in syms:
            if y[1] != "global":
                out_locals.setdefault((y[0], y[1]), []).append(y)
        out_globals = {y[0]: y for y in syms if y[1] == "global"}
        resolved = {}     # (oi, yi) -> absolute value of the output symbol the input symbol maps to
        for oi, o in enumerate(sh["objs"]):
            for yi, y in enumerate(o["syms"]):
                if y["b"] == "global":
                    oy = out_globals.get(y["n"])
                else:
                    k = seen_local.get((y["n"], y["b"]), 0)
                    seen_local[(y["n"], y["b"])] = k + 1
                    lst = out_locals.get((y["n"], y["b"]), [])
                    oy = lst[k] if k < len(lst) else None
                if oy is None:
                    conds.append(False)
                    continue
                resolved[(oi, yi)] = oy[4]
                if y["s"] is None:
                    continue
                sname = o["secs"][y["s"]]["n"]
                off = ref[sname]["at"][(oi, y["s"])]
                want = off + inp["objs"][oi]["symv"][yi]
                conds.append(oy[2] == sname)
                conds.append(oy[3] == want)
                if not partial and sname in secs:
                    conds.append(oy[4] == secs[sname][0] + want)
        for n in sh.get("extra", []):
            oy = out_globals.get(n)
            conds.append(False if oy is None else sym_and(oy[2] is None, oy[4] == inp["extra"][n]))
        ob["symbols-at-section-address-plus-offset"] = sym_and(*conds) if conds else True

        # -- absaddr32 sites hold the address of the symbol they refer to (symbol id mapping, site offset)
        if not partial:
            conds = []
            for oi, o in enumerate(sh["objs"]):
                for r in o["rels"]:
                    sname = o["secs"][r["s"]]["n"]
                    off = int(ref[sname]["at"][(oi, r["s"])]) + r["off"]
                    sval = resolved.get((oi, r["sym"]))
                    odata = secs[sname][2] if sname in secs else []
                    if sval is None or off + 4 > len(odata):
                        conds.append(False)
                        continue
                    want = LS.le_bytes(sval, 4)
                    for k in range(4):
                        conds.append(odata[off + k] == want[k])
            ob["absaddr32-site-holds-symbol-address"] = sym_and(*conds) if conds else True
        else:
            # partial link: relocations are carried over, re-based to the merged section
            conds = []
            want = []
            for oi, o in enumerate(sh["objs"]):
                for r in o["rels"]:
                    sname = o["secs"][r["s"]]["n"]
                    want.append((sname, int(ref[sname]["at"][(oi, r["s"])]) + r["off"], resolved.get((oi, r["sym"]))))
            got = v["rels"]
            if len(got) != len(want):
                conds.append(False)
            else:
                for (t, sid, sec, off), (wsec, woff, _) in zip(got, want):
                    conds.append(sym_and(t == "absaddr32", sec == wsec, off == woff))
            ob["partial-link-relocations-rebased"] = sym_and(*conds) if conds else True
            ob["partial-link-has-no-images"] = len(imgs) == 0
        return ob


# ---------------------------------------------------------------------------------------------------
def describe(sh):
    o = "+".join("".join(f"{s['n'][0]}{s['len']}a{s['al']}" for s in ob["secs"]) for ob in sh["objs"])
    lay = "nolayout" if sh.get("layout") is None else "|".join(
        ",".join((it[0][0] if it[0] != "secdata" else "D") + (str(it[1])[:4]) for it in m["inputs"]) for m in sh["layout"])
    flags = ("P" if sh.get("partial") else "") + (f"S{sh['stage']}" if sh.get("stage") else "") + \
        ("E" if sh.get("entry") or sh.get("layout_entry") else "") + ("X" if sh.get("extra") else "")
    return f"{o};{lay};{flags}"


def S(n, ln, al=4):
    return dict(n=n, len=ln, al=al)


def Y(n, b, s):
    return dict(n=n, b=b, s=s)


def R(s, off, sym):
    return dict(s=s, off=off, sym=sym)


def O(secs, syms=(), rels=()):
    return dict(secs=list(secs), syms=list(syms), rels=list(rels))


def M(name, *inputs, fix=False):
    d = dict(name=name, inputs=[list(i) for i in inputs])
    if fix:
        d["fix"] = True
    return d


def hand_shapes():
    sh = []
    # 1 two objects, same-named sections with rising symbolic alignment, one memory
    sh.append(dict(objs=[O([S("code", 5, 4)], [Y("a", "global", 0)]),
                         O([S("code", 6, "S")], [Y("b", "global", 0), Y("a", "global", None)])],
                   layout=[M("flash", ("sec", "code"))]))
    # 2 three objects, alignments 1/2/S in one section, data in second memory, relocations both ways
    sh.append(dict(objs=[O([S("code", 8, 4), S("data", 3, 1)], [Y("f", "global", 0), Y("d0", "global", 1)], [R(0, 4, 1)]),
                         O([S("data", 5, 2), S("code", 4, 4)], [Y("d1", "global", 0), Y("f", "global", None)], [R(1, 0, 1)]),
                         O([S("data", 2, "S")], [Y("d2", "local", 0)])],
                   layout=[M("flash", ("sec", "code"), fix=True), M("ram", ("sec", "data"))]))
    # 3 duplicate global definition
    sh.append(dict(objs=[O([S("code", 4)], [Y("a", "global", 0)]), O([S("code", 4)], [Y("a", "global", 0)])],
                   layout=[M("flash", ("sec", "code"))]))
    # 4 undefined global, final link
    sh.append(dict(objs=[O([S("code", 4)], [Y("a", "global", None)], [R(0, 0, 0)])],
                   layout=[M("flash", ("sec", "code"))]))
    # 5 undefined global, partial link (allowed)
    sh.append(dict(objs=[O([S("code", 8)], [Y("a", "global", None), Y("l", "local", 0)], [R(0, 4, 0)]),
                         O([S("code", 3, 2)], [Y("l", "local", 0)])],
                   layout=None, partial=True))
    # 6 same-named locals in two objects + relocations against them
    sh.append(dict(objs=[O([S("data", 8)], [Y("l", "local", 0)], [R(0, 0, 0)]),
                         O([S("data", 8)], [Y("l", "local", 0)], [R(0, 4, 0)])],
                   layout=[M("ram", ("sec", "data"))]))
    # 7 layout with ALIGN (symbolic), DEFINESYMBOL resolving an undefined reference, two sections in one memory
    sh.append(dict(objs=[O([S("code", 5, 4), S("data", 3, 2)], [Y("end", "global", None), Y("a", "global", 1)], [R(0, 0, 0)])],
                   layout=[M("flash", ("sec", "code"), ("align", "S"), ("sec", "data"), ("def", "end"))]))
    # 8 SECTIONDATA copy into a second memory, symbols before and after
    sh.append(dict(objs=[O([S("data", 6, 4), S("code", 4)], [Y("v", "global", 0)], [R(1, 0, 0)]),
                         O([S("data", 3, 1)], [Y("w", "global", 0)])],
                   layout=[M("flash", ("sec", "code"), ("def", "ld"), ("secdata", "data"), ("def", "ld_end")),
                           M("ram", ("sec", "data"), fix=True)]))
    # 9 no layout at all, final link
    sh.append(dict(objs=[O([S("code", 4), S("data", 1, 1)], [Y("a", "global", 1)], [R(0, 0, 0)]),
                         O([S("data", 2, 2)], [Y("b", "local", 0)])], layout=None))
    # 10 staged: partial link of two objects, then final link with a third
    sh.append(dict(objs=[O([S("code", 5, 2)], [Y("a", "global", 0)]),
                         O([S("code", 3, "S")], [Y("b", "global", 0), Y("c", "global", None)]),
                         O([S("code", 8, 8)], [Y("c", "global", 0), Y("a", "global", None)], [R(0, 4, 1)])],
                   layout=[M("flash", ("sec", "code"))], stage=2))
    # 11 entry symbol undefined
    sh.append(dict(objs=[O([S("code", 4)], [Y("a", "global", 0)])], layout=[M("flash", ("sec", "code"))], entry="main"))
    # 12 entry symbol defined via layout script, extra symbol used by a relocation
    sh.append(dict(objs=[O([S("code", 8)], [Y("main", "global", 0), Y("io", "global", None)], [R(0, 4, 1)])],
                   layout=[M("flash", ("sec", "code"))], layout_entry="main", extra=["io"]))
    # 13 extra symbol clashes with a definition
    sh.append(dict(objs=[O([S("code", 4)], [Y("io", "global", 0)])], layout=[M("flash", ("sec", "code"))], extra=["io"]))
    # 14 layout symbol clashes with an object definition
    sh.append(dict(objs=[O([S("code", 4)], [Y("end", "global", 0)])], layout=[M("flash", ("sec", "code"), ("def", "end"))]))
    # 15 empty sections, section named in the layout but absent, section absent from the layout
    sh.append(dict(objs=[O([S("code", 0, "S"), S("data", 0, 8), S("bss", 2, 1)], [Y("a", "global", 0), Y("b", "global", 1)]),
                         O([S("code", 1, 1)], [Y("c", "global", 0)])],
                   layout=[M("flash", ("sec", "code"), ("sec", "data"), ("align", 8), ("def", "e")), M("ram", ("sec", "zz"), fix=True)]))
    return sh


def gen_shape(rng):
    n_obj = rng.choice([1, 2, 2, 2, 3, 3])
    mode = rng.choice(["clean"] * 7 + ["dup", "undef", "any"])
    link_mode = rng.choice(["layout"] * 7 + ["none", "partial", "partial"])
    budget = [rng.choice([1, 1, 1, 2])]      # symbolic alignments left

    def pick_al(reloc):
        if budget[0] > 0 and rng.random() < 0.45:
            budget[0] -= 1
            return "S4" if reloc else "S"
        return rng.choice([4, 8, 16] if reloc else [1, 2, 4, 4, 8, 16])

    objs = []
    gdefined = set()
    for oi in range(n_obj):
        k = rng.choice([1, 2, 2, 3])
        secs = []
        rels_wanted = []
        for n in rng.sample(SEC_NAMES, k):
            ln = rng.randint(0, 9)
            want_rel = ln >= 4 and rng.random() < 0.4
            secs.append(dict(n=n, len=ln, al=pick_al(want_rel)))
            if want_rel:
                rels_wanted.append(len(secs) - 1)
        syms = []
        for n in rng.sample(["a", "b", "c", "d"], rng.randint(0, 3)):
            b = "global" if rng.random() < 0.7 else "local"
            s = rng.randrange(len(secs))
            if b == "global" and rng.random() < 0.25:
                s = None
            syms.append(dict(n=n, b=b, s=s))
        if rels_wanted and not syms:
            syms.append(dict(n="a", b="global", s=rng.randrange(len(secs))))
        rels = []
        for si in rels_wanted:
            offs = [o for o in (0, 4) if o + 4 <= secs[si]["len"]]
            for off in rng.sample(offs, rng.randint(1, len(offs))):
                if len(rels) < 2:
                    rels.append(dict(s=si, off=off, sym=rng.randrange(len(syms))))
        objs.append(dict(secs=secs, syms=syms, rels=rels))
    # ---- make the symbol table fit the mode
    if mode in ("clean", "undef"):
        for o in objs:
            for y in o["syms"]:
                if y["b"] == "global" and y["s"] is not None:
                    if y["n"] in gdefined:
                        y["s"] = None            # later definitions become references
                    else:
                        gdefined.add(y["n"])
    else:
        for o in objs:
            for y in o["syms"]:
                if y["b"] == "global" and y["s"] is not None:
                    gdefined.add(y["n"])
    if mode == "dup":
        # force one duplicate
        if n_obj == 1:
            objs.append(dict(secs=[dict(n="code", len=4, al=4)], syms=[], rels=[]))
        name = "dupsym"
        for o in objs[:2]:
            o["syms"].append(dict(n=name, b="global", s=0))
    undefined = sorted({y["n"] for o in objs for y in o["syms"] if y["b"] == "global" and y["s"] is None} - gdefined)
    sh = dict(objs=objs)
    extra = []
    lay_defs = []
    if mode == "clean" and link_mode != "partial":
        # resolve every dangling reference: by an extra symbol or by the layout script
        for n in undefined:
            if link_mode == "layout" and rng.random() < 0.5:
                lay_defs.append(n)
            else:
                extra.append(n)
    if mode == "undef" and not undefined and link_mode != "partial":
        objs[0]["syms"].append(dict(n="nowhere", b="global", s=None))
    if rng.random() < 0.12:
        extra.append("xsym")
    if extra:
        sh["extra"] = extra
    if link_mode == "partial":
        sh["layout"] = None
        sh["partial"] = True
    elif link_mode == "none":
        sh["layout"] = None
    else:
        used = []
        for o in objs:
            for s in o["secs"]:
                if s["n"] not in used:
                    used.append(s["n"])
        rng.shuffle(used)
        if len(used) > 1 and rng.random() < 0.12:
            used.pop()                       # one section not mentioned by the layout
        if rng.random() < 0.1:
            used.append("zz")                # named by the layout, not present
        n_mem = 1 if len(used) < 2 else rng.choice([1, 2])
        mems = [[] for _ in range(n_mem)]
        for n in used:
            mems[rng.randrange(n_mem)].append(n)
        layout = []
        ndef = 0
        for mi, names in enumerate(mems):
            inputs = []
            if rng.random() < 0.15:
                inputs.append(["def", f"ld{ndef}"])
                ndef += 1
            for n in names:
                if rng.random() < 0.25:
                    a = "S" if (budget[0] > 0 and rng.random() < 0.5) else rng.choice(ALIGNS)
                    if a == "S":
                        budget[0] -= 1
                    inputs.append(["align", a])
                inputs.append(["sec", n])
                if rng.random() < 0.2:
                    inputs.append(["def", f"ld{ndef}"])
                    ndef += 1
            layout.append(dict(name=f"mem{mi}", inputs=inputs))
        if n_mem == 2:
            layout[rng.randrange(2)]["fix"] = True
        for n in lay_defs:
            m = rng.choice(layout)
            m["inputs"].insert(rng.randint(0, len(m["inputs"])), ["def", n])
        if n_mem == 2 and rng.random() < 0.3:
            src = rng.choice([n for n in used if n != "zz"] or ["code"])
            if any(s["n"] == src for o in objs for s in o["secs"]):
                tgt = [m for m in layout if ["sec", src] not in m["inputs"]]
                if tgt:
                    tgt[0]["inputs"].append(["secdata", src])
        sh["layout"] = layout
        if len(objs) >= 2 and rng.random() < 0.25:
            sh["stage"] = rng.randint(1, len(objs) - 1) if len(objs) > 2 else 1
            if rng.random() < 0.5:
                sh["stage"] = len(objs) - 1 if len(objs) > 2 else 1
    glob = sorted({y["n"] for o in objs for y in o["syms"] if y["b"] == "global"})
    if glob and rng.random() < 0.15 and "partial" not in sh:
        cand = [g for g in glob if g not in extra] or glob
        if rng.random() < 0.5:
            sh["entry"] = rng.choice(cand)
        elif sh.get("layout") is not None:
            sh["layout_entry"] = rng.choice(cand)
        if (sh.get("entry") or sh.get("layout_entry")) in extra:
            sh.pop("entry", None)
            sh.pop("layout_entry", None)
    # a staged link with a duplicate inside the first stage is still an error; nothing to adapt
    return sh


def shapes(tier, seed):
    out = hand_shapes()
    rng = random.Random(1000 + seed)
    seen = {repr(s) for s in out}
    while len(out) < N_SHAPES[tier]:
        s = gen_shape(rng)
        if repr(s) in seen:
            continue
        seen.add(repr(s))
        out.append(s)
    return out


def mk_link(shape, idx=0):
    return LinkHarness(shape, idx)


def jobs(tier, seed):
    js = [("mk_link", dict(shape=s, idx=i)) for i, s in enumerate(shapes(tier, seed))]
    only = os.environ.get("VERIF_ONLY")
    if only:
        js = [j for j in js if only in repr(j) or only in describe(j[1]["shape"]) or only == f"#{j[1]['idx']}"
              or (only == "hand" and j[1]["idx"] < 15)]
    return js
