"""C32  Generated LR parsers accept exactly their grammar's language.

Real code: ppci.lang.tools.grammar.Grammar, ppci.lang.tools.lr.LrParserBuilder (closure, first sets,
canonical item sets, set_action, generate_tables) and LrParser.parse, fed through the real
BaseLexer.next_token (EOF synthesis).  For every grammar of a bounded family the real tables are built
once; then LrParser.parse is executed on a SYMBOLIC token sequence: the length n and every token kind
k[i] are solver variables.  The parser hashes the token type, so the engine enumerates the feasible
kinds of the token under the cursor through the solver; a parse that dies at token i leaves n and
k[i+1..] unconstrained, and the obligation "no sequence with this prefix is in L(G)" is one solver
query against the membership formula of ref/cyk.py (chart recogniser written from the definition of
derivation, independent of ppci, epsilon/unit/cyclic productions included).

Classes of grammars (decided by what the REAL builder does; set_action is observed, not replaced):
  A  tables built, no shift/reduce pair ever competed for a table cell (any other competing pair that
     the builder swallows without raising also lands here: it "accepted without reporting a conflict"):
        parse ends with a value or ParserException (nothing else, no divergence)
        accepted  => sequence in L(G)          rejected => sequence not in L(G)
        accepted  => returned value is the derivation tree of exactly this sequence
                     (semantic actions build ("p", production, children); leaves are the tokens)
  B  tables built but a shift/reduce conflict was resolved silently:
        accepted => sequence in L(G)            (plus: ends with a value or ParserException)
  C  builder raised ParserGenerationException (reduce/reduce conflict, undefined symbol): counted, skipped.
     Any other exception out of the builder is reported.
"""
import os
import itertools
import random
from symx.harness import Harness, run_harness, load_known
from symx import core
from symx.core import sym_and, sym_or, sym_not
from ref import cyk

PROPERTY = "C32"
LEVEL = "model_checking"
TERMS = ["a", "b"]
NONTERMS = ["S", "A"]
QUICK_SAMPLE = 900
THOROUGH_SAMPLE3 = 9000
THOROUGH_SAMPLE4 = 2500
BOUNDS = {
    "quick": {"grammars": f"fixed list of {{n_fixed}} + all with <= 2 productions and right-hand sides <= 2 + seeded sample of "
                          f"{QUICK_SAMPLE} of the <= 3-production space (VERIF_SEED)",
              "productions": "<= 3 (fixed list: <= 5, six of them with 3 non-terminals)", "rhs_length": "<= 3", "terminals": 2, "nonterminals": 2,
              "epsilon_productions": "allowed", "token_sequence_length": "0..5 (symbolic length, symbolic kinds)"},
    "thorough": {"grammars": "fixed list + ALL 2652 grammars with <= 3 productions and right-hand sides <= 2, + seeded samples of "
                             f"{THOROUGH_SAMPLE3} of the 207915 grammars with 2..3 productions / rhs <= 3 and of {THOROUGH_SAMPLE4} "
                             "grammars with 4 productions / rhs <= 3 (VERIF_SEED)",
                 "productions": "<= 4", "rhs_length": "<= 3", "terminals": 2, "nonterminals": 2,
                 "epsilon_productions": "allowed", "token_sequence_length": "0..6 (symbolic length, symbolic kinds)"},
}
OUTSIDE = ["grammars with more than 4 productions / 2 non-terminals / 2 terminals, right-hand sides longer than 3",
           "token sequences longer than 6",
           "the Earley parser (ppci.lang.tools.earley) and the regex-driven text scanning of baselex "
           "(the property text speaks about generated LR parsers; only BaseLexer.next_token/EOF is executed)",
           "grammars are enumerated modulo renaming of the two terminals, with the start symbol's productions first, "
           "without duplicate productions, without unreachable or undefined non-terminals (one undefined-symbol grammar is in the fixed list)",
           "completeness of the builder (an LR(1) grammar for which ppci reports a conflict is not a violation of the property text)"]
ASSUMPTIONS = ["membership oracle: /verif/ref/cyk.py (least fixed point of the derivation relation on a chart; "
               "cross-checked against brute-force leftmost rewriting at build time)",
               "a grammar counts as 'accepted without conflict' iff LrParserBuilder.generate_parser returns and no call of the real "
               "set_action ever found a Shift competing with a Reduce for the same cell (observed by a subclass that delegates to the real method)",
               "semantic actions are tree constructors; 'the value of the derivation' = the derivation tree of the consumed tokens"]
SHIMS_USED = ["isinstance"]
JOB_TIMEOUT = {"quick": 300, "thorough": 1700}
TASKS_PER_CHILD = 4
RULE = ("one evaluation = one batch job of grammars; every grammar is one harness (all paths of LrParser.parse for all token "
        "sequences up to the length bound); non-trivial = grammars whose exploration had more than one path")

# fixed, always included (lhs, rhs) lists; first production's lhs is the start symbol
FIXED = [
    [["S", "aSb"], ["S", ""]],                         # a^n b^n
    [["S", "AAb"], ["A", "a"], ["A", ""]],             # look-ahead through a nullable non-terminal
    [["S", "AbA"], ["A", "a"], ["A", ""]],
    [["S", "aS"], ["S", ""]],                          # right recursion on the start symbol
    [["S", "aS"], ["S", "a"]],
    [["S", "Sa"], ["S", "a"]],                         # left recursion
    [["S", "Sa"], ["S", ""]],
    [["S", "SS"], ["S", "a"]],                         # ambiguous
    [["S", "SS"], ["S", "a"], ["S", ""]],
    [["S", "aSbS"], ["S", "aS"], ["S", ""]],           # dangling else (rhs 4: outside enumeration)
    [["S", "AaAb"], ["S", "AbAa"], ["A", ""]],         # LR(1), not SLR: epsilon reductions need exact look-ahead
    [["S", "aAa"], ["S", "bAb"], ["A", "a"], ["A", ""]],
    [["S", "aAa"], ["S", "bAb"], ["S", "aab"], ["A", "a"]],
    [["S", "SaA"], ["S", "A"], ["A", "b"], ["A", "aSa"]],
    [["S", "A"], ["A", "S"], ["A", "a"]],              # cycle
    [["S", "A"], ["S", "a"], ["A", "a"]],              # reduce/reduce
    [["S", "A"]],                                       # undefined symbol
    [["S", "S"]],
    [["S", ""]],
    [["S", "a"]],
    [["S", "Ab"], ["A", "Aa"], ["A", ""]],
    [["S", "AS"], ["S", "b"], ["A", "a"], ["A", ""]],
    [["S", "ASA"], ["S", "b"], ["A", "a"], ["A", ""]],
    [["S", "AA"], ["A", "aA"], ["A", "b"]],            # textbook canonical LR(1) example
    [["S", "aAb"], ["S", "aa"], ["A", "a"], ["A", ""]],
    [["S", "Aa"], ["S", "bAb"], ["S", "ba"], ["A", "a"]],
    [["S", "ASa"], ["S", ""], ["A", "b"]],             # look-ahead of A must see through the nullable S
    [["S", "AA"], ["A", ""]],
    [["S", "bASa"], ["S", ""], ["A", ""]],
    [["S", "aAS"], ["S", "b"], ["A", ""]],
    [["S", "Sba"], ["S", "Abb"], ["S", "a"], ["A", "a"]],   # unambiguous, LR(2): genuine reduce/reduce conflict
    [["S", "Sba"], ["S", "Abb"], ["S", ""], ["A", ""]],
    [["S", "Aaa"], ["S", "aab"], ["A", "a"]],          # unambiguous, LR(2): shift/reduce
    # three non-terminals (outside the enumerated space; added after seed C32/C): a non-terminal followed by a
    # NULLABLE LEFT-RECURSIVE list - the reduce look-ahead of A needs FIRST(B) to contain what follows B in B -> B b
    [["S", "AB"], ["A", "a"], ["B", "Bb"], ["B", ""]],
    [["S", "AB"], ["A", "a"], ["B", "bB"], ["B", ""]],
    [["S", "ABa"], ["A", "b"], ["B", "Bb"], ["B", ""]],
    [["S", "AB"], ["A", "a"], ["A", ""], ["B", "BbA"], ["B", ""]],
    [["S", "BA"], ["A", "a"], ["B", "Bb"], ["B", ""]],
    [["S", "AB"], ["A", "aA"], ["A", ""], ["B", "BA"], ["B", "b"]],
]
BOUNDS["quick"]["grammars"] = BOUNDS["quick"]["grammars"].format(n_fixed=len(FIXED))


# ------------------------------------------------------------------------------------------------
def _rhs_space(maxlen):
    syms = TERMS + NONTERMS
    out = [""]
    for n in range(1, maxlen + 1):
        out += ["".join(p) for p in itertools.product(syms, repeat=n)]
    return out


def _swap(rhs):
    return rhs.translate(str.maketrans("ab", "ba"))


def _key(spec):
    return sorted(spec, key=lambda p: (p[0] != "S", p[1]))


def grammar_space(nprod, rhs_max):
    """all grammars with exactly nprod distinct productions, canonical representatives only"""
    prods = [(l, r) for l in NONTERMS for r in _rhs_space(rhs_max)]
    for combo in itertools.combinations(prods, nprod):
        lhs = {p[0] for p in combo}
        if "S" not in lhs:
            continue
        used_a = any("A" in r for _, r in combo)
        if ("A" in lhs) != used_a:
            continue       # A unreachable / undefined
        if "A" in lhs and not any("A" in r for l, r in combo if l == "S"):
            continue       # A not reachable from S
        spec = _key(combo)
        sw = _key([(l, _swap(r)) for l, r in combo])
        if sw < spec:
            continue
        yield [list(p) for p in spec]


# ------------------------------------------------------------------------------------------------
class Diverged(Exception):
    pass


def _plain_tree(t):
    """semantic value -> plain data; tokens become ("t", typ, val)"""
    if isinstance(t, tuple) and len(t) == 3 and t[0] == "p":
        return ["p", t[1], [_plain_tree(c) for c in t[2]]]
    if hasattr(t, "typ") and hasattr(t, "val"):
        return ["t", t.typ, t.val]
    if t is None:
        return None
    return ["?", repr(t)[:40]]


class LrHarness(Harness):
    shim_modules = ("ppci.lang.tools.lr",)
    shim_names = ()
    W = 8
    max_paths = 4000
    max_decisions = 200
    step_bound = 400
    timeout_ms = 120000          # queries are tiny; generous wall-clock limits only guard against starvation
    prove_timeout_ms = 300000    # on a shared machine (z3 timeouts are wall-clock)

    def __init__(self, spec, L):
        self.spec = [[str(l), str(r)] for l, r in spec]
        self.L = L
        self.name = "lr[" + " ".join(f"{l}>{r}" for l, r in self.spec) + f"][len<={L}]"
        self.params = dict(spec=self.spec, L=L)
        self.productions = [(l, tuple(r)) for l, r in self.spec]
        self.start = self.spec[0][0]
        self._built = None
        self._member_sym = None
        self._steps = 0

    # -- real table construction (concrete; cached per harness instance) -----------------------
    def build(self):
        if self._built is not None:
            return self._built
        from ppci.lang.tools.grammar import Grammar
        from ppci.lang.tools.lr import LrParserBuilder
        from ppci.lang.tools.common import ParserGenerationException
        h = self
        g = Grammar()
        g.add_terminals(TERMS)

        def action(idx):
            def f(*args):
                h._tick()
                return ("p", idx, args)
            return f

        try:
            for idx, (lhs, rhs) in enumerate(self.productions):
                g.add_production(lhs, list(rhs), action(idx))

            class Probe(LrParserBuilder):
                shift_reduce = 0        # competing pairs of the documented, automatically resolved kind
                other = 0               # any other competing pair that did NOT make the builder raise

                def set_action(self, state, t, action):
                    key = (state, t)
                    pair = None
                    if key in self.action_table and self.action_table[key] != action:
                        pair = {type(self.action_table[key]).__name__, type(action).__name__}
                    r = LrParserBuilder.set_action(self, state, t, action)
                    if pair is not None:
                        if pair == {"Shift", "Reduce"}:
                            self.shift_reduce += 1
                        else:
                            self.other += 1
                    return r

            pb = Probe(g)
            parser = pb.generate_parser()
            # class B only for the documented silent resolution (shift/reduce).  A builder that swallows any
            # other conflict has "accepted the grammar without reporting a conflict": full claim (class A).
            self._built = ("B" if (pb.shift_reduce and not pb.other) else "A", parser)
        except ParserGenerationException as e:
            self._built = ("C", str(e)[:100])
        except Exception as e:      # noqa: undocumented builder failure; cached so that every re-run of this
            self._built = ("X", e)  # harness sees the same outcome (table construction iterates over sets of
        return self._built          # id-hashed objects, i.e. its order may differ between two constructions)

    def _tick(self):
        self._steps += 1
        if self._steps > self.step_bound:
            raise Diverged(f"more than {self.step_bound} shift/reduce steps on a sequence of <= {self.L} tokens")

    # -- harness protocol ------------------------------------------------------------------------
    def inputs(self, mk):
        return dict(n=mk.int("n", 0, self.L),
                    k=[mk.int(f"k{i}", 0, len(TERMS) - 1) for i in range(self.L)])

    def run(self, inp):
        cls, parser = self.build()
        if cls == "C":
            return dict(cls="C")
        if cls == "X":
            raise parser
        from ppci.lang.tools.baselex import BaseLexer
        from ppci.lang.tools.common import ParserException
        from ppci.lang.common import Token, SourceLocation
        n, ks = inp["n"], inp["k"]
        consumed = []
        h = self
        loc = SourceLocation(None, 1, 0, 1)

        def gen():
            for i in range(h.L):
                if not (i < n):          # forks on the symbolic length
                    return
                kind = TERMS[ks[i]]      # symbolic index: the engine enumerates the feasible kinds
                consumed.append(TERMS.index(kind))
                h._tick()
                yield Token(kind, i, loc)

        class SeqLexer(BaseLexer):       # real next_token (EOF synthesis at the end of the stream)
            def __init__(self, tokens):
                self.filename = None
                self.line = 1
                self.tokens = tokens

        self._steps = 0
        try:
            value = parser.parse(SeqLexer(gen()))
        except ParserException:
            return dict(cls=cls, verdict="reject", consumed=list(consumed), tree=None)
        return dict(cls=cls, verdict="accept", consumed=list(consumed), tree=_plain_tree(value))

    def membership(self, inp):
        """bool / SymBool:  k[0:n] in L(G)"""
        n, ks = inp["n"], inp["k"]
        symbolic = core.ENG is not None and core.is_sym(n)
        if symbolic and self._member_sym is not None:
            return self._member_sym     # same z3 constants n, k0.. on every path of this harness
        alts = []
        for m in range(self.L + 1):
            d = cyk.derives(self.productions, self.start, m, lambda i, t: ks[i] == TERMS.index(t) if t in TERMS else False)
            if d is False:
                continue
            alts.append(sym_and(n == m, d))
        r = sym_or(*alts) if alts else False
        if symbolic and all(core.is_sym(k) for k in ks):
            self._member_sym = r
        return r

    def post(self, inp, out):
        if not out.ok:
            return {"ends-with-value-or-ParserException": False}
        v = out.value
        if v["cls"] == "C":
            return {"skipped:builder-reported-grammar-error": True}
        n, ks = inp["n"], inp["k"]
        member = self.membership(inp)
        posts = {}
        if v["verdict"] == "accept":
            posts["accepted=>in-language"] = member
            if v["cls"] == "A":
                cons = v["consumed"]
                same = sym_and(n == len(cons), *[ks[i] == c for i, c in enumerate(cons)])
                ok = cyk.valid_tree(self.productions, self.start, v["tree"], [TERMS[c] for c in cons])
                posts["value-is-derivation-tree-of-the-sequence"] = sym_and(same, ok)
        elif v["cls"] == "A":
            posts["rejected=>not-in-language"] = sym_not(member)
        else:
            posts["conflict-resolved-grammar:rejection-unconstrained"] = True
        return posts


# ------------------------------------------------------------------------------------------------
ROOT = os.path.dirname(os.path.dirname(os.path.abspath(__file__)))
_SUM = ("obligations", "discharged", "validated", "reached", "twin_violated")


def mk_batch(specs, L, tag=""):
    """custom job: one harness per grammar, results merged"""
    known = load_known(os.path.join(ROOT, "known_findings.json"), PROPERTY)
    res = dict(harness=f"batch{tag}[{len(specs)} grammars,len<={L}]", violations=[], known_hits=[], inconclusive=[],
               errors=[], funcs=[], samples=[], stats={}, solver={}, outcomes={}, exhaustive=True, nontrivial=0,
               wall_s=0.0, **{k: 0 for k in _SUM})
    funcs = set()
    classes = {"A": 0, "B": 0, "C": 0, "?": 0}
    for n, spec in enumerate(specs):
        h = LrHarness(spec, L)
        r = run_harness(h, known, want_trace=(n < 3))
        try:
            classes[h._built[0] if h._built else "?"] += 1
        except Exception:
            classes["?"] += 1
        for k in _SUM:
            res[k] += r.get(k, 0)
        for k in ("violations", "known_hits", "inconclusive", "errors"):
            res[k] += r.get(k, [])
        funcs.update(r.get("funcs", []))
        if len(res["samples"]) < 2:
            res["samples"] += r.get("samples", [])[:1]
        for k, v in r.get("stats", {}).items():
            res["stats"][k] = res["stats"].get(k, 0) + v
        for k, v in r.get("solver", {}).items():
            res["solver"][k] = res["solver"].get(k, 0) + v
        for k, v in r.get("outcomes", {}).items():
            res["outcomes"][k] = res["outcomes"].get(k, 0) + v
        res["exhaustive"] = res["exhaustive"] and r.get("exhaustive", False)
        if r.get("stats", {}).get("paths", 0) > 1:
            res["nontrivial"] += 1
        res["wall_s"] += r.get("wall_s", 0.0)
        if len(res["violations"]) >= 3 or len(res["errors"]) >= 3:
            res["exhaustive"] = False
            break
    for c, v in classes.items():
        if v:
            res["outcomes"]["grammars-class-" + c] = v
    res["funcs"] = sorted(funcs)
    return res


def _chunks(lst, size):
    return [lst[i:i + size] for i in range(0, len(lst), size)]


def select(tier, seed):
    """list of (tag, specs, L)"""
    rnd = random.Random(1000003 * seed + 32)
    if tier == "quick":
        L = 5
        small = [g for n in (1, 2) for g in grammar_space(n, 2)]
        pool = [g for n in (2, 3) for g in grammar_space(n, 3)]
        sample = rnd.sample(pool, min(QUICK_SAMPLE, len(pool)))
        return [("fixed", FIXED, L), ("small", small, L), ("sample3", sample, L)]
    L = 6
    ex = [g for n in (1, 2, 3) for g in grammar_space(n, 2)]
    pool3 = [g for n in (2, 3) for g in grammar_space(n, 3)]
    s3 = rnd.sample(pool3, min(THOROUGH_SAMPLE3, len(pool3)))
    s4 = _sample4(rnd, THOROUGH_SAMPLE4)
    return [("fixed", FIXED, L), ("all3x2", ex, L), ("sample3x3", s3, L), ("sample4x3", s4, L)]


def _sample4(rnd, count):
    """seeded sample of canonical 4-production grammars (space too large to list)"""
    prods = [(l, r) for l in NONTERMS for r in _rhs_space(3)]
    out, seen = [], set()
    guard = 0
    while len(out) < count and guard < count * 200:
        guard += 1
        combo = tuple(sorted(rnd.sample(prods, 4)))
        if combo in seen:
            continue
        seen.add(combo)
        lhs = {p[0] for p in combo}
        if "S" not in lhs:
            continue
        used_a = any("A" in r for _, r in combo)
        if ("A" in lhs) != used_a:
            continue
        if "A" in lhs and not any("A" in r for l, r in combo if l == "S"):
            continue
        spec = _key(combo)
        sw = _key([(l, _swap(r)) for l, r in combo])
        if sw < spec:
            spec = sw
        out.append([list(p) for p in spec])
    return out


def jobs(tier, seed):
    js = []
    for tag, specs, L in select(tier, seed):
        size = 8 if tag == "fixed" else (40 if tier == "quick" else 60)
        for c, chunk in enumerate(_chunks(specs, size)):
            js.append(("mk_batch", dict(specs=chunk, L=L, tag=f"-{tag}-{c}")))
    only = os.environ.get("VERIF_ONLY")
    if only:
        js = [j for j in js if only in repr(j)]
    return js
