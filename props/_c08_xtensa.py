"""C08 for ppci's Xtensa back end (ppci/arch/xtensa/instructions.py), reference decoder ref/xtensadec.py.

Every instruction class of ppci.arch.xtensa.instructions that is registered in get_arch('xtensa').isa (core_isa) or in the
module's second ISA object integer_divide_isa, and has a syntax, is instantiated with SYMBOLIC operands:
    a  AddressRegister object whose number is symbolic (0..15)
    f  FloatRegister object whose number is symbolic (0..15)
    b  object of a boolean register class (none on the unchanged tree; see .scratch/fixes/C08-xtensa-boolean-registers.diff)
       -- the register file of an operand class is the letter its register objects in registers.py print
    i  symbolic integer (wider than any field)
    s  label: the class's real relocation (Imm8 / bri12 / call18 / call0 / ri16) is applied to the encoded bytes with a
       symbolic symbol address S and a symbolic instruction address P (any alignment)
The real encode() (+ relocation.apply()) runs on them; the emitted bytes (little-endian, as ppci emits them) are decoded
by ref/xtensadec.py.  The class's real syntax is parsed generically into (mnemonic, operands in printed order); the decoder
lists, per instruction, the operand order and operand kinds (address / floating-point / boolean register, integer, label)
of the manual's assembler syntax.  Obligation per path:
    encode raised                                                        (operand combination rejected), or
    the bytes are ONE instruction of the length its op0 field implies, with the printed mnemonic, as many operands as
    printed, every operand of the printed kind (register file) and equal to the printed one (registers by number,
    integers as the manual reads the field: scaled / sign-extended / biased; a label: the address the manual computes from
    the field and the instruction's address equals the label's address, modulo 2**32).
The assembler macro `mov ar, as` (class without tokens, render()s one instruction) must be the manual's `or ar, as, as`.
Integers outside the manual's documented operand range and label addresses outside the instruction's reach are not
judged (property C10).
"""
import importlib
import z3
from symx.harness import Harness
from symx import core
from symx.core import sym_and, sym_not, implies
from symx.seq import SymByteArray
from ref import xtensadec

ARCH = "xtensa"
MOD = "ppci.arch.xtensa.instructions"
M32 = (1 << 32) - 1
FACTORIES = ["mk_xtensa_enc", "mk_xtensa_selftest"]


# ---------------------------------------------------------------------------------------------------------
def isa_classes(src):
    """the instruction classes of one ISA object, in registration order"""
    if src == "core":
        from ppci.api import get_arch
        return list(get_arch(ARCH).isa.instructions)
    mod = importlib.import_module(MOD)
    return list(getattr(mod, src).instructions)


def isa_sources():
    """"core" = get_arch('xtensa').isa; further Isa objects of the instructions module that are NOT part of it (their
    classes are not reachable through the architecture object, but they are registered in an ISA object)"""
    from ppci.arch.isa import Isa
    mod = importlib.import_module(MOD)
    core_classes = set(isa_classes("core"))
    out = ["core"]
    for name, val in sorted(vars(mod).items()):
        if isinstance(val, Isa) and val.instructions and not set(val.instructions) <= core_classes:
            out.append(name)
    return out


def register_kind(rcls):
    """register file of a register class of ppci.arch.xtensa.registers: the letter its register objects print before their
    number ("a" address, "f" floating point, "b" boolean registers), None if that is not one letter of the manual"""
    from ppci.arch.xtensa import registers as R
    pre = set()
    for reg in vars(R).values():
        if type(reg) is rcls:
            pre.add(reg.name.rstrip("0123456789"))
    return pre.pop() if len(pre) == 1 and pre <= {"a", "f", "b"} else None


def syntax_of(cls):
    """-> (mnemonic, [(operand name, kind)]) or (mnemonic, None, reason) if the layout is not `op a, b, c`"""
    from ppci.arch.registers import Register
    els = list(cls.syntax.syntax)
    mn = []
    while els and isinstance(els[0], str) and not els[0].isspace():
        mn.append(els.pop(0))
    mn = "".join(mn)
    ops, seps = [], []
    for e in els:
        if isinstance(e, str):
            if e.strip():
                seps.append(e.strip())
            continue
        c = e._cls
        if isinstance(c, type) and issubclass(c, Register):
            kind = register_kind(c) or "?"
        else:
            kind = "i" if c is int else "s" if c is str else "?"
        ops.append((e._name, kind))
        seps.append(None)
    layout = "".join("x" if s is None else s for s in seps)
    if any(k == "?" for _, k in ops):
        return mn, None, "operand class not modelled"
    if layout != ",".join("x" * len(ops)):
        return mn, None, f"syntax layout '{layout}' not modelled"
    return mn, ops, "plain"


def discover():
    """-> (claimed [(src, idx, class name, mnemonic, kinds, macro)], unclaimed [(class name, why)])"""
    claimed, unclaimed = [], []
    for src in isa_sources():
        seen_core = set(isa_classes("core")) if src != "core" else set()
        for idx, cls in enumerate(isa_classes(src)):
            if cls.__module__ != MOD or cls in seen_core:
                continue        # data directives (db, dw, dd ...) of data_isa
            if not getattr(cls, "syntax", None):
                continue        # abstract bases
            mn, ops, shape = syntax_of(cls)
            if ops is None:
                unclaimed.append((cls.__name__, f"'{mn}': {shape}"))
                continue
            ks = "".join(k for _, k in ops)
            if not hasattr(cls, "tokens"):
                if mn in xtensadec.MACROS and hasattr(cls, "render"):
                    claimed.append((src, idx, cls.__name__, mn, ks, 1))
                else:
                    unclaimed.append((cls.__name__, f"'{mn}' is ppci's own macro (no tokens; not an instruction or assembler "
                                                    f"macro of the Xtensa manual); the instructions it renders are checked as classes of their own"))
            elif mn not in xtensadec.NAMES:
                unclaimed.append((cls.__name__, f"mnemonic '{mn}' is no instruction of ref/xtensadec.py"))
            else:
                claimed.append((src, idx, cls.__name__, mn, ks, 0))
    return claimed, unclaimed


def in_range(v, rng):
    if rng[0] == "set":
        return core.sym_or(*[v == x for x in rng[1]])
    lo, hi, mult, excl = rng
    c = sym_and(v >= lo, v <= hi)
    if mult > 1:
        c = sym_and(c, v % mult == 0)
    for x in excl:
        c = sym_and(c, sym_not(v == x))
    return c


def bv32(v):
    if z3.is_expr(v):
        return v
    return core.to_bv(v, 32) if type(v) is not int else z3.BitVecVal(v & M32, 32)


def _zb(c):
    return c if z3.is_expr(c) else z3.BoolVal(bool(c))


class XtensaEncodingHarness(Harness):
    """builds cls(*symbolic operands), runs the real encode() (+ the real relocation for a label operand)"""
    PREFIX = "xtensa.encode"
    W = 72
    max_paths = 4000
    IMM_BOUND = 1 << 33

    def __init__(self, src, idx, cls, mn, ks, macro=0, wide=0):
        self.src, self.idx, self.cls, self.mn, self.ks, self.macro, self.wide = src, idx, cls, mn, ks, macro, wide
        self.params = dict(src=src, idx=idx, cls=cls, mn=mn, ks=ks, macro=macro, wide=wide)
        self.name = f"{self.PREFIX}[xtensa:{cls}#{idx}:{mn}]"
        if wide:            # thorough tier
            self.IMM_BOUND = 1 << 48
            self.W = 96
        # the instruction of the manual the printed text stands for, and which printed operand each of its operands is
        if macro:
            self.real, self.opmap = xtensadec.MACROS[mn]
        else:
            self.real, self.opmap = mn, tuple(range(len(ks)))

    def modules(self):
        names = ["ppci.utils.bitfun", "ppci.arch.token", "ppci.arch.encoding", "ppci.arch.isa", "ppci.arch.registers",
                 "ppci.arch.generic_instructions", "ppci.arch.xtensa.instructions", "ppci.arch.xtensa.registers"]
        return [importlib.import_module(n) for n in names]

    def the_class(self):
        cls = isa_classes(self.src)[self.idx]
        assert cls.__name__ == self.cls, "instruction table changed under the job list"
        return cls

    # -- inputs
    def inputs(self, mk):
        d = {}
        for k, kd in enumerate(self.ks):
            if kd in "afb":
                d[f"r{k}"] = mk.int(f"r{k}", 0, 15)
            elif kd == "i":
                d[f"i{k}"] = mk.int(f"i{k}", -self.IMM_BOUND, self.IMM_BOUND)
            else:
                # S: address the label stands for (any alignment, beyond the 32-bit address space);
                # P: address of the instruction (any alignment, anywhere in the 32-bit address space)
                d["S"] = mk.int("S", 0, (1 << (36 if self.wide else 33)) - 1)
                d["P"] = mk.int("P", 0, M32)
        return d

    # -- the real code
    def _printed(self, ins, ops, i):
        out = []
        for k, (oname, kd) in enumerate(ops):
            v = getattr(ins, oname)
            out.append(v.num if kd in "afb" else v if kd == "i" else i["S"])
        return out

    def run(self, i):
        """-> ("ok", [bytes], [printed operand values], [the same after encode]) | ("rejected", exception name)"""
        cls = self.the_class()
        mn, ops, shape = syntax_of(cls)
        assert ops is not None and (mn, "".join(k for _, k in ops)) == (self.mn, self.ks), "syntax changed under the job list"
        args = []
        for k, kd in enumerate(self.ks):
            if kd in "afb":
                rcls = getattr(cls, ops[k][0])._cls       # the operand's real register class
                args.append(rcls(f"{kd}{k}", num=i[f"r{k}"]))
            elif kd == "i":
                args.append(i[f"i{k}"])
            else:
                args.append("lbl")
        ins = cls(*args)
        printed = self._printed(ins, ops, i)        # what Syntax.render reads: the operand attributes after construction
        try:
            if self.macro:
                seq = list(ins.render())
                assert len(seq) == 1, "the macro stands for ONE instruction of the manual"
                real = seq[0]
            else:
                real = ins
            data = real.encode()
            rels = real.relocations()
            if "s" in self.ks:
                assert len(rels) == 1, "one relocation expected for a label operand"
                r = rels[0]
                assert r.symbol_name == "lbl"
                size = r.size()
                part = list(data[r.offset:r.offset + size])
                buf = bytearray(part) if core.ENG is None else SymByteArray(part)
                new = r.apply(i["S"], buf, i["P"] + r.offset)
                data = list(data[:r.offset]) + list(new) + list(data[r.offset + size:])
            else:
                assert not rels, "relocation on an instruction without label operand"
        except Exception as e:      # noqa: any error = operand combination rejected
            return ("rejected", type(e).__name__)
        return ("ok", list(data), printed, self._printed(ins, ops, i))

    # -- what the manual says the printed text means
    def manual_operands(self):
        """[(field, kind)] of the real instruction in the manual's assembler order"""
        return xtensadec._BY_NAME[self.real][5]

    def premise(self, i, printed):
        """documented ranges of the integer / label operands (outside: C10 decides whether encode must reject)"""
        cs = []
        mops = self.manual_operands()
        if len(mops) != len(self.opmap):
            return True
        for (field, mk_), pk in zip(mops, self.opmap):
            kd = self.ks[pk]
            if kd == "i" and mk_ == "i":
                cs.append(in_range(printed[pk], xtensadec.operand_range(self.real, field)))
            elif kd == "s" and mk_ == "l":
                (lo, hi, mult), fn = xtensadec.label_reach(self.real, field)
                S, P = printed[pk], i["P"]
                if fn is xtensadec._tgtcall:
                    base = P - P % 4 + 4
                elif fn is xtensadec._tgtl32r:
                    base = (P + 3) - (P + 3) % 4
                else:
                    base = P + 4
                dist = S - base
                cs += [S <= M32, dist >= lo, dist <= hi]
                if mult > 1:
                    cs.append(dist % mult == 0)
        return sym_and(*cs) if cs else True

    def decode_matches(self, i, data, printed):
        """-> (mnemonic matches, operand kinds match, operand values match)"""
        nbytes = xtensadec._BY_NAME[self.real][1]
        if len(data) != nbytes:
            return False, False, False
        w = xtensadec.word_of_bytes(data)
        conc = type(w) is int
        d = xtensadec.decode(w if conc else core.to_bv(w, 32), nbytes)
        m = d.is_(self.real)
        mops = self.manual_operands()
        if len(mops) != len(self.opmap):
            return (bool(m) if conc else core.SymBool(_zb(m))), False, False
        pc = i.get("P", 0)
        vals = d.operands(self.real, pc if conc and type(pc) is int else bv32(pc))
        kinds_ok, cs = True, []
        for (fv, mk_), pk in zip(vals, self.opmap):
            pv, kd = printed[pk], self.ks[pk]
            if {"a": "a", "f": "f", "b": "b", "i": "i", "s": "l"}[kd] != mk_:
                kinds_ok = False      # e.g. an address register is printed where the manual has a boolean register
                if kd in "is" or mk_ in ("i", "l", "sr"):
                    cs.append(False)
                    continue
            if conc and type(pv) is int:
                cs.append((fv & M32) == (pv & M32))
            else:
                cs.append(bv32(fv) == bv32(pv))
        if conc and all(type(c) is bool for c in cs):
            return bool(m), kinds_ok, all(cs)
        wrap = lambda b: core.SymBool(b) if z3.is_expr(b) else bool(b)      # noqa
        return wrap(m), kinds_ok, wrap(z3.And(*[_zb(c) for c in cs]) if cs else True)

    def post(self, i, out):
        if not out.ok:
            return {"harness-ran": False}
        r = out.value
        if r[0] == "rejected":
            return {"rejected": True}
        _, data, printed, after = r
        prem = self.premise(i, printed)
        m, kinds, vals = self.decode_matches(i, data, printed)
        return {"decodes-to-printed-mnemonic": implies(prem, m),
                "decodes-to-printed-operand-kinds": implies(prem, sym_and(m, kinds)),
                "decodes-to-printed-operands": implies(prem, sym_and(m, vals)),
                "encode leaves the printed operands unchanged": core.sym_eq(list(after), list(printed))}


def mk_xtensa_enc(**kw):
    return XtensaEncodingHarness(**kw)


# ---------------------------------------------------------------------------------------------------------
def register_names():
    """every register object of ppci.arch.xtensa.registers prints the name of its number (aN / fN)"""
    from ppci.arch.xtensa import registers as R
    from ppci.arch.registers import Register
    seen = {}
    for attr, reg in vars(R).items():
        if isinstance(reg, Register):
            pre = register_kind(type(reg))
            assert pre is not None, f"register object {attr}: class {type(reg).__name__} is no register file of the manual"
            for nm in (reg.name,) + tuple(getattr(reg, "aka", ()) or ()):
                assert nm == f"{pre}{reg.num}" or (pre, nm, reg.num) in (("a", "sp", 1),), \
                    f"register object {attr}: printed name {nm!r} is not register {pre}{reg.num}"
            assert 0 <= reg.num <= 15
            seen[reg.name] = reg.num
    assert len(seen) >= 16
    return seen


def mk_xtensa_selftest():
    """concrete validation of ref/xtensadec.py + register names + the list of unclaimed classes (evidence)"""
    import time
    t0 = time.time()
    name = "xtensa.selftest"
    res = dict(harness=name, violations=[], known_hits=[], inconclusive=[], errors=[], funcs=[],
               samples=[], stats=dict(paths=1, decisions=0, feas_queries=0, cut_paths=0, solver_s=0.0),
               obligations=1, discharged=0, validated=0, reached=1, twin_violated=1, exhaustive=True, nontrivial=1)
    try:
        st = xtensadec.selftest()
        regs = register_names()
        claimed, unclaimed = discover()
        assert claimed, "no xtensa instruction class claimed"
        res["discharged"] = 1
        res["samples"] = [dict(harness=name, selftest=st, register_names_checked=len(regs), isa_objects=isa_sources(),
                               claimed_classes=len(claimed), unclaimed_classes=[list(u) for u in unclaimed])]
    except AssertionError as e:
        res["errors"].append(dict(kind="reference-selftest-failed", harness=name, error=repr(e)[:500]))
    res["wall_s"] = time.time() - t0
    return res


def jobs(tier, seed):
    js = [("mk_xtensa_selftest", {})]
    claimed, unclaimed = discover()
    for (src, idx, cls, mn, ks, macro) in claimed:
        js.append(("mk_xtensa_enc", dict(src=src, idx=idx, cls=cls, mn=mn, ks=ks, macro=macro, wide=int(tier == "thorough"))))
    return js


BOUNDS_NOTE = ("every class of ppci.arch.xtensa.instructions with a syntax that is registered in get_arch('xtensa').isa or in the module's "
               "separate integer_divide_isa (55: abs neg add addx2/4/8 sub subx2/4/8 and or xor, add.n l32i.n, abs.s add.s, andb andbc, addi "
               "addmi movi, l8ui l16ui l16si l32i s8i s16i s32i, sext sll sra srl srli ssl ssr, rems remu, nop ret, call0 <register>, "
               "bany bbc beq bge bgeu blt bltu bne, beqz bnez, j, call0, l32r, and the assembler macro mov); every register number "
               "0..15 for every register operand (register objects of the operand's real class with symbolic number), all operands symbolic "
               "at once; integer operands [-2**33, 2**33] (thorough: [-2**48, 2**48]), obligation stated for the manual's range (addi "
               "-128..127, addmi multiples of 256 in -32768..32512, movi -2048..2047, l8ui/s8i 0..255, l16*/s16i even 0..510, l32i/s32i "
               "multiples of 4 in 0..1020, l32i.n multiples of 4 in 0..60, sext 7..22, srli 0..15); label operands through the real "
               "Imm8 / bri12 / call18 / call0 / ri16 relocation: label address S 0..2**33-1 (thorough 2**36-1) and instruction address P "
               "0..2**32-1, both at any alignment; obligation for S < 2**32 within the instruction's reach (branches P+4-128..P+4+127, "
               "beqz/bnez +-2 KiB, j +-128 KiB, call0 word-aligned within +-512 KiB of (P & ~3)+4, l32r word-aligned 4..256 KiB below "
               "(P+3) & ~3)")
OUTSIDE_NOTE = ["xtensa: ppci's own macros `push` / `pop` (no tokens; not instructions or assembler macros of the Xtensa manual; the addi / s32i / "
                "l32i they render are checked as classes of their own); `mov` IS covered (must render exactly the manual's `or ar, as, as`)",
                "xtensa: integer operands outside the manual's documented range or alignment (the token fields take -2**(n-1)..2**n-1: addi 200 "
                "is emitted as addi -56; l32i offset 5 as 4; sext 0 as sext 16; addmi writes its operand UNSCALED into imm8, so of its documented "
                "operands only 0 is accepted and `addmi a1, a2, 5` is emitted as addmi a1, a2, 1280) and label addresses outside the reach -- "
                "whether encode() / the relocation must reject them is C10 (C10-xtensa-transformed-imm, C10-token-dual-range-*)",
                "xtensa: instruction forms ppci has no class for (windowed calls, loops, bit-test-immediate branches, extui, slli/srai, mul*, "
                "l32e, MAC16, most narrow forms ...); big-endian Xtensa (ppci emits little-endian only); the Extended L32R option (LITBASE); "
                "that a configuration actually has the option an instruction belongs to; the assembler's text path"]
ASSUMPTIONS_NOTE = ["ref/xtensadec.py states the Xtensa ISA Reference Manual (ch. 7 opcode maps and formats, ch. 6 instruction pages: operand order, "
                    "register file of each operand, scaling / sign extension / bias of immediates, target address of PC-relative operands) "
                    "correctly for the modelled instructions (self-tested per run: 189 table entries pairwise disjoint per length and consistent "
                    "with the op0 length rule, 108 known toolchain encodings incl. reserved / unmodelled words, the 77 instructions of the repo's "
                    "test_xtensa.py vectors, int vs z3 evaluation of the shared slicing expressions on 1512 words)",
                    "xtensa: the register a register object prints is the one its name denotes; for the register objects of "
                    "ppci/arch/xtensa/registers.py name == <file letter><number> is checked in every run (a0..a15, f0, f1; b0..b15 once the "
                    "boolean register fix is in); the register file of an operand is the letter the objects of its class print; the harness's "
                    "symbolic register objects stand for their number in that file",
                    "xtensa: a label operand denotes the symbol's address; targets are computed as the manual does, modulo 2**32: branches and j "
                    "PC + 4 + sign_extend(imm), call0 (PC & ~3) + 4 + (sign_extend(offset18) << 2), l32r ((PC + 3) & ~3) + (0xFFFF || imm16 || 00); "
                    "`mov ar, as` is the manual's assembler macro for `or ar, as, as`"]
