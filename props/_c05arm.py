"""C05 for ARM A32: execute the LINKED BYTES of an image built by the real ppci pipeline on the manual-derived model
ref/arm32.py (decode table + SEM), next to the IR reference -- the ARM twin of the RISC-V loop in props/_c05.py.

The word at pc is fetched from the linked image (literal pools are read from the image through memory loads),
decoded with arm32.decode on the concrete word, its condition is evaluated on the symbolic flags (a condition that
is not decided by the path forks through the engine) and arm32.SEM[<instruction>] gives the effects, which are
applied the way arm32.step applies them (register writes in order, a write to r15 is a branch, flags, byte stores).
Words that arm32 does not model, UNPREDICTABLE operand combinations, alignment faults of LDM/STM, system
instructions and a switch to Thumb state end the run with a MachineFault.
"""
import z3
from symx import core
from ref import arm32, irsem, irsem_u
from props import _c05
from props._c05 import MachineFault, SENTINEL, M32

_DEC = {}
NREGS = 15          # r0..r14; r15 is the pc


def decode_word(word):
    if word not in _DEC:
        d = arm32.decode(word)
        hits = [(name, f) for (c, name, f) in d.entries if c]
        _DEC[word] = hits[0] if len(hits) == 1 else None
    return _DEC[word]


class Regs:
    """register file view handed to arm32.SEM (read only; writes come back as effects)"""

    def __init__(self, x):
        self.x = x

    def read(self, j):
        if type(j) is not int:
            j = z3.simplify(j).as_long()
        return self.x[j] if j < 15 else 0


def _conc_bool(o, c):
    """True / False / None (undecided) for a condition of domain o"""
    if type(c) is bool:
        return c
    if not o.sym:
        return bool(c)
    s = z3.simplify(c)
    if z3.is_true(s):
        return True
    if z3.is_false(s):
        return False
    return None


def _decide(o, c):
    k = _conc_bool(o, c)
    if k is not None:
        return k
    return irsem._decide(c)


def unbyte(t):
    """a byte-wise reassembly Concat(Extract(8k+7, 8k, v) ...) of a stored value is handed back as (a slice of) v:
    the same value in the form it was stored (the simplifier does not always recognise it)"""
    if not z3.is_expr(t):
        return t
    if z3.is_app_of(t, z3.Z3_OP_SIGN_EXT) or z3.is_app_of(t, z3.Z3_OP_ZERO_EXT):
        inner = unbyte(t.arg(0))
        if inner is t.arg(0):
            return t
        n = t.params()[0]
        return z3.SignExt(n, inner) if z3.is_app_of(t, z3.Z3_OP_SIGN_EXT) else z3.ZeroExt(n, inner)
    if z3.is_app_of(t, z3.Z3_OP_CONCAT):
        parts, work = [], [t]
        while work:              # z3py nests Concat(a, b, c, d) as binary applications
            u = work.pop()
            if z3.is_app_of(u, z3.Z3_OP_CONCAT):
                work.extend(reversed(u.children()))
            else:
                parts.append(u)
        v, lo_next = None, None
        for p in parts:
            if not z3.is_app_of(p, z3.Z3_OP_EXTRACT):
                return t
            hi, lo = p.params()
            if v is None:
                v = p.arg(0)
                top = hi
            elif not v.eq(p.arg(0)) or hi != lo_next - 1:
                return t
            lo_next = lo
        if lo_next == 0 and top == v.size() - 1:
            return v
        return z3.Extract(top, lo_next, v)
    return t


def _neg_form(t):
    """-1 - u for t = ~u,  c * (-1 - u) for t = c * ~u  (None otherwise)"""
    if z3.is_app_of(t, z3.Z3_OP_BNOT):
        return z3.BitVecVal(-1, t.size()) - t.arg(0)
    if z3.is_app_of(t, z3.Z3_OP_BMUL) and t.num_args() == 2 and z3.is_bv_value(t.arg(0)) and z3.is_app_of(t.arg(1), z3.Z3_OP_BNOT):
        return t.arg(0) * (z3.BitVecVal(-1, t.size()) - t.arg(1).arg(0))
    return None


def norm_sums(t, cache, products=False):
    """AddWithCarry(x, NOT(y), 1) leaves x + ~y + 1 behind; inside a sum ~u is rewritten to -1 - u (the same value), so
    that a subtraction has the same polynomial form as the reference's x - y"""
    k = t.get_id()
    if k in cache:
        return cache[k][1]
    if not z3.is_app(t) or t.num_args() == 0:
        cache[k] = (t, t)         # the key term is kept alive: z3 recycles ids of freed terms
        return t
    kids = [norm_sums(c, cache, products) for c in t.children()]
    changed = any(a is not c for a, c in zip(kids, t.children()))
    arith = z3.is_app_of(t, z3.Z3_OP_BADD) or (products and z3.is_app_of(t, z3.Z3_OP_BMUL))
    if arith:
        new = []
        for c in kids:
            n = _neg_form(c)
            if n is not None:
                changed = True
                c = n
            new.append(c)
        kids = new
    r = t
    if changed:
        if arith:
            r = kids[0]
            for c in kids[1:]:
                r = (r + c) if z3.is_app_of(t, z3.Z3_OP_BADD) else (r * c)
            r = z3.simplify(r)
        else:
            r = t.decl()(*kids)
    cache[k] = (t, r)
    return r


def canon(t):
    """the same value with every ~u that is an operand of + or * written as -1 - u (applied to BOTH sides of a
    comparison: a back end may compute ~x as -x - 1, a product of such terms is beyond the solver otherwise)"""
    if not z3.is_expr(t):
        return t
    return z3.simplify(norm_sums(z3.simplify(t), {}, True))


def emulate(b, o, x, flags, mem, on_ext, max_steps, wild=None, allowed=(), helper_bound=None):
    """run from b.entry until pc == SENTINEL.  x: list of 15 register values r0..r14 (domain o), flags [n, z, c, v],
    mem: memory (props/_c05 interface).  Returns (x, flags, mem, steps)."""
    pc = b.entry
    steps = 0
    in_helper = 0
    ncache = {}
    img = b.image
    while pc != SENTINEL:
        if pc in b.stubs:
            on_ext(b.stubs[pc], x, mem)
            t = x[14]
            pc = _c05.next_pc(o, t)
            if pc & 1:
                raise MachineFault("return to Thumb state")
            continue
        steps += 1
        if steps > max_steps:
            raise core.PathCut("machine step bound")
        if pc & 3:
            raise MachineFault(f"pc not word aligned: {pc:#x}")
        if any(pc + k not in img for k in range(4)):
            raise MachineFault(f"instruction fetch outside the linked image at {pc:#x}")
        word = img[pc] | (img[pc + 1] << 8) | (img[pc + 2] << 16) | (img[pc + 3] << 24)
        d = decode_word(word)
        if d is None:
            raise MachineFault(f"not a modelled A32 instruction: word {word:#010x} at {pc:#x}")
        name, f = d
        if f["unpred"]:
            raise MachineFault(f"UNPREDICTABLE operand combination: {name} word {word:#010x} at {pc:#x}")
        st = arm32.State(o, Regs(x), o.val(pc), flags[0], flags[1], flags[2], flags[3], mem)
        passed = arm32.cond_passed(o, st, word >> 28)
        guard = None          # a predicated instruction that neither branches nor stores is merged (if-then-else on its
        pk = _conc_bool(o, passed)      # effects) instead of forking the path
        if pk is None:
            if name in BRANCHES or name.split("_")[0] in STORES or f.get("rd") == 15 or f.get("rt") == 15:
                pk = _decide(o, passed)
            else:
                guard, pk = passed, True
        if not pk:
            pc = (pc + 4) & M32
            continue
        if helper_bound is not None and b.helper_lo <= pc < b.helper_hi:
            in_helper += 1
            if in_helper > helper_bound:
                raise core.PathCut("runtime helper step bound")
        if o.sym and name.split("_")[0] in MEMOPS:
            for r in (["rn", "rm"] if name.endswith("_reg") else ["rn"]):
                k = f.get(r)
                if type(k) is int and k < 15:
                    x[k] = irsem_u.concretise(x[k])          # few feasible addresses: one path each
            st = arm32.State(o, Regs(x), o.val(pc), flags[0], flags[1], flags[2], flags[3], mem)
        e = arm32.SEM[name](o, st, f)
        if e.system:
            raise MachineFault(f"system instruction {name} at {pc:#x}")
        for what, c in (("UNPREDICTABLE", e.unpred), ("alignment fault", e.fault)):
            if _decide(o, c):
                raise MachineFault(f"{what}: {name} at {pc:#x}")
        npc = (pc + 4) & M32
        nx = list(x)
        for (idx, val, en) in e.writes:
            en = _conc_bool(o, en)
            if en is None:
                raise MachineFault(f"undecided write enable: {name} at {pc:#x}")
            if not en:
                continue
            if type(idx) is not int:
                idx = z3.simplify(idx).as_long()
            if o.sym:
                val = z3.simplify(unbyte(val))
                if name.startswith(SUBS):
                    val = norm_sums(val, ncache)
            if guard is not None:
                if idx == 15:
                    raise MachineFault(f"predicated pc write not forked: {name} at {pc:#x}")
                val = z3.simplify(z3.If(guard, val, x[idx]))
            if idx == 15:       # BXWritePC
                t = _c05.next_pc(o, val)
                if t & 1:
                    raise MachineFault(f"switch to Thumb state at {pc:#x}")
                if t & 2:
                    raise MachineFault(f"UNPREDICTABLE branch target at {pc:#x}")
                npc = t
            else:
                nx[idx] = val
        if e.npc is not None:
            npc = _c05.next_pc(o, e.npc)
        if e.flags is not None:
            en, fn, fz, fc, fv = e.flags
            en = _conc_bool(o, en)
            if en is None:
                raise MachineFault(f"undecided flag enable: {name} at {pc:#x}")
            if en:
                new = [fn, fz, fc, fv]
                if guard is not None:
                    new = [z3.If(guard, arm32._zb(t), arm32._zb(old)) for t, old in zip(new, flags)]
                flags = [z3.simplify(t) if z3.is_expr(t) else t for t in new]
        for (a, bt, en) in e.stores:
            en = _conc_bool(o, en)
            if en is None:
                raise MachineFault(f"undecided store enable: {name} at {pc:#x}")
            if not en:
                continue
            if guard is not None:
                raise MachineFault(f"predicated store not forked: {name} at {pc:#x}")
            if wild is not None:
                c = _c05.above_sp0(o, a, allowed)
                if c is not None:
                    wild.append(c)
            mem = mem.store_byte(a, bt)
        x = nx
        pc = npc
    return x, flags, mem, steps


SUBS = ("sub_", "rsb_", "sbc_", "rsc_")
BRANCHES = {"b", "bl", "bx", "blx_reg", "pop", "ldmia", "ldmib", "ldmda", "ldmdb"}
STORES = {"str", "strb", "strh", "push", "stmia", "stmib", "stmda", "stmdb"}
MEMOPS = {"ldr", "str", "ldrb", "strb", "ldrh", "strh", "ldrsb", "ldrsh"}
