"""C25  Dominator and post-dominator analyses match their definitions.

Real code: ppci.graph.lt.LengauerTarjan (calculate_idom), ppci.graph.cfg.ControlFlowGraph
(_calculate_dominator_info/_calculate_dominator_tree/_number_dominator_tree, dominates, strictly_dominates,
get_immediate_dominator, calculate_dominance_frontier, calculate_reach/can_reach, post_dominates,
get_immediate_post_dominator, _legacy_dom_sets), ppci.graph.algorithm.fixed_point_dominator
(calculate_dominators, calculate_immediate_dominators, calculate_post_dominators,
calculate_immediate_post_dominators), ppci.graph.domtree.CfgInfo (via ir_function_to_graph on a real ir.Procedure),
ppci.graph.digraph (DiGraph, dfs).

Symbolic: the GRAPH.  One boolean per ordered pair of nodes = "edge present" (self loops and edges into the
entry included), with the premise "every node is reachable from the entry" (and, for post-dominators, "the
exit is a sink reachable from every node") stated as a bounded transitive-closure formula over these
booleans (mk.assume).  The harness adds an edge to a real ControlFlowGraph `if edge_bool:` - a fork - so the
real algorithms run once per graph; the solver prunes the graphs that violate the premise.

Oracle: ref/domdef.py - dominance by definition (v unreachable from the entry once d is removed), immediate
dominator = closest strict dominator, Cytron's definition of the dominance frontier, post-dominance by
removal on paths to the exit, reachability by transitive closure - as formulas over the same booleans,
discharged by the solver on every path.

Sparse families (6..8 nodes): Lengauer-Tarjan's path compression only does something on deeper depth-first
trees than 5 nodes give, so `dominators-sparse` fixes a spanning tree (all nodes reachable, no premise) and
makes the set of extra edges symbolic (one boolean per candidate pair, at most k present or all subsets of
a seeded candidate subset), run for both successor-set iteration orders; only the LT-dependent queries are
compared there (idom, dominates, strictly_dominates, dominance frontier).

Honest note: this is symbolic execution degenerating to solver-driven bounded-exhaustive enumeration of
labelled graphs (every algorithm here inspects every edge, so one path = one graph).
"""
import os
from symx.harness import Harness
from symx.core import sym_and, sym_or, sym_not, is_sym
from ref import domdef

PROPERTY = "C25"
LEVEL = "model_checking"
BOUNDS = {
    "quick": {"dominators": "all labelled digraphs with every node reachable from the entry (node 0): n<=3 with self "
                            "loops, n=4 without self loops",
              "post-dominators": "n<=4 with self loops; exit = node n-1 is a sink reachable from every node",
              "CfgInfo (ir blocks)": "n<=3 blocks with self loops, n=4 without; out-degree <= 2",
              "dominators-sparse": "6 nodes: chain 0->1->..->5 plus every set of <= 3 extra edges out of the 25 other "
                                   "ordered pairs (2 626 graphs), successor sets iterated in descending node index; "
                                   "the same with <= 2 extra edges (326 graphs) in ascending index",
              "exhaustive": "yes (all jobs drain their queue)"},
    "thorough": {"dominators": "n<=4 with self loops (38 912 graphs), n=5 without self loops (745 472 graphs, 255 jobs)",
                 "post-dominators": "n<=4 with self loops, n=5 without self loops (31 550 graphs)",
                 "CfgInfo (ir blocks)": "n<=4 blocks with self loops, out-degree <= 2",
                 "dominators-sparse": "fixed spanning tree + symbolic set of extra edges (any ordered pair i != j), both "
                                      "set-iteration orders (ascending / descending node index): 7-node chain with <= 4 "
                                      "extras (66 712 graphs per order), 6-node chain and one VERIF_SEED-chosen random "
                                      "spanning tree with <= 4 extras (15 276 each), 8-node chain with <= 3 extras "
                                      "(19 650), and for n = 6, 7, 8 two VERIF_SEED-chosen 12-element candidate subsets "
                                      "with all 4 096 subsets each; jobs time-boxed at SPARSE_BUDGET_S=60 s",
                 "time box": "each 5-node job stops after THOROUGH_BUDGET_S=60 s; a job that did not drain its queue is "
                             "reported in evidence (per_harness: 'TIME-BOXED: k paths explored, m subtrees left', "
                             "coverage.exhaustive=false); on an idle 16-core machine all jobs drain (about 5 min), "
                             "VERIF_SEED permutes the edge decision order, i.e. which part is explored first"},
}
OUTSIDE = ["graphs with 6 or more nodes other than the sparse families (spanning tree + few extra edges / sampled "
           "candidate subsets, see BOUNDS); graphs with more than 8 nodes; self loops on graphs with 5 or more nodes", "graphs with nodes unreachable from the entry",
           "post-dominance when some node cannot reach the exit or the exit has successors",
           "ControlFlowGraph.calculate_loops, relooper", "orders of set iteration other than ascending node index "
           "(covered up to relabelling of the graph only)"]
ASSUMPTIONS = [
    "degenerate symbolic execution: inputs are the adjacency booleans; exploration enumerates labelled graphs, the "
    "solver prunes graphs violating the reachability premise and discharges the oracle formulas",
    "nodes are a harness subclass of ControlFlowNode whose __hash__ is the node index (or the reversed index in "
    "the 'desc' runs of the sparse families), so that set iteration order (successor/predecessor sets) is "
    "reproducible on replay; all other behaviour is ppci's.  For the exhaustive families the ascending order covers "
    "the descending one by relabelling the non-entry nodes",
    "definitions of dominance, immediate dominator, dominance frontier, post-dominance: ref/domdef.py "
    "(validated against brute-force simple-path enumeration on random graphs when it was written)",
    "post-dominator premise: the exit node has no successors (true of every CFG built by ir_function_to_graph) and is "
    "reachable from every node",
]
SHIMS_USED = ["isinstance"]
JOB_TIMEOUT = {"quick": 170, "thorough": 1700}
SPARSE_BUDGET_S = 60          # per sparse-family job (6..8 nodes; about 200 jobs)
THOROUGH_BUDGET_S = 60        # per 5-node job (about 250 jobs); all time-boxed jobs together: <= 28 min on 16 processes


def _pairs(n, selfloops, sink=None, seed=0):
    """ordered pairs that carry an edge boolean, in the order in which they are decided (node 0's
    out-edges first; a non-zero seed shuffles the order - it only matters for which part of the space a
    time-boxed job explores first)"""
    ps = [(i, j) for i in range(n) for j in range(n)
          if (selfloops or i != j) and i != sink]
    if seed:
        import random
        random.Random(seed).shuffle(ps)
    return ps


class _GraphHarness(Harness):
    shim_modules = ()
    W = 8
    max_paths = 5000000
    max_decisions = 200
    prove_arrays = False
    kind = "?"
    sink_exit = False

    def __init__(self, n, selfloops=True, fixed=0, nfixed=0, merged=False, seed=0):
        self.n = n
        self.selfloops = selfloops
        self.fixed = fixed        # job splitting: the first nfixed edge booleans are fixed to the bits of `fixed`
        self.nfixed = nfixed
        self.merged = merged      # one conjoined obligation per path instead of one per API (large runs)
        self.seed = seed
        self.name = (f"{self.kind}[n={n}{'' if selfloops else ',noself'}"
                     f"{',fixed=%d/%d' % (fixed, nfixed) if nfixed else ''}{',seed=%d' % seed if seed else ''}]")
        self.params = dict(n=n, selfloops=selfloops, fixed=fixed, nfixed=nfixed, merged=merged, seed=seed)
        self._formulas = None
        self._premise = None

    def pairs(self):
        return _pairs(self.n, self.selfloops, self.n - 1 if self.sink_exit else None, self.seed)

    def post(self, inp, out):
        if not out.ok:
            return {"no-exception": False}
        d = self.facts(self.formulas(inp["a"]), out.value, self.n)
        if self.merged:
            return {self.kind + "-all-facts": sym_and(True, *d.values())}
        return d

    # -- inputs ------------------------------------------------------------
    def premise(self, a, n):
        return domdef.all_reachable_from(a, n, 0)

    def inputs(self, mk):
        n = self.n
        a = [[False] * n for _ in range(n)]
        for k, (i, j) in enumerate(self.pairs()):
            if k < self.nfixed:
                a[i][j] = bool((self.fixed >> k) & 1)
            else:
                a[i][j] = mk.bool(f"a_{i}_{j}")
        if getattr(mk, "symbolic", False):
            # the premise depends on the input variables only: build the formula once per harness
            if self._premise is None:
                self._premise = self.premise(a, n)
            mk.assume(self._premise)
        else:
            mk.assume(self.premise(a, n))
        return dict(a=a)

    def formulas(self, a):
        """oracle formulas over the adjacency booleans; they depend on the input variables only (same z3
        constants on every path), so the symbolic variant is built once per harness"""
        symbolic = any(is_sym(x) for row in a for x in row)
        if symbolic and self._formulas is not None:
            return self._formulas
        f = self.oracle(a, self.n)
        if symbolic:
            f = {k: _pack(v) for k, v in f.items()}
            self._formulas = f
        return f

    # -- real objects ------------------------------------------------------
    def build(self, a):
        from ppci.graph import cfg as cfgmod
        n = self.n

        desc = getattr(self, "order", "asc") == "desc"

        class Node(cfgmod.ControlFlowNode):
            # sets of small ints iterate in ascending hash order: "asc" = successors/predecessors are
            # visited in ascending node index, "desc" = in descending node index
            def __hash__(self):
                return (n - 1 - self.index) if desc else self.index

        g = cfgmod.ControlFlowGraph()
        nodes = []
        for i in range(n):
            nd = Node.__new__(Node)
            nd.index = i
            cfgmod.ControlFlowNode.__init__(nd, g, name=f"n{i}")
            nodes.append(nd)
        for i, j in self.pairs():
            if a[i][j]:                         # fork point
                nodes[i].add_edge(nodes[j])
        g.entry_node = nodes[0]
        g.exit_node = nodes[n - 1]
        return g, nodes


class _Packed:
    """a matrix of formulas packed into one z3 bit-vector (bit i*n+j = cell [i][j]); built once per harness so
    that the per-path obligation 'formula matrix == concrete matrix' is a single bit-vector equation"""

    def __init__(self, bv, width):
        self.bv = bv
        self.width = width


def _pack(F):
    import z3
    from symx.core import tobool
    cells = [c for row in F for c in row]
    one, zero = z3.BitVecVal(1, 1), z3.BitVecVal(0, 1)
    bits = [z3.If(tobool(c), one, zero) for c in reversed(cells)]       # Concat: first argument = high bits
    return _Packed(z3.Concat(*bits) if len(bits) > 1 else bits[0], len(cells))


def _eq_cells(F, cells):
    """formula matrix F (packed, or plain nested lists on replay) equals the concrete booleans `cells`
    (row-major)"""
    if isinstance(F, _Packed):
        import z3
        from symx.core import SymBool
        val = sum(1 << k for k, c in enumerate(cells) if c)
        return SymBool(F.bv == z3.BitVecVal(val, F.width))
    flat = [c for row in F for c in row]
    return sym_and(True, *[(f if c else sym_not(f)) for f, c in zip(flat, cells)])


def _eq_matrix(F, M, n):
    """formula matrix F equals concrete boolean matrix M"""
    return _eq_cells(F, [bool(M[i][j]) for i in range(n) for j in range(n)])


def _eq_function(I, f, n):
    """relation I[d][v] ('d is the immediate dominator of v') equals the concrete partial map f[v] (-1 = none)"""
    return _eq_cells(I, [f[v] == d for d in range(n) for v in range(n)])


class DomHarness(_GraphHarness):
    kind = "dominators"

    def oracle(self, a, n):
        D = domdef.dominators(a, n, 0)
        return dict(D=D, S=domdef.strict(D, n), I=domdef.immediate(D, n),
                    F=domdef.dominance_frontier(a, n, 0, D), R=domdef.reach_plus(a, n))

    def run(self, inp):
        from ppci.graph import lt
        from ppci.graph.algorithm import fixed_point_dominator as fp
        n = self.n
        g, nodes = self.build(inp["a"])
        ix = {nd: i for i, nd in enumerate(nodes)}
        rng = range(n)
        res = {}
        # Lengauer-Tarjan, stand-alone
        idom = lt.calculate_idom(g, g.entry_node)
        res["lt_idom"] = [ix[idom[nd]] if nd in idom else -1 for nd in nodes]
        # ControlFlowGraph queries (LT + interval-numbered dominator tree)
        res["idom"] = [(-1 if g.get_immediate_dominator(nd) is None else ix[g.get_immediate_dominator(nd)])
                       for nd in nodes]
        res["dom"] = [[bool(g.dominates(nodes[i], nodes[j])) for j in rng] for i in rng]
        res["dom_node"] = [[bool(nodes[i].dominates(nodes[j])) for j in rng] for i in rng]
        res["sdom"] = [[bool(g.strictly_dominates(nodes[i], nodes[j])) for j in rng] for i in rng]
        res["intervals_wellformed"] = all(
            g.tree_map[nd].interval is not None and g.tree_map[nd].interval[0] < g.tree_map[nd].interval[1]
            for nd in nodes)
        g.calculate_dominance_frontier()
        res["df"] = [[nodes[j] in g.df[nodes[i]] for j in rng] for i in rng]
        res["df_keys"] = sorted(ix[k] for k in g.df)
        res["reach"] = [[bool(g.can_reach(nodes[i], nodes[j])) for j in rng] for i in rng]
        # dominator sets derived from the tree (ControlFlowGraph._legacy_dom_sets)
        g._legacy_dom_sets()
        res["tree_dom"] = [[nodes[i] in g._dom[nodes[j]] for j in rng] for i in rng]
        res["tree_sdom"] = [[nodes[i] in g._sdom[nodes[j]] for j in rng] for i in rng]
        # fixed-point implementation
        dom = fp.calculate_dominators(g.nodes, g.entry_node)
        sdom = {nd: dom[nd] - {nd} for nd in nodes}
        res["fp_dom"] = [[nodes[i] in dom[nodes[j]] for j in rng] for i in rng]
        fidom = fp.calculate_immediate_dominators(g.nodes, dom, sdom)
        res["fp_idom"] = [ix[fidom[nd]] if nd in fidom else -1 for nd in nodes]
        return res

    def facts(self, f, r, n):
        return {
            "lt-idom": _eq_function(f["I"], r["lt_idom"], n),
            "cfg-idom": _eq_function(f["I"], r["idom"], n),
            "dominates": sym_and(_eq_matrix(f["D"], r["dom"], n), _eq_matrix(f["D"], r["dom_node"], n),
                                 r["intervals_wellformed"]),
            "strictly-dominates": _eq_matrix(f["S"], r["sdom"], n),
            "dominance-frontier": sym_and(_eq_matrix(f["F"], r["df"], n), r["df_keys"] == list(range(n))),
            "reachability": _eq_matrix(f["R"], r["reach"], n),
            "tree-dominator-sets": sym_and(_eq_matrix(f["D"], r["tree_dom"], n),
                                           _eq_matrix(f["S"], r["tree_sdom"], n)),
            "fixed-point-dominators": _eq_matrix(f["D"], r["fp_dom"], n),
            "fixed-point-idom": _eq_function(f["I"], r["fp_idom"], n),
        }


class PostDomHarness(_GraphHarness):
    kind = "postdominators"
    sink_exit = True

    def premise(self, a, n):
        return sym_and(domdef.all_reachable_from(a, n, 0), domdef.all_reach(a, n, n - 1))

    def oracle(self, a, n):
        P = domdef.post_dominators(a, n, n - 1)
        return dict(P=P, I=domdef.immediate(P, n))

    def run(self, inp):
        from ppci.graph.algorithm import fixed_point_dominator as fp
        n = self.n
        g, nodes = self.build(inp["a"])
        ix = {nd: i for i, nd in enumerate(nodes)}
        rng = range(n)
        res = {}
        res["pdom"] = [[bool(g.post_dominates(nodes[i], nodes[j])) for j in rng] for i in rng]
        res["pdom_node"] = [[bool(nodes[i].post_dominates(nodes[j])) for j in rng] for i in rng]
        res["ipdom"] = [(-1 if g.get_immediate_post_dominator(nd) is None
                         else ix[g.get_immediate_post_dominator(nd)]) for nd in nodes]
        pdom = fp.calculate_post_dominators(g.nodes, g.exit_node)
        spdom = {nd: pdom[nd] - {nd} for nd in nodes}
        res["fp_pdom"] = [[nodes[i] in pdom[nodes[j]] for j in rng] for i in rng]
        ip = fp.calculate_immediate_post_dominators(g.nodes, pdom, spdom)
        res["fp_ipdom"] = [(-1 if ip.get(nd) is None else ix[ip[nd]]) for nd in nodes]
        return res

    def facts(self, f, r, n):
        return {
            "post-dominates": sym_and(_eq_matrix(f["P"], r["pdom"], n), _eq_matrix(f["P"], r["pdom_node"], n)),
            "immediate-post-dominator": _eq_function(f["I"], r["ipdom"], n),
            "fixed-point-post-dominators": _eq_matrix(f["P"], r["fp_pdom"], n),
            "fixed-point-ipdom": _eq_function(f["I"], r["fp_ipdom"], n),
        }


class CfgInfoHarness(_GraphHarness):
    """ppci.graph.domtree.CfgInfo on a real ir.Procedure whose blocks jump according to the adjacency
    booleans (out-degree 0: exit, 1: jmp, 2: cjmp).  ir_function_to_graph adds a synthetic exit node fed by
    the blocks without successors; the oracle graph has that node as index n."""
    kind = "cfginfo.df"

    def premise(self, a, n):
        deg_ok = []
        for i in range(n):
            # at most two successors: no three distinct targets together
            for x in range(n):
                for y in range(x + 1, n):
                    for z in range(y + 1, n):
                        deg_ok.append(sym_not(sym_and(a[i][x], a[i][y], a[i][z])))
        return sym_and(domdef.all_reachable_from(a, n, 0), True, *deg_ok)

    def oracle(self, a, n):
        m = n + 1
        b = [[False] * m for _ in range(m)]
        for i in range(n):
            for j in range(n):
                b[i][j] = a[i][j]
            b[i][n] = sym_not(sym_or(False, *a[i]))
        F = domdef.dominance_frontier(b, m, 0)
        return dict(F=[row[:n] for row in F[:n]])        # CfgInfo.df maps blocks to sets of blocks

    def run(self, inp):
        from ppci import ir
        from ppci.graph.domtree import CfgInfo
        n = self.n
        a = inp["a"]
        f = ir.Procedure("f", ir.Binding.GLOBAL)
        blocks = [ir.Block(f"b{i}") for i in range(n)]
        for b in blocks:
            f.add_block(b)
        f.entry = blocks[0]
        for i in range(n):
            succ = [j for j in range(n) if a[i][j]]          # fork points
            if not succ:
                blocks[i].add_instruction(ir.Exit())
            elif len(succ) == 1:
                blocks[i].add_instruction(ir.Jump(blocks[succ[0]]))
            else:
                c = ir.Const(i, f"c{i}", ir.i32)
                blocks[i].add_instruction(c)
                blocks[i].add_instruction(ir.CJump(c, "==", c, blocks[succ[0]], blocks[succ[1]]))
        info = CfgInfo(f)
        df = [[blocks[j] in info.df[blocks[i]] for j in range(n)] for i in range(n)]
        nodes_ok = all(info.get_block(info.get_node(b)) is b for b in blocks)
        return dict(df=df, nodes_ok=nodes_ok, keys=len(info.df))

    def facts(self, f, r, n):
        F = f["F"]
        return {"cfginfo-dominance-frontier": sym_and(_eq_matrix(F, r["df"], n), r["nodes_ok"], r["keys"] == n)}


def sparse_shape(n, tree, m, subset):
    """(tree edges, candidate extra edges) of a sparse family.
    tree = 0: chain 0->1->...->n-1; otherwise the random recursive tree drawn from Random(tree) (parent of i is a
    node < i).  Candidates: every other ordered pair i != j (back, forward and cross edges); with m > 0 only
    the m pairs drawn from Random(subset)."""
    import random
    if tree == 0:
        t = [(i - 1, i) for i in range(1, n)]
    else:
        r = random.Random(tree * 1000 + n)
        t = [(r.randrange(0, i), i) for i in range(1, n)]
    cands = [(i, j) for i in range(n) for j in range(n) if i != j and (i, j) not in t]
    if m:
        cands = sorted(random.Random(subset * 1000 + n).sample(cands, m))
    return t, cands


def _at_most(xs, k):
    """at most k of the booleans xs are true - purely propositional (sequential counter, shared sub-terms):
    ge[j] = 'at least j+1 of the xs seen so far are true'"""
    ge = [False] * (k + 1)
    for x in xs:
        new = list(ge)
        for j in range(k + 1):
            prev = True if j == 0 else ge[j - 1]
            new[j] = sym_or(ge[j], sym_and(x, prev))
        ge = new
    return sym_not(ge[k])


class SparseDomHarness(DomHarness):
    """Larger graphs (6..8 nodes) than the exhaustive families can reach: a fixed spanning tree (so every
    node is reachable without a premise) plus a SYMBOLIC set of extra edges, one boolean per candidate pair;
    either all candidates with at most k extra edges present (cardinality premise), or all subsets of an
    m-element candidate subset.  Successor/predecessor sets are iterated in ascending or descending node
    index (`order`) - the depth-first numbering and hence Lengauer-Tarjan's path compression depend on it and
    the fixed spanning tree is not closed under relabelling."""
    kind = "dominators-sparse"

    def __init__(self, n, tree=0, k=3, m=0, subset=0, order="asc", fixed=0, nfixed=0, first=None, rest=False,
                 merged=True):
        self.n = n
        self.tree, self.k, self.m, self.subset, self.order = tree, k, m, subset, order
        self.fixed, self.nfixed, self.merged = fixed, nfixed, merged
        # job splitting of the cardinality-bounded family: candidates before index `first` are absent and
        # candidate `first` is present (rest=False) / free like all later ones (rest=True); None = no split
        self.first = first
        self.rest = rest
        self.selfloops = False
        self.seed = 0
        self.tree_edges, self.cands = sparse_shape(n, tree, m, subset)
        self.name = (f"{self.kind}[n={n},tree={tree},{'extras<=%d' % k if not m else 'subset=%d/%d' % (subset, m)},"
                     f"{order}{',fixed=%d/%d' % (fixed, nfixed) if nfixed else ''}"
                     f"{',first%s%d' % ('>=' if rest else '=', first) if first is not None else ''}]")
        self.params = dict(n=n, tree=tree, k=k, m=m, subset=subset, order=order, fixed=fixed, nfixed=nfixed,
                           first=first, rest=rest, merged=merged)
        self._formulas = None
        self._premise = None

    def pairs(self):
        return self.tree_edges + self.cands

    def inputs(self, mk):
        n = self.n
        a = [[False] * n for _ in range(n)]
        for i, j in self.tree_edges:
            a[i][j] = True
        xs = []
        first = self.first
        for c, (i, j) in enumerate(self.cands):
            if first is not None and c < first:
                a[i][j] = False
            elif first is not None and c == first and not self.rest:
                a[i][j] = True
            elif c < self.nfixed:
                a[i][j] = bool((self.fixed >> c) & 1)
            else:
                a[i][j] = mk.bool(f"a_{i}_{j}")
            xs.append(a[i][j])
        if not self.m:
            # at most k extra edges
            if getattr(mk, "symbolic", False):
                if self._premise is None:
                    self._premise = _at_most(xs, self.k)
                mk.assume(self._premise)
            else:
                mk.assume(sum(1 for x in xs if x) <= self.k)
        return dict(a=a)


    # only what depends on the Lengauer-Tarjan result (the fixed-point implementation, reachability and the
    # node-method aliases are covered by the exhaustive families and cost time on larger graphs)
    def oracle(self, a, n):
        D = domdef.dominators(a, n, 0)
        return dict(D=D, S=domdef.strict(D, n), I=domdef.immediate(D, n),
                    F=domdef.dominance_frontier(a, n, 0, D))

    def run(self, inp):
        from ppci.graph import lt
        n = self.n
        g, nodes = self.build(inp["a"])
        ix = {nd: i for i, nd in enumerate(nodes)}
        rng = range(n)
        res = {}
        idom = lt.calculate_idom(g, g.entry_node)
        res["lt_idom"] = [ix[idom[nd]] if nd in idom else -1 for nd in nodes]
        res["idom"] = [(-1 if g.get_immediate_dominator(nd) is None else ix[g.get_immediate_dominator(nd)])
                       for nd in nodes]
        res["dom"] = [[bool(g.dominates(nodes[i], nodes[j])) for j in rng] for i in rng]
        res["sdom"] = [[bool(g.strictly_dominates(nodes[i], nodes[j])) for j in rng] for i in rng]
        g.calculate_dominance_frontier()
        res["df"] = [[nodes[j] in g.df[nodes[i]] for j in rng] for i in rng]
        res["df_keys"] = sorted(ix[k] for k in g.df)
        return res

    def facts(self, f, r, n):
        return {
            "lt-idom": _eq_function(f["I"], r["lt_idom"], n),
            "cfg-idom": _eq_function(f["I"], r["idom"], n),
            "dominates": _eq_matrix(f["D"], r["dom"], n),
            "strictly-dominates": _eq_matrix(f["S"], r["sdom"], n),
            "dominance-frontier": sym_and(_eq_matrix(f["F"], r["df"], n), r["df_keys"] == list(range(n))),
        }


KINDS = {"dom": DomHarness, "pdom": PostDomHarness, "cfginfo": CfgInfoHarness, "sparse": SparseDomHarness}


def mk_sparse(**kw):
    return SparseDomHarness(**kw)


def _split_sparse(n, tree, order, k=0, m=0, subset=0, nfixed=0, budget=None, tail=1200):
    """jobs of one sparse family.  Cardinality-bounded (m == 0): one job per 'first present candidate edge'
    (sizes fall off polynomially instead of one job holding almost everything) until at most `tail` graphs
    remain, which form the last job.  Dense subset (m > 0): the first nfixed candidate booleans are fixed."""
    kws = []
    if m:
        for f in range(1 << nfixed):
            kws.append(dict(n=n, tree=tree, k=0, m=m, subset=subset, order=order, fixed=f, nfixed=nfixed))
    else:
        import math
        ncand = len(sparse_shape(n, tree, 0, 0)[1])
        first = 0
        while first < ncand:
            remaining = ncand - first
            if sum(math.comb(remaining, x) for x in range(k + 1)) <= tail:
                break
            kws.append(dict(n=n, tree=tree, k=k, m=0, subset=0, order=order, first=first, rest=False))
            first += 1
        kws.append(dict(n=n, tree=tree, k=k, m=0, subset=0, order=order, first=first, rest=True))
    if budget:
        return [("mk_boxed", dict(kind="sparse", budget=budget, **kw)) for kw in kws]
    return [("mk_sparse", kw) for kw in kws]


def mk_dom(**kw):
    return DomHarness(**kw)


def mk_pdom(**kw):
    return PostDomHarness(**kw)


def mk_cfginfo(**kw):
    return CfgInfoHarness(**kw)


def mk_boxed(kind, budget, **kw):
    """time-boxed job: explores depth-first until `budget` seconds are used; what is left in the queue is
    counted (evidence: exhaustive=false for this job, explored/unexplored numbers) - it is neither a pass of
    the unexplored part nor a failure."""
    import time
    from symx import harness as H
    h = KINDS[kind](**kw)
    h.cut_allowance = 10 ** 9
    known = H.load_known(os.path.join(os.path.dirname(os.path.dirname(os.path.abspath(__file__))),
                                      "known_findings.json"), PROPERTY)
    res = H.run_harness(h, known, deadline=time.time() + budget)
    cut = res["stats"]["cut_paths"]
    if cut:
        res["exhaustive"] = False
        res["timeboxed"] = dict(budget_s=budget, explored_paths=res["stats"]["paths"] - cut,
                                unexplored_queue_entries=cut)
        res["harness"] += f" TIME-BOXED: {res['stats']['paths'] - cut} paths explored, {cut} subtrees left"
        res["stats"]["paths"] -= cut
    return res


def _satisfiable(factory, n, selfloops, fixed, nfixed, seed=0):
    """can the premise hold at all with these fixed edge bits?  (reachability is monotone in the edge set: try
    with every free edge present; the out-degree bound of the ir harness is checked on the fixed part)"""
    sink = n - 1 if factory == "pdom" else None
    ps = _pairs(n, selfloops, sink, seed)
    a = [[False] * n for _ in range(n)]
    for k, (i, j) in enumerate(ps):
        a[i][j] = bool((fixed >> k) & 1) if k < nfixed else True
    if not domdef.all_reachable_from(a, n, 0):
        return False
    if factory == "pdom" and not domdef.all_reach(a, n, n - 1):
        return False
    if factory == "cfginfo":
        for i in range(n):
            fixed_true = sum(1 for k, (x, y) in enumerate(ps) if x == i and k < nfixed and (fixed >> k) & 1)
            if fixed_true > 2:
                return False
    return True


def _split(kind, n, selfloops, nfixed, budget=None, seed=0):
    js = []
    for k in range(1 << nfixed):
        if not _satisfiable(kind, n, selfloops, k, nfixed, seed):
            continue
        kw = dict(n=n, selfloops=selfloops, fixed=k, nfixed=nfixed)
        if budget:
            js.append(("mk_boxed", dict(kind=kind, budget=budget, merged=True, seed=seed, **kw)))
        else:
            js.append(("mk_" + kind, kw))
    return js


def jobs(tier, seed):
    js = []
    small = []
    for n in (1, 2, 3):
        for kind in ("dom", "pdom", "cfginfo"):
            small.append(("mk_" + kind, dict(n=n, selfloops=True)))
    if tier == "quick":
        js += _split_sparse(6, 0, "desc", k=3)
        js += _split_sparse(6, 0, "asc", k=2)
        js += _split("dom", 4, False, 3)
        js += _split("pdom", 4, True, 2)
        js += _split("cfginfo", 4, False, 2)
        js += small
    else:
        # the 5-node runs are time-boxed per job (budget in seconds); see BOUNDS
        b = SPARSE_BUDGET_S
        for order in ("desc", "asc"):
            js += _split_sparse(7, 0, order, k=4, budget=b)
            js += _split_sparse(6, 0, order, k=4, budget=b)
            js += _split_sparse(6, seed + 1, order, k=4, budget=b)       # seeded random spanning tree
            js += _split_sparse(8, 0, order, k=3, budget=b, tail=2500)
            for n in (6, 7, 8):
                for sub in (2 * seed + 1, 2 * seed + 2):                    # seeded dense candidate subsets
                    js += _split_sparse(n, 0, order, m=12, subset=sub, nfixed=2, budget=b)
        js += _split("dom", 5, False, 8, budget=THOROUGH_BUDGET_S, seed=seed)
        js += _split("pdom", 5, False, 4, budget=THOROUGH_BUDGET_S, seed=seed)
        js += _split("dom", 4, True, 4)
        js += _split("pdom", 4, True, 3)
        js += _split("cfginfo", 4, True, 3)
        js += small
    only = os.environ.get("VERIF_ONLY")
    if only:
        js = [j for j in js if only in repr(j)]
    return js
