"""Program families for C05 (RISC-V code generation).  get(name) -> (source, kind 'c'|'ir', entry, externals).

  <corpus name>           corpus/cprogs.py (C, through the real front end with riscv type sizes)
  k:<ty>:<op>:<K>:<side>  T f(T x) { return x op K; }  (side 'xk') or  K op x  (side 'kx');  ty in int|uint,
                          K a boundary constant: edges of the 12-bit I-immediate, of lui/addi carry, of 32 bits
  n:<ty>:<op>             IR text: one binary operation / comparison on two arguments of a narrow IR type
                          (i8 u8 i16 u16 i32 u32), read by the real ppci.irutils.read_module
  u:<ty>:<op>             IR text: unary - / ~ on a narrow type, operand reused afterwards
  c:<t1>:<t2>             IR text: cast t1 -> t2
  f:<N>                   int t[N] on the stack, first and last element used (frame sizes around the 12-bit offset edge)
  s:<name>                ABI / frame shapes written out below
"""
from corpus import cprogs

M32 = 0xFFFFFFFF
K_QUICK = [2047, 2048, -2048, -2049, 4096, -4096, 0x7FFFFFFF, -0x80000000, 0x12345FFF]
K_MORE = [0, 1, -1, 255, 256, 65535, 4095, 0x7FFFF800, 0x7FFFF7FF, 0x12345678, -0x12345678, 0x800007FF - (1 << 32)]
K_SHIFT = [0, 1, 5, 31]
# ARM: edges of the modified immediate (8 bits rotated by an even amount) and of the 12-bit load/store offset
K_ARM_QUICK = [255, 256, 257, 0xFF00, 4095, 4096, -255, -256, -4096, 0x7FFFFFFF, -0x80000000, 0x12345678]
K_ARM_MORE = [0, 1, -1, 0x101, 0x102, 0x3FC, 0x3FD, 0xFF000000 - (1 << 32), 0xF000000F - (1 << 32), 65535, 65536, -4095, -257,
              0xFFFF00FF - (1 << 32), 0x00FFFF00, 1020, 1024]
OPS_XK = ["+", "-", "*", "&", "|", "^", "/", "%", "<", "=="]
OPS_KX = ["+", "-", "&", "|", "^", "/", "<"]
NARROW = ["i8", "u8", "i16", "u16", "i32", "u32"]
NOPS = ["+", "-", "*", "&", "|", "^", "<<", ">>", "/", "%", "<", "==", ">="]

SHAPES = {}


def S(name, entry, src, ext=()):
    SHAPES["s:" + name] = (src, "c", entry, list(ext))


S("args8", "f", """
int f(int a, int b, int c, int d, int e, int g, int h, int i) { return a - b * 2 + c * 3 - d * 4 + e * 5 - g * 6 + h * 7 - i * 8; }
""")
S("call8", "f", """
int g(int a, int b, int c, int d, int e, int f, int h, int i) { return a - b + c - d + e - f + h * 3 - i * 5; }
int f(int a, int b) { return g(a, b, a + 1, b + 1, a + 2, b + 2, a + 3, b + 3) + a; }
""")
S("ext8", "f", """
int ext8(int, int, int, int, int, int, int, int);
int f(int a, int b) { return ext8(a, b, a + 1, b + 1, a + 2, b + 2, a + 3, b + 3) + a; }
""", ext=("ext8",))
S("pressure", "f", """
int f(int a, int b, int c, int d) {
  int t1 = a + b, t2 = a - c, t3 = a ^ d, t4 = b + c, t5 = b - d, t6 = c ^ d, t7 = a * b, t8 = c * d;
  int t9 = t1 & t2, t10 = t3 | t4, t11 = t5 + t6, t12 = t7 - t8, t13 = t1 ^ t8, t14 = t2 + t7, t15 = t3 - t6, t16 = t4 * t5;
  int t17 = a + t9, t18 = b + t10, t19 = c + t11, t20 = d + t12, t21 = t13 ^ t14, t22 = t15 | t16;
  return t1 + t2 + t3 + t4 + t5 + t6 + t7 + t8 + t9 + t10 + t11 + t12 + t13 + t14 + t15 + t16 + t17 + t18 + t19 + t20 + t21 + t22;
}
""")
S("frame_then_pressure", "f", """
int f(int *p, int b, int c, int d) {
  int t[2]; t[0] = b; t[1] = b + 1; int q = t[b & 1];
  int v0 = p[0], v1 = p[1], v2 = p[2], v3 = p[3];
  int v4 = b + c, v5 = c - d, v6 = b ^ d, v7 = c + d, v8 = b - d;
  p[0] = q;
  return (v0 + v1 + v2 + v3 + v4 + v5 + v6 + v7 + v8) * (v0 ^ v1 ^ v2 ^ v3 ^ v4 ^ v5 ^ v6 ^ v7 ^ v8);
}
""")
S("frame_then_pressure8", "f", """
int tab[8];
int f(int b) {
  int t[2]; t[0] = b; t[1] = b + 1; int q = t[b & 1];
  int v0 = tab[0]; int v1 = tab[1]; int v2 = tab[2]; int v3 = tab[3]; int v4 = tab[4]; int v5 = tab[5]; int v6 = tab[6]; int v7 = tab[7];
  tab[0] = q;
  return (v0 + v1 + v2 + v3 + v4 + v5 + v6 + v7) * (v0 ^ v1 ^ v2 ^ v3 ^ v4 ^ v5 ^ v6 ^ v7);
}
""")
S("live_across_call", "f", """
int ext1(int);
int f(int a, int b, int c, int d) { int x = a * b; int y = c - d; int r = ext1(a); return r + x + y + b + c + d; }
""", ext=("ext1",))
S("big_frame", "f", """
int f(int a, int b) { int t[600]; t[0] = a; t[599] = b; t[300] = a + b; return t[(a & 1) * 599] + t[300]; }
""")
S("mid_frame", "f", """
int f(int a, int b) { int t[100]; t[0] = a; t[99] = b; t[50] = a ^ b; return t[(a & 1) * 99] - t[50]; }
""")
S("bytes_halves", "f", """
signed char gc[4]; unsigned char gu[4]; short gs[2]; unsigned short gh[2];
int f(int a, int i) { int k = i & 1; gc[k] = (signed char)a; gu[k + 2] = (unsigned char)(a >> 8); gs[k] = (short)(a >> 3); gh[1 - k] = (unsigned short)a;
  return gc[k] + gu[k + 2] + gs[k] + gh[1 - k] + gc[1 - k]; }
""")
S("struct_copy", "f", """
struct Q { int a; char b; short c; int d[3]; };
struct Q g1; struct Q g2;
int f(int a, int b) { struct Q q; q.a = a; q.b = (char)b; q.c = (short)(a - b); q.d[0] = b; q.d[1] = a; q.d[2] = a * b; g1 = q; g2 = g1; g2.d[1] = g1.d[2]; return g2.a + g2.d[1]; }
""")
S("ptr_walk", "f", """
int f(unsigned char *p, int n) { int s = 0; for (int i = 0; i < (n & 3); i++) s += p[i] * (i + 1); p[0] = (unsigned char)s; return s; }
""")
S("short_ptr", "f", """
int f(short *p, unsigned short *q) { int a = p[0] + q[1]; p[2] = (short)(a * 3); q[0] = (unsigned short)(a >> 4); return a - p[2] + q[0]; }
""")
S("neg_reuse", "f", """
int f(int a, int b) { int n = -a; int m = ~b; return (n ^ a) + (m & b) + n * m; }
""")
S("trunc_reuse", "f", """
int f(int a, int b) { short s = (short)a; signed char c = (signed char)b; unsigned char u = (unsigned char)a; return s + c + u + a + b; }
""")
S("char_ops", "f", """
int f(signed char a, unsigned char b) { signed char n = -a; unsigned char m = ~b; return (n < a) + (m > b) * 2 + (a >> 1) + (b >> 1) + n + m; }
""")
S("short_ops", "f", """
int f(short a, unsigned short b) { short n = a * 3; unsigned short m = b * 5; return (n < a) + (m > b) * 2 + (a >> 2) + (b >> 3) + n % 7 + m / 3; }
""")
S("ret_char", "f", """
signed char f(int a) { return (signed char)(a + 1); }
""")
S("ret_ushort", "f", """
unsigned short f(int a, int b) { return (unsigned short)(a * b); }
""")
S("narrow_call", "f", """
int g(signed char c, unsigned short s) { return c * 2 + s; }
int f(int a, int b) { return g((signed char)a, (unsigned short)b) + g((signed char)(a >> 8), (unsigned short)(b >> 16)); }
""")
S("fnptr_local", "f", """
int inc(int x) { return x + 1; }
int f(int a) { int (*p)(int) = inc; return p(a) * 2; }
""")
S("fnptr_live_across", "f", """
int mix(int a, int b) { int c = a * 3 + b; int d = b * 5 - a; int e = c ^ d; int g = (c & d) + (e << 2); int h = g - c + d * e; return h + (g ^ a) + (e | b) + c * d; }
int apply(int (*p)(int, int), int a, int b) { int r = p(a, b); return r + a * 3 + b; }
int f(int a, int b) { return apply(mix, a, b) - apply(mix, b, a); }
""")
S("fnptr_global_table", "f", """
int add3(int a, int b, int c) { int t = a + b; int u = b + c; int v = a ^ c; return t * u + v + (t & u) - (u | v); }
int sub3(int a, int b, int c) { int t = a - b; int u = b - c; int v = a & c; return t + u * v + (t ^ u) + (u << 1); }
int (*tab[2])(int, int, int) = { add3, sub3 };
int f(int a, int b) { int x = a + 1; int y = b + 2; int r = tab[a & 1](a, b, x); return r + x * y + a - b; }
""")
S("switch_dense", "f", """
int f(int a, int b) { switch (a & 7) { case 0: return b; case 1: return b + 1; case 2: return b * 2; case 3: return b - 3; case 4: return b ^ 4; case 5: return b | 5; case 6: return b & 6; default: return -b; } }
""")
S("void_proc", "f", """
int g;
void f(int a, int b) { if (a > b) g = a; else g = b - a; }
""")
S("global_init", "f", """
int tab[5] = {10, -20, 30, -40, 0x12345678}; short hs[3] = {-1, 2, -3}; unsigned char bs[4] = {200, 100, 50, 25};
int f(int i) { int k = i & 3; return tab[k] + hs[k % 3] + bs[k] + tab[4]; }
""")
S("shift_var", "f", """
int f(int a, unsigned b, int n) { int k = n & 31; return (a << k) ^ (a >> k) ^ (int)(b >> k); }
""")
S("cmp_all", "f", """
int f(int a, int b, unsigned c, unsigned d) { return (a < b) + (a <= b) * 2 + (a > b) * 4 + (a >= b) * 8 + (a == b) * 16 + (a != b) * 32 + (c < d) * 64 + (c <= d) * 128 + (c > d) * 256 + (c >= d) * 512; }
""")
S("mul_div_mix", "f", """
int f(int a, int b, unsigned c, unsigned d) { return a * b + a / b - a % b + (int)(c * d + c / d - c % d); }
""")
S("const_big", "f", """
int g;
int f(int a) { g = 0x12345678; return a + 0x7ff + 0x800 - 0x801 + 0xfff + 0x1000 + 100000 - 0x7fffffff; }
""")


def _clit(K, ty):
    if ty == "uint":
        return f"{K & M32}u"
    if K == -0x80000000:
        return "(-2147483647 - 1)"
    return f"({K})" if K < 0 else str(K)


def _ir_binop(ty, op):
    if op in ("<", "==", ">="):
        return (f"module m;\nglobal function i32 f({ty} a, {ty} b) {{\n  b0: {{\n    cjmp a {op} b ? b1 : b2;\n  }}\n"
                f"  b1: {{\n    i32 one = 1;\n    return one;\n  }}\n  b2: {{\n    i32 zero = 0;\n    return zero;\n  }}\n}}\n")
    return f"module m;\nglobal function {ty} f({ty} a, {ty} b) {{\n  b0: {{\n    {ty} r = a {op} b;\n    return r;\n  }}\n}}\n"


def _ir_unop(ty, op):
    # ppci's IR reader cannot lex '~' (its writer prints it): written as '-' on a value named inv_*, which
    # _c05.make_module turns into '~' after reading
    n, op = ("inv_n", "-") if op == "~" else ("n", op)
    return (f"module m;\nglobal function {ty} f({ty} a, {ty} b) {{\n  b0: {{\n    {ty} {n} = {op} a;\n    {ty} s = {n} ^ b;\n"
            f"    {ty} r = s + a;\n    return r;\n  }}\n}}\n")


def _ir_cast(t1, t2):
    return f"module m;\nglobal function {t2} f({t1} a) {{\n  b0: {{\n    {t2} r = cast a;\n    return r;\n  }}\n}}\n"


def get(name):
    if name in cprogs.PROGS:
        src, entry, ext = cprogs.PROGS[name]
        return src, "c", entry, ext
    if name in SHAPES:
        return SHAPES[name]
    parts = name.split(":")
    if parts[0] == "k":
        _, ty, op, K, side = parts
        K = int(K)
        T = "int" if ty == "int" else "unsigned"
        e = f"x {op} {_clit(K, ty)}" if side == "xk" else f"{_clit(K, ty)} {op} x"
        return f"{T} f({T} x) {{ return {e}; }}\n", "c", "f", []
    if parts[0] == "f":
        n = int(parts[1])
        return (f"int f(int a, int b) {{ int t[{n}]; t[0] = a; t[{n - 1}] = b; return t[(a & 1) * {n - 1}] - b; }}\n", "c", "f", [])
    if parts[0] == "n":
        return _ir_binop(parts[1], parts[2]), "ir", "f", []
    if parts[0] == "u":
        return _ir_unop(parts[1], parts[2]), "ir", "f", []
    if parts[0] == "c":
        return _ir_cast(parts[1], parts[2]), "ir", "f", []
    raise KeyError(name)


def k_names(tier, march="riscv"):
    out = []
    if march == "arm":
        ks = K_ARM_QUICK if tier == "quick" else K_ARM_QUICK + K_ARM_MORE
    else:
        ks = K_QUICK if tier == "quick" else K_QUICK + K_MORE
    for ty in ("int", "uint"):
        for op in OPS_XK:
            for K in ks:
                if op in ("/", "%") and K == 0:
                    continue
                if tier == "quick" and ty == "uint" and op in ("+", "-", "^", "|", "=="):
                    continue
                out.append(f"k:{ty}:{op}:{K}:xk")
        for op in OPS_KX:
            for K in (ks if tier != "quick" else ([255, 257, -256, 4096] if march == "arm" else [2047, -2049, 4096, 0x7FFFFFFF])):
                if tier == "quick" and ty == "uint":
                    continue
                out.append(f"k:{ty}:{op}:{K}:kx")
        for op in ("<<", ">>"):
            for K in K_SHIFT:
                out.append(f"k:{ty}:{op}:{K}:xk")
            out.append(f"k:{ty}:{op}:{1 if ty == 'int' else 0x80000001}:kx")
    return out


def n_names(tier):
    out = []
    for ty in NARROW:
        for op in NOPS:
            out.append(f"n:{ty}:{op}")
        for op in ("-", "~"):
            out.append(f"u:{ty}:{op}")
    for t1 in NARROW:
        for t2 in NARROW:
            if t1 != t2:
                out.append(f"c:{t1}:{t2}")
    return out


FRAME_WORDS = [100, 480, 500, 504, 505, 506, 507, 508, 509, 510, 511, 512, 600]
FRAME_WORDS_ARM = [60, 250, 253, 254, 255, 256, 257, 258, 1019, 1020, 1021, 1022, 1023, 1024, 1025, 1030]   # ~1 KiB, ~4 KiB


def names(tier, march="riscv"):
    fw = FRAME_WORDS_ARM if march == "arm" else FRAME_WORDS
    return sorted(cprogs.PROGS) + sorted(SHAPES) + k_names(tier, march) + n_names(tier) + [f"f:{n}" for n in fw]


def family(name):
    if name in cprogs.PROGS:
        return "corpus"
    return name.split(":")[0]
