"""C10 layer 3: integer operands of instruction classes through the real encode().

Spec-free oracle (sound without a per-ISA decoder): over all pairs v1 != v2 of operand values
that encode() accepts, the emitted bytes differ (silent truncation, masking and signed/unsigned
aliasing all make two operand values share one encoding), and encode() leaves the operand
attribute unchanged.
"""
import importlib
from symx.harness import Harness
from symx import core
from symx.core import sym_and, sym_or, sym_not, ite, sym_eq

QUICK_ARCHS = ["riscv", "riscv:rvc", "arm", "arm:thumb"]
THOROUGH_ARCHS = QUICK_ARCHS + ["x86_64", "avr", "msp430", "xtensa", "or1k", "mips", "m68k", "microblaze",
                                "stm8", "mcs6500"]
ARCH_PKG = {"riscv": "riscv", "riscv:rvc": "riscv", "arm": "arm", "arm:thumb": "arm"}


# operands that are sizes (number of zero bytes to emit), not values encoded in a bit-field
SKIP_CLASSES = {"Ds", "DZero"}


def candidates(archname):
    """[(class index, class name, operand index)] for instruction classes whose syntax takes only
    registers / ints / labels and at least one int"""
    from ppci.api import get_arch
    from ppci.arch.registers import Register
    arch = get_arch(archname)
    out = []
    for idx, cls in enumerate(arch.isa.instructions):
        syn = getattr(cls, "syntax", None)
        if not syn:
            continue
        fargs = syn.formal_arguments
        kinds = []
        for a in fargs:
            c = a._cls
            if c is int:
                kinds.append("i")
            elif c is str:
                kinds.append("s")
            elif isinstance(c, type) and issubclass(c, Register) and c.all_registers():
                kinds.append("r")
            else:
                kinds = None
                break
        if not kinds or "i" not in kinds:
            continue
        if cls.__name__ in SKIP_CLASSES:
            continue
        for k, kd in enumerate(kinds):
            if kd == "i":
                out.append((idx, cls.__name__, k))
    return out


def _build(archname, idx, opidx, value):
    from ppci.api import get_arch
    from ppci.arch.registers import Register
    arch = get_arch(archname)
    cls = arch.isa.instructions[idx]
    args = []
    for k, a in enumerate(cls.syntax.formal_arguments):
        c = a._cls
        if k == opidx:
            args.append(value)
        elif c is int:
            args.append(0)
        elif c is str:
            args.append("lbl")
        else:
            regs = c.all_registers()
            args.append(regs[min(1, len(regs) - 1)])
    return cls(*args), cls.syntax.formal_arguments[opidx]._name


class ImmHarness(Harness):
    max_paths = 3000

    def __init__(self, arch, idx, cls, opidx):
        self.arch = arch
        self.idx = idx
        self.cls = cls
        self.opidx = opidx
        self.name = f"imm.encode[{arch}:{cls}#{opidx}]"
        self.params = dict(arch=arch, idx=idx, cls=cls, opidx=opidx)
        self.W = 96

    def modules(self):
        from ppci.api import get_arch
        arch = get_arch(self.arch)
        cls = arch.isa.instructions[self.idx]
        assert cls.__name__ == self.cls, "instruction table changed under the job list"
        names = {"ppci.utils.bitfun", "ppci.arch.token", "ppci.arch.encoding", "ppci.arch.isa"}
        for k in cls.__mro__:
            if k.__module__.startswith("ppci."):
                names.add(k.__module__)
        for t in getattr(cls, "tokens", []):
            names.add(t.__module__)
        return [importlib.import_module(n) for n in sorted(names)]

    def inputs(self, mk):
        v1 = mk.int("v1", -(1 << 40), 1 << 40)
        v2 = mk.int("v2", -(1 << 40), 1 << 40)
        mk.assume(v1 < v2)
        return dict(v1=v1, v2=v2)

    def _enc(self, v):
        ins, attr = _build(self.arch, self.idx, self.opidx, v)
        try:
            data = ins.encode()
        except Exception as e:   # any error = rejected
            return ("rejected", type(e).__name__, None)
        return ("ok", list(data), getattr(ins, attr))

    def run(self, i):
        return (self._enc(i["v1"]), self._enc(i["v2"]))

    def post(self, i, out):
        if not out.ok:
            return {"harness-ran": False}
        (k1, d1, a1), (k2, d2, a2) = out.value
        res = {}
        if k1 == "ok":
            res["operand-unchanged-1"] = a1 == i["v1"]
        if k2 == "ok":
            res["operand-unchanged-2"] = a2 == i["v2"]
        if k1 == "ok" and k2 == "ok":
            res["accepted-values-encode-injectively"] = sym_not(sym_eq(d1, d2))
        if not res:
            res["rejected"] = True
        return res


def jobs(tier):
    js = []
    for a in (QUICK_ARCHS if tier == "quick" else THOROUGH_ARCHS):
        try:
            cands = candidates(a)
        except Exception:
            continue
        for idx, cls, k in cands:
            js.append(("mk_imm", dict(arch=a, idx=idx, cls=cls, opidx=k)))
    return js
