"""C31  Regular-expression automata accept exactly the expression's language; the scanner splits
input into longest-match tokens.

Real code: ppci.lang.tools.regex.{parser.Parser, regex (derivatives, derivative classes),
compiler.compile, scanner.pick_transition / scan / make_scanner / Scanner.scan}.

Shapes (enumerated, concrete): regular expressions = ASTs over {literal, escaped metacharacter, '.',
class [..], group, '|', concatenation, '*', '+', '?'} rendered to text with the standard precedence
(ref/regexsem.render).  The real parser + derivative construction + compile() build the DFA tables
concretely for each expression.

Symbolic (decided by the solver): the INPUT STRING / CHARACTER.  Every character is any code point of
ppci's declared alphabet regex.SIGMA = [0, 255].  Three harness families per compiled table:

  pick_transition   the real table walker scanner.pick_transition(table, q, c) (bisect over the sorted row)
                    for EVERY state q of the real table and a symbolic character c; its comparisons fork
                    into character classes; proven: it returns the target of the unique entry
                    (first, last, next) with first <= c <= last, i.e. the rows are total and deterministic
                    over 0..255 and the walker implements the table semantics
  full match        symbolic string of N characters, no forks: the state after j characters is the
                    if-then-else term delta(...delta(0, s[0])..., s[j-1]) over the REAL table (table
                    semantics, tied to the real walker by the harness above); proven for every j = 0..N:
                    accept_states[state_j] <=> s[:j] in L(e), and state_j == error_state => no extension
                    of s[:j] is in L(e) (the scanner stops there).  (ppci has no whole-string match
                    function; walking the table char by char is what scan() does.)
  scanner           the REAL scan loops scanner.scan()/Scanner.scan() on a symbolic string, with
                    pick_transition summarised per target state (one fork per distinct next state; premise
                    proven by the first family on the same table, in the same job, before the scan harness
                    runs); proven on every path: the token list is the maximal-munch tokenisation - every
                    token is the input slice and in the language of the named expression, the name is the
                    first definition matching it, no longer prefix matches any definition, "No match!" is
                    raised exactly where no non-empty prefix of the rest matches, a clean end consumed
                    everything.

where "in L(e)" is the formula built by ref/regexsem (set-of-end-positions matcher over the generator's
AST) over the symbolic code points.  regexsem itself is validated against Python's re.fullmatch on
concrete strings in every job (self-test; not the deciding step).
"""
import os
import io
import time
import random
import contextlib
import signal
import threading
from symx.harness import Harness, run_harness, load_known
from symx.core import sym_and, sym_or, sym_not, implies, ite, SymInt
from symx.seq import SymStr
from ref import regexsem

PROPERTY = "C31"
LEVEL = "model_checking"
BOUNDS = {
    "quick": {"expressions": "'' + all 155 ASTs of size <= 3 over 5 atoms + ~130 repeated-operand compositions of every size<=2 expression with itself (a, b, '.', [a-c], \\*) + 150 seeded samples of sizes 4..6 over 27 atoms",
              "string length (full match)": "0..6, every char symbolic in 0..255",
              "scanner": "string length 4 symbolic (3 for the 4-token vector); every 3rd non-nullable expression, 2/3-token vectors"},
    "thorough": {"expressions": "'' + all 1075 ASTs of size <= 4 over 5 atoms + repeated-operand compositions + 1500 seeded samples of sizes 5..7 over 27 atoms",
                 "string length (full match)": "0..8, every char symbolic in 0..255",
                 "scanner": "string length 5 symbolic (4 for the 4-token vector); every 2nd non-nullable expression, 2/3-token vectors"},
}
OUTSIDE = [
    "code points > 255 (outside regex.SIGMA, the declared alphabet: precondition)",
    "negated classes [^..]: the parser rejects them explicitly (NotImplementedError) - not supported syntax; "
    "the check only asserts that they are rejected rather than mis-compiled",
    "classes with lo >= hi ranges ([a-a]) and a trailing '-', empty alternatives ('a|', '()'), stacked "
    "postfix operators without a group ('a**', 'a*?'): rejected or given a different reading than Python's re; not generated",
    "escapes of non-metacharacters (\\d, \\n ...): ppci reads \\x as the literal x; only escaped metacharacters are generated",
    "nullable token expressions in the scanner (a scanner on an expression matching the empty string yields "
    "empty tokens forever: documented-lexer precondition)",
    "expressions larger than the size bound, strings longer than the length bound",
    "codegen.generate_code (prints the same tables as C text; the tables themselves are what is checked)",
]
ASSUMPTIONS = [
    "language of an expression: textbook definition in ref/regexsem.py; '.' denotes any symbol of the alphabet "
    "(re.DOTALL reading); validated against Python's re.fullmatch on concrete strings in every job",
    "shim: bisect: scanner.bisect.bisect is replaced by CPython's own pure-Python bisect_right "
    "(Lib/bisect.py algorithm) so that the comparisons are visible to the engine; the tuple comparison "
    "(char,) < (first, last, next) inside it is evaluated as one lexicographic-order condition",
    "compile() is deterministic for a given expression (DFA tables are built once per harness and reused on every path)",
    "compositional step: full-match and scanner harnesses use the table semantics 'next state = target of the entry "
    "containing the char'; that the real pick_transition implements exactly this on every state of the same table is "
    "proven by the pick_transition harness (same job) rather than assumed",
    "ties between token definitions matching the same longest token go to the first definition (lex convention; "
    "what Scanner.scan's accept[0] implements)",
    "a DFA construction that does not finish within 60 s is reported as a violation (CompileTimeout), not waited for",
]
SHIMS_USED = ["isinstance", "ord"]
JOB_TIMEOUT = {"quick": 600, "thorough": 2400}
TASKS_PER_CHILD = 4

A, B, C_ = 97, 98, 99


# ---------------------------------------------------------------------------
# pure-Python bisect (CPython Lib/bisect.py), injected as module global `bisect` of the scanner module
def _lex_lt(x, y):
    """x < y for tuples, as ONE condition (Python's lexicographic ordering: first differing item decides,
    a proper prefix is smaller) instead of one fork per item comparison; plain `<` for anything else"""
    if type(x) is tuple and type(y) is tuple and any(type(v) is SymInt for v in x + y):
        n = min(len(x), len(y))
        conds = []
        eq = True
        for k in range(n):
            conds.append(sym_and(eq, x[k] < y[k]))
            eq = sym_and(eq, x[k] == y[k])
        if len(x) < len(y):
            conds.append(eq)
        return bool(sym_or(*conds))
    return x < y


class py_bisect:
    @staticmethod
    def bisect_right(a, x, lo=0, hi=None):
        if lo < 0:
            raise ValueError("lo must be non-negative")
        if hi is None:
            hi = len(a)
        while lo < hi:
            mid = (lo + hi) // 2
            if _lex_lt(x, a[mid]):
                hi = mid
            else:
                lo = mid + 1
        return lo

    @staticmethod
    def bisect_left(a, x, lo=0, hi=None):
        if lo < 0:
            raise ValueError("lo must be non-negative")
        if hi is None:
            hi = len(a)
        while lo < hi:
            mid = (lo + hi) // 2
            if _lex_lt(a[mid], x):
                lo = mid + 1
            else:
                hi = mid
        return lo

    bisect = bisect_right


# ---------------------------------------------------------------------------
# expression shapes
BASE_ATOMS = [["lit", A], ["lit", B], ["dot"], ["cls", [[A, C_]]], ["lit", ord("*")]]
POOL_ATOMS = BASE_ATOMS + [
    ["lit", C_], ["lit", ord(".")], ["lit", ord("|")], ["lit", ord("(")], ["lit", ord(")")],
    ["lit", ord("\\")], ["lit", ord("[")], ["lit", ord("]")], ["lit", ord("+")], ["lit", ord("?")],
    ["lit", ord("-")], ["lit", ord(" ")], ["lit", ord("=")], ["lit", 0x7E],
    ["cls", [[A, A], [B, B]]], ["cls", [[B, ord("d")], [ord("x"), ord("x")]]],
    ["cls", [[ord("0"), ord("9")], [A, A]]], ["cls", [[ord("-"), ord("-")], [A, A]]],
    ["cls", [[ord("]"), ord("]")], [ord("."), ord(".")]]], ["cls", [[ord("="), ord("=")], [ord("-"), ord("-")], [ord("+"), ord("+")]]],
    ["cls", [[A, ord("z")]]], ["cls", [[ord(" "), ord(" ")]]],
]
UNARY = ["star", "plus", "opt", "grp"]
BINARY = ["cat", "alt"]


def all_asts(size, atoms, _memo=None):
    """all ASTs with exactly `size` nodes"""
    memo = {} if _memo is None else _memo
    if size in memo:
        return memo[size]
    if size == 1:
        out = [a for a in atoms]
    else:
        out = []
        for sub in all_asts(size - 1, atoms, memo):
            for u in UNARY:
                out.append([u, sub])
        for ls in range(1, size - 1):
            rs = size - 1 - ls
            for l in all_asts(ls, atoms, memo):
                for r in all_asts(rs, atoms, memo):
                    for b in BINARY:
                        out.append([b, l, r])
    memo[size] = out
    return out


def random_ast(rng, size, atoms):
    if size == 1:
        return rng.choice(atoms)
    if size == 2 or rng.random() < 0.4:
        return [rng.choice(UNARY), random_ast(rng, size - 1, atoms)]
    ls = rng.randint(1, size - 2)
    return [rng.choice(BINARY), random_ast(rng, ls, atoms), random_ast(rng, size - 1 - ls, atoms)]


def expressions(tier, seed):
    """the list of expression ASTs of a tier (deterministic in (tier, seed))"""
    memo = {}
    exhaustive_to = 3 if tier == "quick" else 4
    out = [["eps"]]
    for s in range(1, exhaustive_to + 1):
        out += all_asts(s, BASE_ATOMS, memo)
    # repeated-operand shapes (added after seed C31/D): simplification rules of derivative-based constructions
    # compare operands for EQUALITY (r|r, r* r*, ...), so compose every small expression with itself
    small = list(all_asts(1, BASE_ATOMS[:3] if tier == "quick" else BASE_ATOMS, memo))
    small = small + [[u, t] for t in small for u in UNARY]
    have = {regexsem.render(a) for a in out}
    for t in small:
        for a in (["cat", t, t], ["alt", t, t], ["cat", t, ["cat", t, t]], ["cat", ["opt", t], ["opt", t]],
                  ["cat", ["cat", t, t], ["lit", B]], ["cat", ["grp", ["alt", t, ["star", ["lit", B]]]], ["grp", ["alt", t, ["star", ["lit", B]]]]]):
            r = regexsem.render(a)
            if r not in have:
                have.add(r)
                out.append(a)
    rng = random.Random(1000003 * seed + (1 if tier == "quick" else 2))
    n_sample = 150 if tier == "quick" else 1500
    sizes = (4, 5, 6) if tier == "quick" else (5, 6, 7)
    seen = {regexsem.render(a) for a in out}
    tries = 0
    while n_sample > 0 and tries < 100000:
        tries += 1
        a = random_ast(rng, rng.choice(sizes), POOL_ATOMS if rng.random() < 0.6 else BASE_ATOMS)
        t = regexsem.render(a)
        if t in seen:
            continue
        seen.add(t)
        out.append(a)
        n_sample -= 1
    return out


def token_vectors(tier, seed):
    """small token-vector definitions (lists of non-nullable expressions) for Scanner.scan"""
    memo = {}
    small = [a for s in (1, 2) for a in all_asts(s, BASE_ATOMS, memo) if not regexsem.nullable(a)]
    mid = [a for a in all_asts(3, BASE_ATOMS, memo) if not regexsem.nullable(a)]
    rng = random.Random(7919 * seed + (11 if tier == "quick" else 12))
    n2, n3 = (40, 8) if tier == "quick" else (300, 60)
    out = [
        [["plus", ["cls", [[A, ord("z")]]]], ["plus", ["lit", 32]], ["cls", [[61, 61], [45, 45], [43, 43]]],
         ["plus", ["cls", [[48, 57]]]]],                    # the baseline test's identifier/space/operator/number
        [["cat", ["lit", A], ["lit", B]], ["plus", ["lit", A]]],
        [["plus", ["lit", A]], ["cat", ["lit", A], ["lit", B]]],
        [["lit", A], ["cls", [[A, C_]]]],                   # same longest match: first definition wins
        [["cls", [[A, C_]]], ["lit", A]],
    ]
    seen = set()
    while n2 > 0:
        v = [rng.choice(small + mid), rng.choice(small)]
        rng.shuffle(v)
        k = repr(v)
        if k in seen:
            continue
        seen.add(k)
        out.append(v)
        n2 -= 1
    while n3 > 0:
        v = [rng.choice(small), rng.choice(small + mid), rng.choice(small)]
        k = repr(v)
        if k in seen:
            continue
        seen.add(k)
        out.append(v)
        n3 -= 1
    return out


# ---------------------------------------------------------------------------
def code_points(s):
    if isinstance(s, SymStr):
        return list(s.cps)
    return [ord(c) for c in s]


def iff(a, b):
    return sym_or(sym_and(a, b), sym_and(sym_not(a), sym_not(b)))


# -- what a transition row MEANS (specification of the table format used by scanner/codegen):
#    entries (first, last, next): the next state for char is the `next` of the entry with first <= char <= last
def row_lookup(row, ch):
    """target of the entry of `row` containing ch (-1: none); one if-then-else term, no fork"""
    r = -1
    for first, last, nxt in reversed(row):
        r = ite(sym_and(ch >= first, ch <= last), nxt, r)
    return r


def row_hits(row, ch):
    """number of entries of `row` containing ch"""
    n = 0
    for first, last, _ in row:
        n = n + ite(sym_and(ch >= first, ch <= last), 1, 0)
    return n


def delta(transitions, state, ch):
    """table semantics for a possibly symbolic state"""
    if type(state) is not SymInt:
        return row_lookup(transitions[state], ch) if 0 <= state < len(transitions) else -1
    r = -1
    for q in range(len(transitions) - 1, -1, -1):
        if state.lo <= q <= state.hi:
            r = ite(state == q, row_lookup(transitions[q], ch), r)
    return r


def make_summary(real):
    """pick_transition summarised per next state: forks once per distinct TARGET of the row instead of
    once per bisect comparison.  Equality with the real function is what TransitionHarness proves for
    every (state, char) of the very same table."""
    real = getattr(real, "real", real)

    def pick_transition(state_transitions, state, char):
        if type(char) is not SymInt:
            return real(state_transitions, state, char)
        groups = {}
        for first, last, nxt in state_transitions[state]:
            groups.setdefault(nxt, []).append(sym_and(char >= first, char <= last))
        for nxt, conds in groups.items():
            if sym_or(*conds):
                return nxt
        raise RuntimeError("We should not get here!")

    pick_transition.real = real
    return pick_transition


class CompileTimeout(Exception):
    """the DFA construction did not finish within the deadline (derivatives keep growing)"""


def _with_deadline(fn, seconds):
    """run fn() under a SIGALRM deadline, preserving the job-level alarm of the runner"""
    if threading.current_thread() is not threading.main_thread():
        return fn()
    old_handler = signal.getsignal(signal.SIGALRM)
    remaining = signal.alarm(0)
    t0 = time.time()

    def on_alarm(signum, frame):
        raise CompileTimeout(f"compile() still running after {seconds}s")

    signal.signal(signal.SIGALRM, on_alarm)
    signal.alarm(seconds)
    try:
        return fn()
    finally:
        signal.alarm(0)
        signal.signal(signal.SIGALRM, old_handler)
        if remaining:
            signal.alarm(max(1, int(remaining - (time.time() - t0))))


class _RegexHarness(Harness):
    """common part: the subject is one expression (compile(text)) or a token vector (make_scanner)"""
    shim_modules = ("ppci.lang.tools.regex.scanner",)
    W = 24
    max_paths = 60000
    max_decisions = 400
    choose_limit = 4096
    timeout_ms = 120000            # all queries are tiny; generous limits only matter on an overloaded machine
    prove_timeout_ms = 300000

    def setup(self, asts):
        self.asts = asts
        self.texts = [regexsem.render(a) for a in asts]
        self.subject = " $ ".join(repr(t) for t in self.texts)
        self._prog = None

    def shim_extra(self):
        return {"bisect": py_bisect}

    compile_deadline_s = 60

    def compiled(self):
        """(scanner object or None, (transitions, accepts, error)); built once by the REAL parser +
        derivative construction + compile(); a failure is re-raised on every path"""
        if self._prog is None:
            from ppci.lang.tools import regex
            def build():
                if len(self.texts) == 1:
                    return (None, regex.compile(self.texts[0]))
                with contextlib.redirect_stdout(io.StringIO()):      # make_scanner prints the expressions
                    sc = regex.make_scanner({f"t{k}": t for k, t in enumerate(self.texts)})
                return (sc, sc._prog)
            try:
                self._prog = _with_deadline(build, self.compile_deadline_s)
            except Exception as e:  # noqa
                self._prog = e
        if isinstance(self._prog, Exception):
            raise self._prog
        return self._prog

    def n_states(self):
        try:
            return len(self.compiled()[1][0])
        except Exception:  # noqa
            return 1


class TransitionHarness(_RegexHarness):
    """real scanner.pick_transition on every state of the compiled table and a symbolic character"""

    def __init__(self, asts):
        self.setup(asts)
        self.name = f"regex.pick_transition[{self.subject}]"
        self.params = dict(asts=asts)

    def inputs(self, mk):
        return dict(q=mk.int("q", 0, self.n_states() - 1), c=mk.int("c", 0, 255))

    def run(self, i):
        from ppci.lang.tools.regex import scanner
        transitions, accepts, error = self.compiled()[1]
        q = int(i["q"])                       # forks over the states
        return [q, scanner.pick_transition(transitions, q, i["c"])]

    def post(self, i, out):
        if not out.ok:
            # an expression of the supported syntax must compile, and its table must cover the alphabet
            return {"compiles-and-table-covers-alphabet": False}
        q, nxt = out.value
        transitions, accepts, error = self.compiled()[1]
        row = transitions[q]
        return {"returns-target-of-the-unique-entry-containing-char":
                sym_and(nxt == row_lookup(row, i["c"]), row_hits(row, i["c"]) == 1),
                "target-is-a-state": sym_and(nxt >= 0, nxt < len(transitions))}


class FullMatchHarness(_RegexHarness):
    """DFA acceptance of every prefix of a symbolic string vs. the expression's language (no forks:
    the state after j characters is an if-then-else term over the real table)"""

    def __init__(self, ast, n):
        self.setup([ast])
        self.ast = ast
        self.n = n
        self.name = f"regex.fullmatch[{self.subject}][len<={n}]"
        self.params = dict(ast=ast, n=n)

    def inputs(self, mk):
        return dict(s=mk.str("s", self.n, 0, 255))

    def step(self, transitions, state, ch):
        if type(state) is SymInt or type(ch) is SymInt:
            return delta(transitions, state, ch)
        if state < 0:
            return -1
        from ppci.lang.tools.regex import scanner
        try:
            return scanner.pick_transition(transitions, state, ch)     # concrete replay: the real walker
        except RuntimeError:
            return -1

    def run(self, i):
        transitions, accepts, error = self.compiled()[1]
        cps = code_points(i["s"])
        accepting = [q for q in range(len(transitions)) if accepts[q]]
        state = 0
        acc, dead = [], []
        for j in range(self.n + 1):
            acc.append(sym_or(*[state == q for q in accepting]))
            dead.append(state == error)
            if j < self.n:
                state = self.step(transitions, state, cps[j])
        return dict(acc=acc, dead=dead)

    def post(self, i, out):
        if not out.ok:
            return {"compiles-and-runs": False}
        acc, dead = out.value["acc"], out.value["dead"]
        cps = code_points(i["s"])
        ends = regexsem.Matcher(cps).ends(self.ast, 0)
        lang = [ends.get(j, False) for j in range(self.n + 1)]
        posts = {}
        for j in range(self.n + 1):
            posts[f"accept<=>in-language[len={j}]"] = iff(acc[j], lang[j])
        for j in range(self.n + 1):
            posts[f"error-state=>no-extension-matches[len={j}]"] = implies(dead[j], sym_not(sym_or(*lang[j:])))
        return posts


class ScanHarness(_RegexHarness):
    """maximal-munch tokenisation of a symbolic string by the REAL scan loop.
    one expression: scanner.scan(compile(text), s); several: make_scanner({name: text}).scan(s)"""

    def __init__(self, asts, n):
        self.setup(asts)
        self.n = n
        self.name = f"regex.scan[{self.subject}][len={n}]"
        self.params = dict(asts=asts, n=n)

    def shim_extra(self):
        from ppci.lang.tools.regex import scanner
        return {"bisect": py_bisect, "pick_transition": make_summary(scanner.pick_transition)}

    def inputs(self, mk):
        return dict(s=mk.str("s", self.n, 0, 255))

    def run(self, i):
        from ppci.lang.tools.regex import scanner
        sc, prog = self.compiled()
        s = i["s"]
        gen = scanner.scan(prog, s) if sc is None else sc.scan(s)
        toks = []
        status = "ok"
        try:
            for t in gen:
                name, txt = ("t0", t) if sc is None else t
                toks.append([int(name[1:]), code_points(txt)])
                if len(toks) > self.n:
                    status = "no-progress"
                    break
        except ValueError:
            status = "nomatch"
        return status, toks

    def post(self, i, out):
        if not out.ok:
            return {"compiles-and-runs": False}
        status, toks = out.value
        if status == "no-progress":
            return {"tokens-are-non-empty": False}
        cps = code_points(i["s"])
        m = regexsem.Matcher(cps)

        def match_any(p, e):
            return sym_or(*[m.matches(a, p, e) for a in self.asts])

        posts = {}
        p = 0
        for k, (idx, tcps) in enumerate(toks):
            e = p + len(tcps)
            if e <= p or e > self.n:
                return {f"token[{k}]-non-empty-and-inside-input": False}
            posts[f"token[{k}]-is-input-slice-in-language-of-named-definition"] = sym_and(
                *[x == y for x, y in zip(tcps, cps[p:e])], m.matches(self.asts[idx], p, e))
            if idx:
                posts[f"token[{k}]-name-is-first-matching-definition"] = \
                    sym_not(sym_or(*[m.matches(a, p, e) for a in self.asts[:idx]]))
            posts[f"token[{k}]-is-longest-match"] = \
                sym_not(sym_or(*[match_any(p, e2) for e2 in range(e + 1, self.n + 1)])) if e < self.n else True
            p = e
        if status == "ok":
            posts["clean-end-consumed-all-input"] = p == self.n
        else:
            posts["no-match-raised-only-where-nothing-matches"] = \
                sym_and(p < self.n, sym_not(sym_or(*[match_any(p, e2) for e2 in range(p + 1, self.n + 1)])))
        return posts


class RejectHarness(Harness):
    """negated classes are outside the supported syntax: assert an explicit rejection (no automaton)"""
    W = 24

    def __init__(self, text):
        self.text = text
        self.name = f"regex.unsupported-rejected[{text!r}]"
        self.params = dict(text=text)

    def inputs(self, mk):
        return dict(dummy=mk.int("dummy", 0, 1))

    def run(self, i):
        from ppci.lang.tools import regex
        regex.compile(self.text)
        return "compiled"

    def post(self, i, out):
        return {"rejected-with-NotImplementedError": out.raised("NotImplementedError")}


# ---------------------------------------------------------------------------
_SUM = ("obligations", "discharged", "validated", "reached", "twin_violated")


def _merge(name, parts, t0, extra_errors=()):
    res = dict(harness=name, violations=[], known_hits=[], inconclusive=[], errors=list(extra_errors), funcs=[],
               samples=[], stats={}, solver={}, outcomes={}, exhaustive=True, nontrivial=0)
    for k in _SUM:
        res[k] = 0
    funcs = set()
    for r in parts:
        for k in ("violations", "known_hits", "inconclusive", "errors"):
            res[k] += r.get(k, [])
        funcs.update(r.get("funcs", []))
        if len(res["samples"]) < 3:
            res["samples"] += r.get("samples", [])[:1]
        for k, v in r.get("stats", {}).items():
            res["stats"][k] = res["stats"].get(k, 0) + v
        for k, v in r.get("solver", {}).items():
            res["solver"][k] = res["solver"].get(k, 0) + v
        for k, v in r.get("outcomes", {}).items():
            res["outcomes"][k] = res["outcomes"].get(k, 0) + v
        for k in _SUM:
            res[k] += r.get(k, 0)
        res["exhaustive"] = res["exhaustive"] and r.get("exhaustive", False)
        if r.get("stats", {}).get("paths", 0) > 1:
            res["nontrivial"] += 1
    res["funcs"] = sorted(funcs)
    res["evaluations"] = len(parts)
    res["wall_s"] = time.time() - t0
    return res


def _known():
    root = os.path.dirname(os.path.dirname(os.path.abspath(__file__)))
    return load_known(os.path.join(root, "known_findings.json"), PROPERTY)


_STRINGS = []


def _selftest(asts, name):
    """reference self-test (not the deciding step): regexsem vs. Python's re.fullmatch on concrete strings.
    Python's backtracking matcher needs exponential time on a few shapes ('((((a?)?)+)+)+' on 'aab'):
    those expressions are skipped after a deadline."""
    if not _STRINGS:
        _STRINGS.extend(regexsem.selftest_strings())
    errs = []
    for a in asts:
        try:
            bad = _with_deadline(lambda: regexsem.selftest_one(a, _STRINGS), 10)
        except CompileTimeout:
            continue
        if bad and len(errs) < 5:
            t, s, w = bad
            errs.append(dict(kind="reference-selftest", harness=name,
                             error=f"regexsem disagrees with re.fullmatch: regex {t!r} string {s!r}: {w}"))
    return errs


def chunk_fullmatch(tier, seed, lo, hi, n):
    """full-match harnesses for expressions[lo:hi] of the tier"""
    t0 = time.time()
    asts = expressions(tier, seed)[lo:hi]
    name = f"regex.fullmatch.chunk[{lo}:{hi}]"
    errs = _selftest(asts, name)
    known = _known()
    parts = []
    bad = 0
    for a in asts:
        rs = [run_harness(TransitionHarness([a]), known, want_trace=not parts),
              run_harness(FullMatchHarness(a, n), known, want_trace=not parts)]
        parts += rs
        bad += any(r["violations"] for r in rs)
        if bad >= 2:
            break                                   # enough counterexamples from this chunk
    return _merge(name, parts, t0, errs)


def chunk_scan(tier, seed, lo, hi, n, vectors):
    t0 = time.time()
    if vectors:
        items = token_vectors(tier, seed)[lo:hi]
    else:
        items = [[a] for a in scan_expressions(tier, seed)[lo:hi]]
    name = f"regex.scan.{'vectors' if vectors else 'single'}.chunk[{lo}:{hi}]"
    errs = _selftest([a for v in items for a in v], name)
    known = _known()
    parts = []
    bad = 0
    for v in items:
        # the scan harness runs the real scan loop with pick_transition summarised per target state;
        # the summary's premise (real pick_transition == table semantics on this table) is proven first
        ra = run_harness(TransitionHarness(v), known, want_trace=not parts)
        parts.append(ra)
        if ra["violations"] or ra["errors"] or ra["inconclusive"]:
            bad += 1
        else:
            rs = run_harness(ScanHarness(v, n - 1 if len(v) >= 4 else n), known, want_trace=len(parts) == 1)
            parts.append(rs)
            bad += bool(rs["violations"])
        if bad >= 2:
            break
    return _merge(name, parts, t0, errs)


def scan_expressions(tier, seed):
    ex = [a for a in expressions(tier, seed) if not regexsem.nullable(a)]
    step = 3 if tier == "quick" else 2
    return ex[::step]


def mk_reject(text):
    return RejectHarness(text)


def jobs(tier, seed):
    n = 4 if tier == "quick" else 5            # scanner: string length
    nf = 6 if tier == "quick" else 8           # full match: string lengths 0..nf
    ex = expressions(tier, seed)
    js = []
    csz = 10 if tier == "quick" else 25
    for lo in range(0, len(ex), csz):
        js.append(("chunk_fullmatch", dict(tier=tier, seed=seed, lo=lo, hi=min(lo + csz, len(ex)), n=nf)))
    sx = scan_expressions(tier, seed)
    for lo in range(0, len(sx), csz):
        js.append(("chunk_scan", dict(tier=tier, seed=seed, lo=lo, hi=min(lo + csz, len(sx)), n=n, vectors=False)))
    tv = token_vectors(tier, seed)
    vsz = 5 if tier == "quick" else 12
    for lo in range(0, len(tv), vsz):
        js.append(("chunk_scan", dict(tier=tier, seed=seed, lo=lo, hi=min(lo + vsz, len(tv)), n=n, vectors=True)))
    for t in ("[^a]", "a[^bc]*"):
        js.append(("mk_reject", dict(text=t)))
    only = os.environ.get("VERIF_ONLY")
    if only:
        js = [j for j in js if only in repr(j)]
    return js
