"""C21  WebAssembly modules round-trip through the BINARY form -- value dimension (PARTIAL CLAIM).

What is decided here (solver obligations on ppci's real binary writer / reader running on proxies):
module SHAPES are concrete and come from a small stated family (built with ppci's real component API, plus
modules the real C -> IR -> wasm path produces for programs of corpus/cprogs.py); every NUMERIC IMMEDIATE of the
module is SYMBOLIC: i32.const / i64.const operands (full signed ranges), memarg align / offset, label / local /
global / function / type indices, limits, data-segment offsets and data BYTES, element function indices, the
datacount value (every index / u32 field ranges over the whole u32 range -- a superset of the indices valid for
the module, so the statement covers every larger module of the same local shape as well).

Per path (= per combination of LEB128 lengths of the immediates):
 (a) write -> read:   Module(M.to_bytes()) equals M component by component, field by field (every slot of every
                      definition class and instruction; names are documentation only and not carried by the format);
 (a') canonical:      M.to_bytes() is byte for byte the encoding the specification prescribes (ref/wasmbin.py, written
                      from spec section 5, shortest LEB128 everywhere);
 (b) read -> write:   reading those canonical bytes and writing the result again reproduces them byte for byte;
 (c) sizes:           an independent section walker (ref/wasmbin.walk) finds magic/version, section sizes, vector
                      counts and function-body sizes consistent with the bytes that follow, whatever the LEB
                      lengths of the immediates are;
 (d) over-long LEB:   buffers in which immediates (and, in a variant, all size/count fields) are widened to k bytes
                      (k <= 5 resp. 10, spec 5.2.2) are either rejected with an exception or read back as the
                      same module -- never mis-read.

Outside (stated, not claimed): the TEXT half (printing / parsing crosses str(), a regex tokenizer and float
formatting in C code: a symbolic value cannot pass), comparison with a reference engine / reference assembler (not
installed), float immediates (kept concrete: struct 'f'/'d' are not modelled), module shapes outside the family.
"""
import os
import random
from symx.harness import Harness
from symx import core
from symx.core import sym_and, sym_or, sym_not, sym_eq, SymInt
from symx.seq import SymBytes, _elems
from ref import wasmbin

PROPERTY = "C21"
LEVEL = "model_checking"
JOB_TIMEOUT = {"quick": 280, "thorough": 1500}
BOUNDS = {
    "quick": {
        "module shapes": "8 shapes built with ppci's component API (consts, memops, control: block/loop/if/else/br/br_if/br_table/"
                         "return, globs, tables: table+elem+call_indirect, imports: func/table/memory/global+start, nomax, "
                         "datacount) + the modules ppci's C->IR->wasm path produces for 4 corpus programs (arith, while_sum, "
                         "global_array, switch); 3..123 immediates per module",
        "immediates": "ALL numeric immediates symbolic at once. i32.const [-2**31, 2**31), i64.const [-2**63, 2**63), every u32 "
                      "field (type/func/local/global/label index, memarg align and offset, limits min/max, element function "
                      "index, datacount) [0, 2**32), data bytes [0, 256).  Per harness the FOCUS immediates range over the whole "
                      "type (the real LEB encoder forks into every length), every other immediate over one LEB-length class "
                      "(class of the witness value, or drawn per profile)",
        "focus sets": "API shapes: every immediate alone + 2 pairs; compiled shapes: one immediate per kind of place "
                      "(definition class / opcode / operand position) + 1 pair; 3 random length-class profiles per shape",
        "over-long LEB": "every u32 immediate and 2 signed immediates per shape encoded in exactly k bytes, k in {2, 5} "
                         "(i64: 3, 10); one variant with all size/count fields 5 bytes wide",
    },
    "thorough": {
        "module shapes": "the 8 API shapes + every program of corpus/cprogs.py the C->IR->wasm path accepts",
        "immediates": "as quick",
        "focus sets": "every immediate alone in the API shapes and in 6 compiled shapes, 2 immediates per kind of place in the "
                      "other compiled shapes; API shapes: every pair except i64 x i32 / i64 x i64; compiled shapes: 6 pairs; "
                      "12 random length-class profiles per shape",
        "over-long LEB": "k in {2, 3, 4, 5} (i64: 3, 6, 8, 10); every signed immediate (groups of 3) at k = 5/10 and "
                         "k = 3/9 with all size/count fields 5 bytes wide",
    },
}
OUTSIDE = [
    "TEXT half of C21 (to_string / text parser): the value crosses str(), float repr and a regex tokenizer implemented in C; "
    "a symbolic value cannot pass -- not claimed",
    "reference engine / reference assembler comparison (wasmtime, wabt): not installed -- not claimed",
    "float immediates f32.const / f64.const (struct 'f' / 'd' are not modelled): present in shapes, kept concrete",
    "module shapes outside the stated family; three or more immediates ranging over their whole types at the same time "
    "(lengths of all immediates do vary together through the length-class profiles)",
    "post-MVP encodings (passive / declarative segments, multi-memory, reference types, block type indices, SIMD, "
    "memory.init / data.drop operands, custom and name sections)",
    "validity of the module (index in range, alignment <= natural alignment, min <= max): reader and writer do not "
    "validate; the claim ranges over every u32 instead (a superset of the valid values)",
]
ASSUMPTIONS = [
    "the binary format is the one of the WebAssembly core specification section 5, restated in ref/wasmbin.py (encoder with "
    "shortest LEB128 + section walker; no ppci import); its opcode table is spot-checked by assertions",
    "shim: BytesIO: io.BytesIO is replaced (module global of ppci.wasm.components / binary.reader / binary.writer) by a "
    "list-backed work-alike with read(n) / write(b) / getvalue / tell / seek over byte strings with symbolic elements",
    "identifiers ('$name' ids of definitions, params, locals, labels) are documentation: the binary format carries indices "
    "only; an integer id must come back unchanged, a name is not compared",
    "the Python class used for block/loop/if (Instruction vs BlockInstruction) and the position of a definition among "
    "definitions of other classes are representation, not content",
]
SHIMS_USED = ["isinstance", "bytes", "int", "bool", "struct", "range"]
RULE = ("one evaluation = one batch of harnesses of one module shape (each harness: all paths of the real writer + reader "
        "for all immediate values in the stated ranges); non-trivial = a harness explored more than one path")

U32 = (0, (1 << 32) - 1)
I32 = (-(1 << 31), (1 << 31) - 1)
I64 = (-(1 << 63), (1 << 63) - 1)


# ---------------------------------------------------------------------------------------------------------
# BytesIO work-alike over byte strings with symbolic elements (injected as module global `BytesIO` of
# ppci.wasm.components / binary.reader / binary.writer while shims are on)
class SymBytesIO:
    def __init__(self, initial=b""):
        self.buf = _elems(initial)
        self.pos = 0

    def write(self, b):
        e = _elems(b)
        n = len(e)
        self.buf[self.pos:self.pos + n] = e
        self.pos += n
        return n

    def read(self, n=-1):
        if n is None or n < 0:
            n = len(self.buf) - self.pos
        r = self.buf[self.pos:self.pos + n]
        self.pos += len(r)
        return SymBytes.make(r)

    def getvalue(self):
        return SymBytes.make(self.buf)

    def tell(self):
        return self.pos

    def seek(self, pos, whence=0):
        if whence == 1:
            pos += self.pos
        elif whence == 2:
            pos += len(self.buf)
        self.pos = max(0, pos)
        return self.pos


# ---------------------------------------------------------------------------------------------------------
# the shape family
def _api_shapes():
    """name -> function building a concrete ppci Module from component objects (the witness values only fix the
    shape; the harness replaces every numeric immediate by a symbolic one)"""
    from ppci.wasm import components as C
    I = C.Instruction
    B = C.BlockInstruction

    def R(space, i):
        return C.Ref(space, index=i)

    def consts():
        return C.Module(
            C.Type(0, [], ["i32"]),
            C.Type(1, [(0, "i64")], ["i64"]),
            C.Func(0, R("type", 0), [], [I("i32.const", 5), I("i32.const", -70000), I("i32.add"),
                                          I("i32.const", 2147483647), I("i32.xor")]),
            C.Func(1, R("type", 1), [], [I("local.get", R("local", 0)), I("i64.const", -9000000000000),
                                          I("i64.mul"), I("i64.const", 77), I("i64.sub")]),
            C.Export("a", "func", R("func", 0)),
            C.Export("b", "func", R("func", 1)),
        )

    def memops():
        return C.Module(
            C.Type(0, [(0, "i32")], ["i32"]),
            C.Func(0, R("type", 0), [(None, "i64")], [
                I("local.get", R("local", 0)), I("i32.load", 2, 16),
                I("local.get", R("local", 0)), I("i64.load32_u", 2, 70000), I("local.set", R("local", 1)),
                I("local.get", R("local", 0)), I("local.get", R("local", 1)), I("i64.store8", 0, 3),
                I("local.get", R("local", 0)), I("i32.const", 300), I("i32.store16", 1, 200),
                I("memory.size", 0), I("memory.grow", 0), I("i32.add")]),
            C.Memory(0, 1, 300),
            C.Export("mem", "memory", R("memory", 0)),
            C.Export("f", "func", R("func", 0)),
            C.Data(0, (R("memory", 0), [I("i32.const", 1024)]), b"\x01\x80\xff"),
            C.Data(1, (R("memory", 0), [I("i32.const", 70000)]), b"hello"),
        )

    def control():
        return C.Module(
            C.Type(0, [(0, "i32"), (1, "i32")], ["i32"]),
            C.Func(0, R("type", 0), [(None, "i32"), (None, "i32"), (None, "i64")], [
                B("block", "emptyblock"),
                B("loop", "emptyblock"),
                I("local.get", R("local", 0)), I("i32.eqz"), I("br_if", R("label", 1)),
                I("local.get", R("local", 1)),
                B("if", "i32"),
                I("i32.const", 1),
                I("else"),
                I("local.get", R("local", 2)), I("br_table", [R("label", 0), R("label", 2), R("label", 1)]),
                I("end"),
                I("local.tee", R("local", 3)), I("drop"),
                I("br", R("label", 0)),
                I("end"),
                I("end"),
                B("block", "i32"), I("i32.const", 200), I("return"), I("end"),
            ]),
            C.Export("f", "func", R("func", 0)),
        )

    def globs():
        return C.Module(
            C.Type(0, [], []),
            C.Import("env", "g0", "global", 0, ("i32", False)),
            C.Func(0, R("type", 0), [], [I("global.get", R("global", 1)), I("global.get", R("global", 0)), I("i32.add"),
                                          I("global.set", R("global", 1)), I("global.get", R("global", 2)), I("drop")]),
            C.Global(1, "i32", True, [I("i32.const", -5)]),
            C.Global(2, "i64", False, [I("i64.const", 1 << 40)]),
            C.Global(3, "i32", False, [I("global.get", R("global", 0))]),
            C.Export("g", "global", R("global", 2)),
            C.Start(R("func", 0)),
        )

    def tables():
        return C.Module(
            C.Type(0, [], ["i32"]),
            C.Type(1, [(0, "i32")], ["i32"]),
            C.Func(0, R("type", 0), [], [I("i32.const", 1)]),
            C.Func(1, R("type", 0), [], [I("i32.const", 2)]),
            C.Func(2, R("type", 1), [], [I("local.get", R("local", 0)), I("call_indirect", R("type", 0), R("table", 0)),
                                          I("call", R("func", 1)), I("i32.add")]),
            C.Table(0, "funcref", 3, 200),
            C.Export("t", "table", R("table", 0)),
            C.Elem(0, (R("table", 0), [I("i32.const", 1)]), [R("func", 0), R("func", 1)]),
            C.Elem(1, (R("table", 0), [I("i32.const", 0)]), [R("func", 2)]),
        )

    def imports():
        return C.Module(
            C.Type(0, [(0, "i32")], []),
            C.Type(1, [], []),
            C.Import("env", "print", "func", 0, (R("type", 0),)),
            C.Import("env", "tab", "table", 0, ("funcref", 2, None)),
            C.Import("env", "mem", "memory", 0, (1, 65536)),
            C.Import("js", "glob", "global", 0, ("i64", True)),
            C.Func(1, R("type", 1), [], [I("i32.const", 42), I("call", R("func", 0))]),
            C.Export("main", "func", R("func", 1)),
            C.Start(R("func", 1)),
        )

    def nomax():
        return C.Module(
            C.Type(0, [], []),
            C.Func(0, R("type", 0), [(None, "i32"), (None, "i32"), (None, "f32"), (None, "i32")], [
                I("i32.const", 0), I("i32.const", 1), I("local.get", R("local", 3)), I("select", []), I("drop"),
                I("f32.const", 1.5), I("drop"), I("nop")]),
            C.Table(0, "funcref", 0, None),
            C.Memory(0, 70000, None),
            C.Data(0, (R("memory", 0), [I("i32.const", -1)]), b""),
        )

    def datacount():
        return C.Module(
            C.Memory(0, 1, None),
            C.Data(0, (R("memory", 0), [I("i32.const", 8)]), b"ab"),
            C.DataCount(1),
        )

    return dict(consts=consts, memops=memops, control=control, globs=globs, tables=tables, imports=imports,
                nomax=nomax, datacount=datacount)


API_SHAPES = ["consts", "memops", "control", "globs", "tables", "imports", "nomax", "datacount"]
C_SHAPES_QUICK = ["c:arith", "c:while_sum", "c:global_array", "c:switch"]

_CACHE = {}


def c_shapes_all():
    """every program of corpus/cprogs.py the real C -> IR -> wasm path accepts (and the binary writer can emit)"""
    from corpus import cprogs
    out = []
    for name in sorted(cprogs.PROGS):
        try:
            m = build_shape("c:" + name)
            describe(snap_full(m))
            m.to_bytes()
            out.append("c:" + name)
        except Exception:       # noqa: rejected by the compiler under test (C22/C23 territory), not a shape of this family
            continue
    return out


def build_shape(name):
    """concrete ppci Module of the shape (cached per process: the engine re-executes inputs() once per path)"""
    key = (name, os.environ.get("PPCI_REPO", "/repo"))
    if key in _CACHE:
        return _CACHE[key]
    if name.startswith("c:"):
        import io
        import contextlib
        from corpus import cprogs
        from ppci.api import c_to_ir
        from ppci.wasm.ppci2wasm import IrToWasmCompiler
        src = cprogs.PROGS[name[2:]][0]
        with contextlib.redirect_stdout(io.StringIO()), contextlib.redirect_stderr(io.StringIO()):
            irm = c_to_ir(io.StringIO(src), "arm")
            comp = IrToWasmCompiler()
            comp.prepare_compilation()
            comp.compile(irm)
            m = comp.create_wasm_module()
    else:
        m = _api_shapes()[name]()
    _CACHE[key] = m
    return m


# ---------------------------------------------------------------------------------------------------------
# value classes of one immediate: (kind, lo, hi) such that ppci's LEB encoder does not fork inside the class
def classes(kind):
    out = []
    if kind == "u32":
        for n in range(1, 6):
            out.append((0 if n == 1 else 1 << (7 * (n - 1)), min(1 << (7 * n), 1 << 32) - 1))
        return out
    bits = 32 if kind == "i32" else 64
    nmax = 5 if kind == "i32" else 10
    lim = 1 << (bits - 1)
    for n in range(1, nmax + 1):
        hi = min(1 << (7 * n - 1), lim)
        if n == 1:
            out.append((0, hi - 1))
            out.append((-hi, -1))
        else:
            mid = 1 << (7 * (n - 1))
            low = 1 << (7 * (n - 1) - 1)
            out.append((mid, hi - 1))           # n bytes, top group carries value bits
            out.append((low, mid - 1))          # n bytes only because of the sign bit
            out.append((-hi, -mid - 1))
            out.append((-mid, -low - 1))
    return [(lo, hi) for lo, hi in out if lo <= hi]      # (i64, 10 bytes: only the sign-bit classes exist)


def class_of(kind, v):
    for k, (lo, hi) in enumerate(classes(kind)):
        if lo <= v <= hi:
            return k
    raise ValueError((kind, v))


class Slots:
    """hands out the immediates of a module in a fixed order.  focus = slot numbers ranging over the whole type,
    every other slot ranges over one LEB-length class (the witness value's class for profile 0, a pseudo-random
    class otherwise) -- still symbolic, but the real encoder does not fork on it."""

    def __init__(self, mk, shape, focus, profile, full=False):
        self.mk = mk
        self.focus = set(focus)
        self.rng = random.Random(f"{shape}/{profile}") if profile else None
        self.full = full
        self.n = 0
        self.kinds = []
        self.sigs = []
        self.vals = {}
        self.cap = {}          # slot number -> (lo, hi) overriding the class (OverLong)
        self.ctx = "?"         # place of the next slot (definition class / opcode / operand position)

    def _slot(self, kind, witness):
        k = self.n
        self.n += 1
        self.kinds.append(kind)
        self.sigs.append(self.ctx)
        rng_all = {"u32": U32, "i32": I32, "i64": I64}[kind]
        if k in self.cap:
            lo, hi = self.cap[k]
        elif self.full or k in self.focus:
            lo, hi = rng_all
        else:
            cl = classes(kind)
            c = class_of(kind, witness)
            if self.rng is not None:
                c = self.rng.randrange(len(cl))
            lo, hi = cl[c]
        v = self.mk.int(f"s{k}", lo, hi)
        self.vals[f"s{k}"] = v
        return v

    def u32(self, w):
        return self._slot("u32", w)

    def i32(self, w):
        return self._slot("i32", w)

    def i64(self, w):
        return self._slot("i64", w)

    def data(self, w, tag):
        v = self.mk.bytes(f"d{tag}", len(w))
        self.vals[f"d{tag}"] = v
        return v


def symbolize(m, S):
    """rebuild module m through ppci's real constructors with every numeric immediate taken from S"""
    from ppci.wasm import components as C

    def ref(r):
        return C.Ref(r.space, index=S.u32(r.index))

    def instr(i):
        op = i.opcode
        imms = wasmbin.OPC[op][1]
        args = []
        for pos, (kind, a) in enumerate(zip(imms, i.args)):
            S.ctx = f"{where[0]}/{op}/{pos}"
            if kind == "u":
                if op == "call_indirect" and pos == 1:
                    args.append(a)                       # table index: 0 is the only valid value (MVP)
                elif isinstance(a, C.Ref):
                    args.append(ref(a))
                else:
                    args.append(S.u32(a))
            elif kind == "s32":
                args.append(S.i32(a))
            elif kind == "s64":
                args.append(S.i64(a))
            elif kind == "tbl":
                args.append([ref(r) for r in a])
            else:
                args.append(a)
        args += list(i.args[len(imms):])                 # e.g. select's (empty) result type list
        if isinstance(i, C.BlockInstruction):
            return C.BlockInstruction(op, i.id, *args) if i.id is not None else C.BlockInstruction(op, *args)
        return C.Instruction(op, *args)

    def lim(mn, mx):
        return S.u32(mn), (None if mx is None else S.u32(mx))

    defs = []
    nd = 0
    where = ["?"]
    for d in m.definitions:
        where[0] = type(d).__name__
        S.ctx = where[0]
        if isinstance(d, C.Type):
            defs.append(C.Type(d.id, list(d.params), list(d.results)))
        elif isinstance(d, C.Import):
            if d.kind == "func":
                info = (ref(d.info[0]),)
            elif d.kind == "table":
                info = (d.info[0],) + lim(d.info[1], d.info[2])
            elif d.kind == "memory":
                info = lim(d.info[0], d.info[1])
            else:
                info = d.info
            defs.append(C.Import(d.modname, d.name, d.kind, d.id, info))
        elif isinstance(d, C.Func):
            defs.append(C.Func(d.id, ref(d.ref), list(d.locals), [instr(i) for i in d.instructions]))
        elif isinstance(d, C.Table):
            defs.append(C.Table(d.id, d.kind, *lim(d.min, d.max)))
        elif isinstance(d, C.Memory):
            defs.append(C.Memory(d.id, *lim(d.min, d.max)))
        elif isinstance(d, C.Global):
            defs.append(C.Global(d.id, d.typ, d.mutable, [instr(i) for i in d.init]))
        elif isinstance(d, C.Export):
            defs.append(C.Export(d.name, d.kind, ref(d.ref)))
        elif isinstance(d, C.Start):
            defs.append(C.Start(ref(d.ref)))
        elif isinstance(d, C.Elem):
            r, off = d.mode
            defs.append(C.Elem(d.id, (r, [instr(i) for i in off]), [ref(x) for x in d.refs]))
        elif isinstance(d, C.Data):
            r, off = d.mode
            defs.append(C.Data(d.id, (r, [instr(i) for i in off]), S.data(d.data, nd)))
            nd += 1
        elif isinstance(d, C.DataCount):
            defs.append(C.DataCount(S.u32(d.n)))
        else:
            raise NotImplementedError(type(d).__name__)
    mod = C.Module()
    mod.id = None
    mod.definitions = defs
    return mod


# ---------------------------------------------------------------------------------------------------------
# snapshots: every slot of every component as plain data
def _id(x):
    # ppci2wasm uses a Ref (index + name) as the id of an imported function: its index is the id
    if hasattr(x, "space") and hasattr(x, "index"):
        x = x.index if x.index is not None else x.name
    return ("id", x)


def snap_full(m):
    """[(class name, {slot: value})] in definition order; Ref -> ("ref", space, index, ("id", name))"""
    from ppci.wasm import components as C

    def ref(r):
        if not isinstance(r, C.Ref):
            raise TypeError(f"Ref expected, got {type(r).__name__}")
        return ("ref", r.space, r.index, _id(r.name))

    def arg(a):
        if isinstance(a, C.Ref):
            return ref(a)
        if isinstance(a, (list, tuple)):
            return [arg(x) for x in a]
        return a

    def instr(i):
        # (ppci2wasm emits plain Instruction objects for some block/loop/if, the reader BlockInstruction: the Python
        # class is representation, not content; a missing label id is None)
        return dict(opcode=i.opcode, args=[arg(a) for a in i.args], id=_id(getattr(i, "id", None)))

    def mode(md):
        if md is None:
            return None
        r, off = md
        return (ref(r), [instr(i) for i in off])

    out = []
    for d in m.definitions:
        t = type(d)
        if t is C.Type:
            v = dict(id=_id(d.id), params=[(_id(p), ty) for p, ty in d.params], results=list(d.results))
        elif t is C.Import:
            info = tuple(arg(x) for x in d.info)
            v = dict(modname=d.modname, name=d.name, kind=d.kind, id=_id(d.id), info=info)
        elif t is C.Table:
            v = dict(id=_id(d.id), kind=d.kind, min=d.min, max=d.max)
        elif t is C.Memory:
            v = dict(id=_id(d.id), min=d.min, max=d.max)
        elif t is C.Global:
            v = dict(id=_id(d.id), typ=d.typ, mutable=bool(d.mutable), init=[instr(i) for i in d.init])
        elif t is C.Export:
            v = dict(name=d.name, kind=d.kind, ref=ref(d.ref))
        elif t is C.Start:
            v = dict(ref=ref(d.ref))
        elif t is C.Func:
            v = dict(id=_id(d.id), ref=ref(d.ref), locals=[(_id(l), ty) for l, ty in d.locals],
                     instructions=[instr(i) for i in d.instructions])
        elif t is C.Elem:
            v = dict(id=_id(d.id), mode=mode(d.mode), refs=[ref(r) for r in d.refs])
        elif t is C.Data:
            v = dict(id=_id(d.id), mode=mode(d.mode), data=d.data)
        elif t is C.DataCount:
            v = dict(n=d.n)
        else:
            raise NotImplementedError(t.__name__)
        assert set(v) == set(s for k in t.__mro__ for s in getattr(k, "__slots__", ())), t.__name__
        out.append((t.__name__, v))
    return out


def same(a, b):
    """equality of two modules' full snapshots (a = original, b = read back) -> bool / SymBool: the definitions of each
    class in their order (the position of a definition among definitions of OTHER classes is not content: every class
    has its own section / index space), each compared field by field."""
    ca = sorted(set(c for c, _ in a))
    if ca != sorted(set(c for c, _ in b)):
        return False
    return sym_and(*[_same([v for c, v in a if c == cls], [v for c, v in b if c == cls]) for cls in ca]) if ca else True


def _same(a, b):
    """field-by-field equality of snapshot parts (a = original, b = read back) -> bool / SymBool.
    Identifiers: the binary format carries indices only; an original NAME ('$x') is documentation and is not compared,
    an original integer id must come back unchanged."""
    if isinstance(a, tuple) and len(a) == 2 and a[0] == "id":
        if not (isinstance(b, tuple) and len(b) == 2 and b[0] == "id"):
            return False
        if a[1] is None or isinstance(a[1], str):
            return b[1] is None or isinstance(b[1], (int, str))
        return sym_eq(a[1], b[1])
    if isinstance(a, dict):
        if not isinstance(b, dict) or set(a) != set(b):
            return False
        return sym_and(*[_same(a[k], b[k]) for k in a]) if a else True
    if isinstance(a, (list, tuple)):
        if not isinstance(b, (list, tuple)) or len(a) != len(b):
            return False
        return sym_and(*[_same(x, y) for x, y in zip(a, b)]) if a else True
    if isinstance(a, float) or isinstance(b, float):
        return isinstance(a, float) and isinstance(b, float) and (a == b or (a != a and b != b))
    if a is None or b is None:
        return a is None and b is None
    return sym_eq(a, b)


def describe(full):
    """full snapshot -> module description of ref/wasmbin.py (the abstract content the binary format carries)"""
    def idx(r):
        return r[2]

    def instr(i):
        args = []
        for a in i["args"]:
            if isinstance(a, tuple) and a and a[0] == "ref":
                args.append(idx(a))
            elif isinstance(a, list):
                args.append([idx(x) for x in a])
            else:
                args.append(a)
        if i["opcode"] == "select":
            args = [x for x in args if x != []]
        return (i["opcode"], tuple(args))

    m = dict(types=[], imports=[], funcs=[], tables=[], mems=[], globals=[], exports=[], start=None, elems=[], datas=[],
             datacount=None)
    for cls, v in full:
        if cls == "Type":
            m["types"].append(([t for _, t in v["params"]], list(v["results"])))
        elif cls == "Import":
            info = v["info"]
            desc = idx(info[0]) if v["kind"] == "func" else tuple(info)
            m["imports"].append((v["modname"], v["name"], v["kind"], desc))
        elif cls == "Func":
            m["funcs"].append((idx(v["ref"]), [t for _, t in v["locals"]], [instr(i) for i in v["instructions"]]))
        elif cls == "Table":
            m["tables"].append((v["kind"], v["min"], v["max"]))
        elif cls == "Memory":
            m["mems"].append((v["min"], v["max"]))
        elif cls == "Global":
            m["globals"].append((v["typ"], 1 if v["mutable"] else 0, [instr(i) for i in v["init"]]))
        elif cls == "Export":
            m["exports"].append((v["name"], v["kind"], idx(v["ref"])))
        elif cls == "Start":
            m["start"] = idx(v["ref"])
        elif cls == "Elem":
            r, off = v["mode"]
            m["elems"].append((idx(r), [instr(i) for i in off], [idx(x) for x in v["refs"]]))
        elif cls == "Data":
            r, off = v["mode"]
            m["datas"].append((idx(r), [instr(i) for i in off], v["data"]))
        elif cls == "DataCount":
            m["datacount"] = v["n"]
    return m


def bytes_eq(a, b):
    """a, b: byte strings / lists with possibly symbolic elements"""
    a = list(a)
    b = list(b)
    if len(a) != len(b):
        return False
    return sym_and(*[sym_eq(x, y) for x, y in zip(a, b)]) if a else True


# ---------------------------------------------------------------------------------------------------------
def sections_of(bs, secs):
    """[(id, payload bytes)] sorted by id (stable)"""
    bs = list(bs)
    return sorted(((sid, bs[start:start + size]) for sid, start, size, _c in secs), key=lambda t: t[0])


def sections_eq(w, secs_w, spec, secs_s):
    a = sections_of(w, secs_w)
    b = sections_of(spec, secs_s)
    if [x[0] for x in a] != [x[0] for x in b]:
        return False
    return sym_and(bytes_eq(list(w)[:8], list(spec)[:8]), *[bytes_eq(x[1], y[1]) for x, y in zip(a, b)])


class _WasmHarness(Harness):
    shim_modules = ("ppci.utils.leb128", "ppci.wasm.components", "ppci.wasm.binary.reader", "ppci.wasm.binary.writer",
                    "ppci.format.io")
    max_paths = 3000
    max_decisions = 6000
    choose_limit = 256          # a reader that dispatches on an immediate's byte forks over its values instead of escaping
    timeout_ms = 20000
    prove_timeout_ms = 60000

    def shim_extra(self):
        return {"BytesIO": SymBytesIO}

    def width(self, shape, pad64=False):
        # widest intermediate: the decoders' `(byte & 0x7f) << shift` / `(1 << shift) - 1` with shift <= 7 * bytes
        return 80 if "i64" in slot_kinds(shape) else 48


def _stage(res, key, fn):
    try:
        res[key] = fn()
        return True
    except Exception as e:       # noqa: engine control flow is BaseException
        res["failed"] = key
        res["exc"] = type(e).__name__
        return False


class RoundTrip(_WasmHarness):
    """(a) (a') (b) (c) for one shape, one focus group, one length-class profile"""

    def __init__(self, shape, focus=(), profile=0):
        self.shape = shape
        self.focus = list(focus)
        self.profile = profile
        self.name = f"wasm.binary.roundtrip[{shape}|focus={','.join(map(str, focus))}|p{profile}]"
        self.params = dict(shape=shape, focus=list(focus), profile=profile)
        self.W = self.width(shape)

    def inputs(self, mk):
        S = Slots(mk, self.shape, self.focus, self.profile)
        m = symbolize(build_shape(self.shape), S)
        return dict(m=m, **S.vals)

    def run(self, i):
        from ppci.wasm import Module
        m = i["m"]
        r = dict(failed=None, exc=None, w=None, w2=None, back=None, spec_conform=None)
        if not _stage(r, "w", m.to_bytes):                               # write
            return r
        # (a') the written bytes against the specification's encoding, section by section.  Decided HERE (one engine
        # decision: both outcomes become paths) because only spec-conform bytes are canonical input for the reader;
        # a writer that emits anything else is reported through a' and never reaches (a)/(b) on that path.
        desc = describe(snap_full(m))
        spec = wasmbin.encode_module(desc)
        chk, secs = wasmbin.walk(r["w"])
        _c2, secs2 = wasmbin.walk(spec)
        conform = sections_eq(r["w"], secs, spec, secs2) if chk["sections-tile-buffer"] else False
        r["spec_conform"] = True if conform is True else (False if conform is False else bool(conform))
        if not r["spec_conform"]:
            return r
        if _stage(r, "back", lambda: Module(r["w"])):                   # read
            m2 = r["back"]
            r["back"] = snap_full(m2)
            _stage(r, "w2", m2.to_bytes)                                 # write again
        return r

    def post(self, i, out):
        if not out.ok:
            return {"harness-runs": False}
        o = out.value
        res = {"write-accepts-module": o["w"] is not None}
        if o["w"] is None:
            return res
        full = snap_full(i["m"])
        desc = describe(full)
        chk, _secs = wasmbin.walk(o["w"], wasmbin.expected_counts(desc))
        res["a':writer-emits-spec-encoding-per-section"] = o["spec_conform"]
        for k, v in chk.items():
            res["c:" + k] = v
        if not o["spec_conform"]:
            return res
        res["a:reader-accepts-written-bytes"] = o["failed"] != "back"
        if o["failed"] == "back":
            return res
        res["a:write-read-same-module"] = same(full, o["back"])
        res["b:read-write-same-bytes"] = bytes_eq(o["w2"], o["w"]) if o["w2"] is not None else False
        return res


class OverLong(_WasmHarness):
    """(d) the real reader on a buffer whose immediates are LEB128-encoded in exactly k bytes (over-long where the value
    needs fewer): every u32 immediate, the signed immediates listed in `signed` (each forks the reader on its sign),
    optionally every size / count field as well.  Values range over everything k bytes can hold (within the type)."""

    def __init__(self, shape, k, signed=(), k64=None, struct=False):
        self.shape = shape
        self.k = k
        self.k64 = k64 or k
        self.signed = list(signed)
        self.struct = struct
        self.name = f"wasm.binary.overlong[{shape}|k={k}|k64={self.k64}|signed={','.join(map(str, signed))}|struct={int(struct)}]"
        self.params = dict(shape=shape, k=k, signed=list(signed), k64=self.k64, struct=struct)
        self.W = self.width(shape)

    def inputs(self, mk):
        kinds = slot_kinds(self.shape)
        S = Slots(mk, self.shape, (), 0)
        S.cap = {}
        for n, kind in enumerate(kinds):
            if kind == "u32":
                S.cap[n] = (0, min(1 << (7 * self.k), 1 << 32) - 1)
            elif n in self.signed:
                kk = self.k if kind == "i32" else self.k64
                lim = 1 << (31 if kind == "i32" else 63)
                h = min(1 << (7 * kk - 1), lim)
                S.cap[n] = (-h, h - 1)
        m = symbolize(build_shape(self.shape), S)
        return dict(m=m, **S.vals)

    def padded(self, m):
        """spec encoding of module m with the chosen immediates widened"""
        desc = describe(snap_full(m))
        emap = emission_map(self.shape)
        only = {e for e, k in enumerate(emap) if k in self.signed}
        enc = wasmbin.Enc(pad_imm={"u": self.k, "s32": self.k, "s64": self.k64}, only_signed=only,
                          pad_struct=5 if self.struct else None)
        return enc.module(desc)

    def run(self, i):
        from ppci.wasm import Module
        buf = self.padded(i["m"])
        r = dict(accepted=False, exc=None, back=None, n=len(buf))
        try:
            m2 = Module(SymBytes.make(buf))
        except Exception as e:       # noqa
            r["exc"] = type(e).__name__
            return r
        r["accepted"] = True
        r["back"] = snap_full(m2)
        return r

    def post(self, i, out):
        if not out.ok:
            return {"harness-runs": False}
        o = out.value
        if not o["accepted"]:
            return {"d:rejected-with-exception": True}
        return {"d:accepted-denotes-same-module": same(snap_full(i["m"]), o["back"])}


def mk_rt(shape, focus=(), profile=0):
    return RoundTrip(shape, focus, profile)


def mk_ol(shape, k, signed=(), k64=None, struct=False):
    return OverLong(shape, k, signed, k64, struct)


_SUM = ("obligations", "discharged", "validated", "reached", "twin_violated")


def mk_batch(specs, tag=""):
    """custom job: several harnesses of one shape in one process (the concrete shape is built once), results merged.
    spec = ["rt", shape, focus, profile] | ["ol", shape, k, signed, k64, struct]"""
    from symx.harness import run_harness, load_known
    known = load_known(os.path.join(os.path.dirname(os.path.dirname(os.path.abspath(__file__))), "known_findings.json"),
                       PROPERTY)
    res = dict(harness=f"batch[{tag}|{len(specs)} harnesses]", violations=[], known_hits=[], inconclusive=[], errors=[],
               funcs=[], samples=[], stats={}, solver={}, outcomes={}, exhaustive=True, nontrivial=0, wall_s=0.0,
               **{k: 0 for k in _SUM})
    funcs = set()
    for n, sp in enumerate(specs):
        h = RoundTrip(*sp[1:]) if sp[0] == "rt" else OverLong(*sp[1:])
        r = run_harness(h, known, want_trace=(n < 1))
        for k in _SUM:
            res[k] += r.get(k, 0)
        for k in ("violations", "known_hits", "inconclusive", "errors"):
            res[k] += r.get(k, [])
        funcs.update(r.get("funcs", []))
        if len(res["samples"]) < 2:
            res["samples"] += r.get("samples", [])[:1]
        for k, v in r.get("stats", {}).items():
            res["stats"][k] = res["stats"].get(k, 0) + v
        for k, v in r.get("solver", {}).items():
            res["solver"][k] = res["solver"].get(k, 0) + v
        for k, v in r.get("outcomes", {}).items():
            res["outcomes"][k] = res["outcomes"].get(k, 0) + v
        res["exhaustive"] = res["exhaustive"] and r.get("exhaustive", False)
        if r.get("stats", {}).get("paths", 0) > 1:
            res["nontrivial"] += 1
        res["wall_s"] += r.get("wall_s", 0.0)
    res["funcs"] = sorted(funcs)
    return res


def slot_kinds(shape):
    """kinds of the immediates of a shape, in slot order (concrete dry run of the symbolizer)"""
    key = ("kinds", shape, os.environ.get("PPCI_REPO", "/repo"))
    if key not in _CACHE:
        S = Slots(_DryMk(), shape, (), 0)
        symbolize(build_shape(shape), S)
        _CACHE[key] = (S.kinds, S.sigs)
    return _CACHE[key][0]


def slot_sigs(shape):
    slot_kinds(shape)
    return _CACHE[("kinds", shape, os.environ.get("PPCI_REPO", "/repo"))][1]


def emission_map(shape):
    """ref/wasmbin.Enc numbers immediates in the order it emits them (sections in file order); the harness numbers
    slots in definition order: emission number -> slot number (None: a constant field such as the MVP table index 0)"""
    key = ("emap", shape, os.environ.get("PPCI_REPO", "/repo"))
    if key not in _CACHE:
        S = Slots(_DryMk(marker=True), shape, (), 0)
        desc = describe(snap_full(symbolize(build_shape(shape), S)))
        enc = wasmbin.Enc()
        enc.module(desc)
        _CACHE[key] = [(v - 1000 if v >= 1000 else None) for _kind, v, _n in enc.imm_log]
    return _CACHE[key]


class _DryMk:
    symbolic = False

    def __init__(self, marker=False):
        self.marker = marker

    def int(self, name, lo, hi):
        return 1000 + int(name[1:]) if self.marker else lo

    def bytes(self, name, n):
        return bytes(n)


def _chunks(lst, n):
    return [lst[i:i + n] for i in range(0, len(lst), n)]


_FORKS = {"u32": 5, "i32": 18, "i64": 38}      # paths of the real LEB encoder over the whole type


def _cost(spec, kinds):
    """estimated number of paths of a harness"""
    if spec[0] == "rt":
        c = 1
        for k in spec[2]:
            c *= _FORKS[kinds[k]]
        return c
    return 2 ** len(spec[3])


def _batches(specs, kinds, budget, weight):
    """greedy packing of harness specs into jobs of about `budget` estimated path-units (weight = cost of one path of
    this shape relative to a small one)"""
    specs = sorted(specs, key=lambda sp: -_cost(sp, kinds))
    out, cur, acc = [], [], 0.0
    for sp in specs:
        c = (_cost(sp, kinds) + 1.5) * weight
        if cur and acc + c > budget:
            out.append(cur)
            cur, acc = [], 0.0
        cur.append(sp)
        acc += c
    if cur:
        out.append(cur)
    return out


def jobs(tier, seed):
    import sys
    repo = os.environ.get("PPCI_REPO", "/repo")
    if repo not in sys.path:
        sys.path.insert(0, repo)
    rng = random.Random(f"C21/{tier}/{seed}")
    quick = tier == "quick"
    cshapes = list(C_SHAPES_QUICK) if quick else c_shapes_all()
    others = [c for c in cshapes if c not in C_SHAPES_QUICK]
    full_c = set(C_SHAPES_QUICK) | set(rng.sample(others, min(2, len(others))))
    js = []
    for sh in API_SHAPES + cshapes:
        kinds = slot_kinds(sh)
        sigs = slot_sigs(sh)
        n = len(kinds)
        compiled = sh.startswith("c:")
        specs = []
        # -- every immediate once over its whole range.  Compiled shapes repeat the same few kinds of place many times:
        #    quick takes one representative per kind of place (definition class / opcode / operand position, drawn by
        #    the seed); thorough takes every immediate for 6 programs and 2 representatives per kind for the others
        if compiled and (quick or sh not in full_c):
            rep = {}
            order = list(range(n))
            rng.shuffle(order)
            for k in order:
                if len(rep.setdefault(sigs[k], [])) < (1 if quick else 2):
                    rep[sigs[k]].append(k)
            singles = sorted(k for v in rep.values() for k in v)
        else:
            singles = list(range(n))
        specs += [["rt", sh, [k], 0] for k in singles]
        # -- length-class profiles: all immediates at once, each in a pseudo-random LEB-length class
        nprof = 3 if quick else 12
        specs += [["rt", sh, [], 1 + seed * 100 + p] for p in range(nprof)]
        # -- pairs of immediates over their whole ranges (two lengths vary independently inside one body / section)
        pairs = [(a, b) for a in range(n) for b in range(a + 1, n)]
        if quick:
            pairs = [pq for pq in pairs if _FORKS[kinds[pq[0]]] * _FORKS[kinds[pq[1]]] <= (25 if compiled else 90)]
            pairs = rng.sample(pairs, min(1 if compiled else 2, len(pairs)))
        else:
            pairs = [pq for pq in pairs if _FORKS[kinds[pq[0]]] * _FORKS[kinds[pq[1]]] <= 400]
            if compiled:
                pairs = rng.sample(pairs, min(6, len(pairs)))
        specs += [["rt", sh, [a, b], 0] for a, b in pairs]
        # -- over-long encodings
        signed = [k for k, kd in enumerate(kinds) if kd != "u32"]
        for k in ([2, 5] if quick else [2, 3, 4, 5]):
            sg = sorted(rng.sample(signed, min(2, len(signed))))
            specs.append(["ol", sh, k, sg, {2: 3, 3: 6, 4: 8, 5: 10}[k], False])
        specs.append(["ol", sh, 5, [], 10, True])
        if not quick:
            for grp in _chunks(signed, 3):
                specs.append(["ol", sh, 5, grp, 10, False])
                specs.append(["ol", sh, 3, grp, 9, True])
        weight = 1.0 + n / 40.0
        for c, grp in enumerate(_batches(specs, kinds, 90 if quick else 400, weight)):
            js.append(("mk_batch", dict(specs=grp, tag=f"{sh}#{c}")))
    js.sort(key=lambda j: -sum(_cost(sp, slot_kinds(sp[1])) for sp in j[1]["specs"]))
    only = os.environ.get("VERIF_ONLY")
    if only:
        js = [j for j in js if only in repr(j)]
    return js
