"""C20  LEB128 encoding is the canonical specification encoding.

Real code: ppci.utils.leb128.{signed,unsigned}_leb128_{encode,decode}.
Symbolic: the integer (encoders, round trip) and an arbitrary byte buffer (decoders, so that
non-canonical encodings are covered too).
Oracle (DWARF 5 section 7.6 / wasm core spec 5.2.2), stated without loops over the value:
  * value(bytes) = sum (b_i & 0x7f) << 7i, sign-extended from bit 7n-1 for the signed form
  * continuation bit set exactly on all but the last byte
  * minimal length: n is the least number of 7-bit groups that can hold the value
"""
import os
from symx.harness import Harness
from symx import core
from symx.core import sym_and, sym_or, sym_not, ite

PROPERTY = "C20"
LEVEL = "model_checking"
BOUNDS = {"quick": {"abs(value) <": "2**63", "decoder buffer bytes": 10},
          "thorough": {"abs(value) <": "2**128", "decoder buffer bytes": 19}}
OUTSIDE = ["integers of magnitude >= 2**128 (the code is one uniform loop; stated, not claimed)"]
ASSUMPTIONS = ["LEB128 definition taken from DWARF 5 7.6 / WebAssembly core spec 5.2.2 (closed formulas in props/C20.py)",
               "decoders are fed an iterator over integers 0..255 (what iter(bytes) yields)"]
SHIMS_USED = ["isinstance", "bytes", "int", "bool"]


def value_of(bs, signed):
    n = len(bs)
    v = 0
    for i, b in enumerate(bs):
        v = v | ((b & 0x7F) << (7 * i))
    if signed:
        v = ite((bs[-1] & 0x40) != 0, v - (1 << (7 * n)), v)
    return v


def fits(v, n, signed):
    if signed:
        return sym_and(v >= -(1 << (7 * n - 1)), v < (1 << (7 * n - 1)))
    return sym_and(v >= 0, v < (1 << (7 * n)))


class EncodeHarness(Harness):
    shim_modules = ("ppci.utils.leb128",)
    max_paths = 5000

    def __init__(self, signed, bits):
        self.signed = signed
        self.bits = bits
        self.name = f"leb128.{'signed' if signed else 'unsigned'}_encode[<2^{bits}]"
        self.params = dict(signed=signed, bits=bits)
        self.W = bits + 40

    def inputs(self, mk):
        b = self.bits
        lo = -(1 << b) if self.signed else 0
        return dict(v=mk.int("v", lo, (1 << b) - 1))

    def run(self, i):
        from ppci.utils import leb128
        f = leb128.signed_leb128_encode if self.signed else leb128.unsigned_leb128_encode
        return f(i["v"])

    def post(self, i, out):
        if not out.ok:
            return {"no-exception": False}
        v = i["v"]
        bs = list(out.value)
        n = len(bs)
        if n == 0:
            return {"non-empty": False}
        cont = [((b & 0x80) != 0) for b in bs]
        return {
            "bytes-in-range": sym_and(*[sym_and(b >= 0, b <= 255) for b in bs]),
            "continuation-bits": sym_and(*[c if k < n - 1 else sym_not(c) for k, c in enumerate(cont)]),
            "denotes-value": value_of(bs, self.signed) == v,
            "minimal-length": True if n == 1 else sym_not(fits(v, n - 1, self.signed)),
        }


class RejectNegativeHarness(Harness):
    shim_modules = ("ppci.utils.leb128",)
    name = "leb128.unsigned_encode.rejects-negative"

    def __init__(self, bits):
        self.bits = bits
        self.params = dict(bits=bits)
        self.W = bits + 40

    def inputs(self, mk):
        return dict(v=mk.int("v", -(1 << self.bits), -1))

    def run(self, i):
        from ppci.utils import leb128
        return leb128.unsigned_leb128_encode(i["v"])

    def post(self, i, out):
        return out.raised("ValueError")


class _CountIter:
    def __init__(self, lst):
        self.lst = lst
        self.n = 0

    def __iter__(self):
        return self

    def __next__(self):
        if self.n >= len(self.lst):
            raise StopIteration
        self.n += 1
        return self.lst[self.n - 1]


class DecodeHarness(Harness):
    """arbitrary buffer -> decoder consumes exactly up to the first byte without continuation bit
    and returns the denoted value (also for non-canonical encodings)"""
    shim_modules = ("ppci.utils.leb128",)
    max_paths = 5000

    def __init__(self, signed, nbytes):
        self.signed = signed
        self.nbytes = nbytes
        self.name = f"leb128.{'signed' if signed else 'unsigned'}_decode[{nbytes} bytes]"
        self.params = dict(signed=signed, nbytes=nbytes)
        self.W = 7 * nbytes + 40

    def inputs(self, mk):
        return dict(data=[mk.int(f"b{k}", 0, 255) for k in range(self.nbytes)])

    def run(self, i):
        from ppci.utils import leb128
        f = leb128.signed_leb128_decode if self.signed else leb128.unsigned_leb128_decode
        it = _CountIter(list(i["data"]))
        r = f(it)
        return (r, it.n)

    def post(self, i, out):
        data = i["data"]
        cont = [((b & 0x80) != 0) for b in data]
        if not out.ok:
            # only acceptable failure: the buffer ends before a terminating byte
            return {"fails-only-on-truncated-input": sym_and(out.exc in ("StopIteration", "RuntimeError"), *cont)}
        r, n = out.value
        return {
            "consumes-through-first-terminator": sym_and(*(cont[: n - 1] + [sym_not(cont[n - 1])])),
            "returns-denoted-value": r == value_of(data[:n], self.signed),
        }


class RoundTripHarness(Harness):
    shim_modules = ("ppci.utils.leb128",)
    max_paths = 5000

    def __init__(self, signed, bits):
        self.signed = signed
        self.bits = bits
        self.name = f"leb128.{'signed' if signed else 'unsigned'}_roundtrip[<2^{bits}]"
        self.params = dict(signed=signed, bits=bits)
        self.W = bits + 40

    def inputs(self, mk):
        b = self.bits
        lo = -(1 << b) if self.signed else 0
        return dict(v=mk.int("v", lo, (1 << b) - 1))

    def run(self, i):
        from ppci.utils import leb128
        if self.signed:
            enc = leb128.signed_leb128_encode(i["v"])
            return leb128.signed_leb128_decode(iter(list(enc)))
        enc = leb128.unsigned_leb128_encode(i["v"])
        return leb128.unsigned_leb128_decode(iter(list(enc)))

    def post(self, i, out):
        return sym_and(out.ok, out.value == i["v"]) if out.ok else False


def mk_enc(signed, bits):
    return EncodeHarness(signed, bits)


def mk_dec(signed, nbytes):
    return DecodeHarness(signed, nbytes)


def mk_rt(signed, bits):
    return RoundTripHarness(signed, bits)


def mk_neg(bits):
    return RejectNegativeHarness(bits)


def jobs(tier, seed):
    bits = 63 if tier == "quick" else 128
    nbytes = 10 if tier == "quick" else 19
    js = []
    for s in (True, False):
        js.append(("mk_enc", dict(signed=s, bits=bits)))
        js.append(("mk_rt", dict(signed=s, bits=bits)))
        for n in range(1, nbytes + 1):
            js.append(("mk_dec", dict(signed=s, nbytes=n)))
    js.append(("mk_neg", dict(bits=bits)))
    only = os.environ.get("VERIF_ONLY")
    if only:
        js = [j for j in js if only in repr(j)]
    return js
