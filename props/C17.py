"""C17  ELF output is read back faithfully by independent ELF tools  (the part a solver can decide).

Real code executed on proxies: ppci.format.elf.writer (write_elf, ElfWriter.*), ppci.format.elf.headers
(HeaderTypes), ppci.format.header (mk_header, BaseHeader.serialize/deserialize, FormatField.encode/decode),
ppci.format.elf.string (StringTable), ppci.binutils.objectfile (ObjectFile, Section, Symbol, Image.data/size),
and -- as a secondary round trip -- ppci.format.elf.file (ElfFile.load, ElfSection, read_symbol_table).

One harness = one object SHAPE (concrete, enumerated): machine (x86_64, arm, riscv, xtensa, microblaze),
relocatable file or linked executable, 0-3 sections with their names and lengths, 0-2 images and which sections
they hold, 0-5 symbols (local/global, func/object/no type, defined/undefined/absolute), 0-4 relocations, entry
symbol or none.  Every VALUE is symbolic and decided by the solver: all section bytes, section and image
addresses, symbol values and sizes, relocation offsets and addends, the probed virtual address; section
alignments marked "S" range over {1,2,4,8,16}, gaps between the sections of an image marked "S" over 0..3 and the
offset of an image address inside its 4 KiB page over a stated set (small domains the engine forks over, because
they move file offsets; the page number of an image address is symbolic over the whole range).

The file the REAL writer produced (a byte string with symbolic elements) is handed to an INDEPENDENT reader
written from the ELF specification (ref/elfspec.py); obligations per path of the writer (see ElfHarness.post):
  wellformed-header / -sections / -symtab / -relocs / -segments     the gABI rules the reader collects
  segments-congruent-modulo-alignment, segments-ascending           gABI program-loading rules (own labels)
  machine-class-byteorder-type      e_machine per the gABI registry, EI_CLASS / EI_DATA per the machine's word
                                    size and byte order (ppci's own architecture description), e_type
  sections-faithful                 every object section appears once: name, sh_addr, sh_size, sh_addralign, bytes;
                                    nothing else but .symtab/.strtab/.rela*
  symbols-faithful                  name, binding, type, section (or UNDEF/ABS) and st_size of every symbol
  symbol-values                     ET_EXEC: virtual address (section address + value); ET_REL: section offset
  relocations-faithful              per relocated section: r_offset, referenced symbol, psABI type number, r_addend
  entry-point                       e_entry = address of the entry symbol (executables)
  segments-hold-image               for EVERY virtual address (symbolic probe): covered by a PT_LOAD segment iff
                                    inside an image, and the segment's byte there = the image's byte
  ppci-reader-roundtrip             ppci's own ElfFile.load sees the same header/section/segment/symbol fields
  unsupported-relocations-raise-NotImplementedError   machines without ELF relocation numbering (documented)
plus one job that validates the reference reader itself: its self test, and agreement with GNU readelf on ~40
concrete files written by ppci (all five machines, compiled C linked through the real linker with layouts) and on
gcc / objcopy output (ELF64 and ELF32, REL and RELA, little and big endian).  That job validates the oracle; it
decides nothing about ppci.
"""
import io as _io
import os
import random
import struct as _struct
from symx.harness import Harness
from symx import core, shims
from symx.core import SymInt, sym_and, sym_or, sym_not, ite, implies
from symx.seq import SymBytes

PROPERTY = "C17"
LEVEL = "model_checking"
MACHINES = ["x86_64", "arm", "riscv", "xtensa", "microblaze"]
BITS = {"x86_64": 64, "arm": 32, "riscv": 32, "xtensa": 32, "microblaze": 32}
ALIGNS = [1, 2, 4, 8, 16]
RESIDUES = {"quick": [0, 1, 0x7FC, 0xFFF],
            "thorough": [0, 1, 2, 3, 4, 8, 0x10, 0x100, 0x234, 0x7FF, 0x800, 0x801, 0xC00, 0xFF0, 0xFFC, 0xFFF]}
BOUNDS = {
    "quick": {"shapes": "per machine 9 hand-written shapes (relocatable: empty / 1 section / 3 sections with undefined and "
                        "same-named symbols / absolute symbol / relocations: x86_64 two shapes with 4 relocations each, other "
                        "machines 1 relocation that must be refused; executable: empty / 1 image with 2 sections / 2 images + a "
                        "section outside every image / no entry symbol) + 2 generated (seeded)",
              "section lengths": "0..9",
              "values": "every section byte; section addresses, symbol values and sizes, relocation offsets over the whole "
                        "32/64-bit range of the ELF class; addends over the signed range; probe address over the whole address space",
              "image addresses": "page number symbolic over the whole range, offset inside the 4 KiB page from "
                                 "{0, 1, 0x7fc, 0xfff} (second image: {0, 1}); both orders of two images",
              "symbolic alignments": "{1,2,4,8,16}, at most 2 sections per shape", "symbolic gaps": "0..3, at most 1 per shape",
              "file layouts per shape": "<= 100"},
    "thorough": {"shapes": "the quick shapes + 24 generated per machine (0-3 sections, lengths 0..33, 0-5 symbols, "
                           "0-4 relocations, 0-2 images)",
                 "section lengths": "0..33", "values": "as quick",
                 "image addresses": "page number symbolic over the whole range, offset inside the page from 16 values "
                                    "(0,1,2,3,4,8,0x10,0x100,0x234,0x7ff,0x800,0x801,0xc00,0xff0,0xffc,0xfff; second image: the first 5)",
                 "symbolic alignments": "{1,2,4,8,16}, at most 2 sections per shape", "symbolic gaps": "0..3, at most 2 per shape",
                 "file layouts per shape": "<= 400"},
}
OUTSIDE = ["acceptance by 'independent ELF tools' is represented by the specification-derived reader ref/elfspec.py; GNU readelf "
           "only validates that reader on concrete files (selftest job)",
           "names (sections, symbols) are concrete samples; strings never become symbolic",
           "debug information (ppci's writer emits no DWARF sections), shared objects (ET_DYN, .dynamic), e_flags / sh_flags / "
           "p_flags beyond SHF_INFO_LINK, processor-specific section types",
           "relocatable files WITH relocations for arm, riscv, xtensa, microblaze: ppci declares no ELF relocation numbering "
           "there (Architecture.get_reloc_type raises NotImplementedError; checked that this is what happens)",
           "relocation semantics (that ppci's rel32/abs64 compute what R_X86_64_PC32/_64 compute) belong to C10/C11; here "
           "only the psABI number for the declared kind",
           "objects the ELF format cannot express: alignments that are not powers of two, values beyond the ELF class's word "
           "size, more than 0xff00 sections, overlapping images (premises); 'sh_addr is a multiple of sh_addralign' is a "
           "property of the object handed to the writer and is not judged",
           "image addresses: all pages, but only the listed offsets inside a page (a writer that keeps p_offset congruent to "
           "p_vaddr has a different file layout for each of the 4096 offsets)",
           "x86_64 relocation kinds for which ppci declares no ELF number (jmp8 of the assembler-only short jump): the writer "
           "raises KeyError, no file is written", "more than 3 sections / 2 images / 5 symbols / 4 relocations; sections longer than 33 bytes",
           "that the linker produces images of the assumed form is C12's topic; here linked objects are built through the "
           "ObjectFile/Image API in the form Linker.layout_sections produces (the selftest job links real programs)"]
ASSUMPTIONS = ["ELF as specified in the System V gABI (chapters 4, 5), ELF-64 Object File Format 1.5, AMD64 psABI table 4.10 "
               "(ref/elfspec.py); a relocatable file's st_value is a section offset, an executable's a virtual address",
               "struct.Struct(fmt).pack/unpack is modelled by the symx struct shim (byte order and size per format string, "
               "range check as struct.error); io.BytesIO by a list-backed work-alike (write/seek/tell/read, zero fill on a "
               "write past the end); both are validated on every path by the shim-free concrete re-run with the real "
               "struct and io.BytesIO",
               "the memory image of a linked object: inside an image every section's bytes at its address, zero in the gaps "
               "(ppci Image.data; what objcopy -O binary and the hex writers emit)",
               "sections of an image are ascending, disjoint and start at or after the image address (C12)"]
SHIMS_USED = ["isinstance", "int", "bytes", "bytearray", "struct", "io.BytesIO", "range"]
JOB_TIMEOUT = {"quick": 900, "thorough": 3600}


# ---------------------------------------------------------------------------------------------
# local shims
class _SymStruct:
    """struct.Struct work-alike on top of the engine's struct shim"""

    def __init__(self, fmt):
        self.format = fmt
        self.size = _struct.calcsize(fmt)

    def pack(self, *vals):
        return shims.struct_shim.pack(self.format, *vals)

    def unpack(self, data):
        return shims.struct_shim.unpack(self.format, data)


class struct_c17(shims.struct_shim):
    Struct = _SymStruct


def _ci(v):
    return v if type(v) is int else int(v)


class SymFile:
    """io.BytesIO work-alike whose content is a list of byte values (int or symbolic)"""

    def __init__(self, initial=b""):
        self.buf = list(initial)
        self.pos = 0

    def write(self, data):
        lst = list(data)
        if self.pos > len(self.buf):
            self.buf.extend([0] * (self.pos - len(self.buf)))
        self.buf[self.pos:self.pos + len(lst)] = lst
        self.pos += len(lst)
        return len(lst)

    def seek(self, off, whence=0):
        off = _ci(off)
        if whence == 0:
            if off < 0:
                raise ValueError("negative seek value")
            self.pos = off
        elif whence == 1:
            self.pos = max(0, self.pos + off)
        else:
            self.pos = max(0, len(self.buf) + off)
        return self.pos

    def tell(self):
        return self.pos

    def read(self, n=-1):
        n = len(self.buf) if n is None or _ci(n) < 0 else _ci(n)
        chunk = self.buf[self.pos:self.pos + n]
        self.pos += len(chunk)
        return SymBytes.make(chunk)

    def getvalue(self):
        return SymBytes.make(self.buf)


class io_c17:
    BytesIO = SymFile
    StringIO = _io.StringIO
    SEEK_SET, SEEK_CUR, SEEK_END = 0, 1, 2


# ---------------------------------------------------------------------------------------------
def describe(sh):
    secs = ",".join(f"{s['n']}{s['len']}" + ("@" + str(s["img"]) if s.get("img") is not None else "") for s in sh["secs"])
    return f"{sh['march']}:{sh['kind']}:secs={secs}:syms={len(sh['syms'])}:rels={len(sh['rels'])}:imgs={len(sh.get('imgs', []))}"


def _pow2(mk, name, spec):
    if spec == "S":
        e = mk.int(name + ".log2", 0, 4)
        return 1 << int(e)     # small declared domain {1,2,4,8,16}: the engine forks (file offsets depend on it)
    return int(spec)


def _small(mk, name, spec):
    if spec == "S":
        return int(mk.int(name, 0, 3))
    return int(spec)


class ElfHarness(Harness):
    shim_modules = ("ppci.format.header", "ppci.format.elf.writer", "ppci.format.elf.file", "ppci.format.elf.headers",
                    "ppci.format.elf.string", "ppci.binutils.objectfile")
    max_paths = 4000
    max_decisions = 400
    timeout_ms = 60000
    prove_timeout_ms = 120000
    prove_arrays = False       # obligations are pure bit-vector formulas (skips the per-obligation scan for array terms)

    def __init__(self, shape, idx=0, residues=None):
        self.shape = shape
        self.idx = idx
        self.bits = BITS[shape["march"]]
        self.W = 96 if self.bits == 64 else 48
        self.residues = RESIDUES[os.environ.get("VERIF_TIER_ACTIVE", "quick")] if residues is None else residues
        self.name = f"elf[{idx}:{describe(shape)}]"
        self.params = dict(shape=shape, idx=idx, residues=list(self.residues))

    def shim_extra(self):
        return {"struct": struct_c17, "io": io_c17}

    # ------------------------------------------------------------------ inputs
    def inputs(self, mk):
        sh = self.shape
        M = 1 << self.bits
        exe = sh["kind"] == "exe"
        secs = sh["secs"]
        data = [mk.bytes(f"{s['n']}.data", s["len"]) for s in secs]
        al = [_pow2(mk, f"{s['n']}.al", s.get("al", 4)) for s in secs]
        addr = [None] * len(secs)
        imgs = []
        for k, im in enumerate(sh.get("imgs", []) if exe else []):
            members = [i for i, s in enumerate(secs) if s.get("img") == k]
            off = 0
            offs = []
            for i in members:
                off += _small(mk, f"{secs[i]['n']}.gap", secs[i].get("gap", 0))
                offs.append(off)
                off += secs[i]["len"]
            # image address = page number (symbolic, whole range) * 4096 + offset in the page (symbolic, from a stated
            # set of residues: a writer that keeps p_offset congruent to p_vaddr has one file layout per residue)
            page = mk.int(f"img{k}.page", 0, (M >> 12) - 1)
            res = mk.int(f"img{k}.residue", 0, 4095)
            mk.assume(sym_or(*[res == r for r in (self.residues if k == 0 else self.residues[:len(self.residues) // 4 + 1])]))
            base = page * 4096 + res
            mk.assume(base + off <= M)
            for i, o in zip(members, offs):
                addr[i] = base + o
                if o + secs[i]["len"] == off and secs[i]["len"] == 0:
                    mk.assume(addr[i] <= M - 1)        # premise: also an empty section's address exists in this ELF class
            imgs.append(dict(name=im["n"], address=base, size=off, members=members))
        for a in range(len(imgs)):
            for b in range(a + 1, len(imgs)):                   # premise: images do not overlap
                mk.assume(sym_or(imgs[a]["address"] + imgs[a]["size"] <= imgs[b]["address"],
                                 imgs[b]["address"] + imgs[b]["size"] <= imgs[a]["address"]))
        for i, s in enumerate(secs):
            if addr[i] is None:
                addr[i] = mk.int(f"{s['n']}.address", 0, M - max(s["len"], 1))
        syms = []
        for y in sh["syms"]:
            if y["d"] == "und":
                v = None
            else:
                v = mk.int(f"{y['n']}.value", 0, M - 1)
                if y["d"] == "def":
                    mk.assume(v + addr[self._sec(y["s"])] <= M - 1)   # premise: the symbol's address exists in this ELF class
            syms.append(dict(value=v, size=mk.int(f"{y['n']}.size", 0, M - 1)))
        rels = [dict(offset=mk.int(f"rel{j}.offset", 0, M - 1), addend=mk.int(f"rel{j}.addend", -(M >> 1), (M >> 1) - 1))
                for j, r in enumerate(sh["rels"])]
        probe = mk.int("probe", 0, M - 1)
        return dict(data=data, al=al, addr=addr, imgs=imgs, syms=syms, rels=rels, probe=probe)

    def _sec(self, name):
        return [s["n"] for s in self.shape["secs"]].index(name)

    # ------------------------------------------------------------------ the real code
    def build(self, i):
        from ppci.api import get_arch
        from ppci.binutils.objectfile import ObjectFile, Section, Image, RelocationEntry
        sh = self.shape
        obj = ObjectFile(get_arch(sh["march"]))
        sections = []
        for k, s in enumerate(sh["secs"]):
            sec = Section(s["n"])
            if core.ENG is None:
                sec.add_data(bytes(i["data"][k]))
            else:
                from symx.seq import SymByteArray
                sec.data = SymByteArray(list(i["data"][k]))
            sec.alignment = i["al"][k]
            sec.address = i["addr"][k]
            obj.add_section(sec)
            sections.append(sec)
        for n, (y, v) in enumerate(zip(sh["syms"], i["syms"])):
            obj.add_symbol(n, y["n"], y["b"], v["value"], y["s"] if y["d"] == "def" else None, y["t"], v["size"])
        for r, v in zip(sh["rels"], i["rels"]):
            obj.add_relocation(RelocationEntry(r["t"], r["y"], r["s"], v["offset"], v["addend"]))
        for im in i["imgs"]:
            image = Image(im["name"], im["address"])
            for k in im["members"]:
                image.add_section(sections[k])
            obj.add_image(image)
        if sh.get("entry") is not None:
            obj.entry_symbol_id = sh["entry"]
        return obj

    def run(self, i):
        from ppci.format.elf import write_elf
        from ppci.format.elf.file import ElfFile
        sh = self.shape
        obj = self.build(i)
        f = _io.BytesIO() if core.ENG is None else SymFile()
        write_elf(obj, f, type="executable" if sh["kind"] == "exe" else "relocatable")
        raw = f.getvalue()
        res = dict(file=raw)
        try:
            f2 = _io.BytesIO(raw) if core.ENG is None else SymFile(raw)
            e = ElfFile.load(f2)
            hdr = e.elf_header
            view = dict(bits=e.bits,
                        header={fl.name: hdr[fl.name] for fl in hdr._fields if fl.name},
                        phdrs=[{fl.name: p[fl.name] for fl in p._fields if fl.name} for p in e.program_headers],
                        sections=[dict(name=s.name, data=s.data, **{fl.name: s.header[fl.name] for fl in s.header._fields
                                                                    if fl.name}) for s in e.sections],
                        symbols=[[{fl.name: y[fl.name] for fl in y._fields if fl.name} for y in e.read_symbol_table(s)]
                                 for s in e.sections if s.header.sh_type == 2])
            res["loaded"] = view
        except Exception as ex:    # noqa: engine control flow is BaseException
            res["loaded"] = "exc:" + type(ex).__name__
        return res

    # ------------------------------------------------------------------ the property
    def post(self, i, out):
        from ref import elfspec as E
        sh = self.shape
        exe = sh["kind"] == "exe"
        march = sh["march"]
        if sh["rels"] and not exe and march != "x86_64":
            return {"unsupported-relocations-raise-NotImplementedError": out.raised("NotImplementedError")}
        if not out.ok:
            return {"no-exception": False}
        raw = out.value["file"]
        try:
            elf = E.read(raw)
        except E.Malformed:
            return {"wellformed-header": False}
        res = {}
        for lab, prefixes in (("wellformed-header", ("ident:", "header:")), ("wellformed-sections", ("sections:", "strings:")),
                              ("wellformed-symtab", ("symtab:",)), ("wellformed-relocs", ("reloc:",)),
                              ("wellformed-segments", ("segments:",)),
                              ("segments-congruent-modulo-alignment", ("segments-congruent:",)),
                              ("segments-ascending", ("segments-ascending:",))):
            cs = [c for l, c in elf.wf if l.startswith(prefixes)]
            res[lab] = sym_and(*cs) if cs else True

        # -- identification
        from ppci.api import get_arch
        from ppci.arch.arch_info import Endianness
        info = get_arch(march).info
        res["machine-class-byteorder-type"] = sym_and(
            elf.ehdr["e_machine"] == E.EM[march], elf.bits == 8 * info.get_size("ptr"),
            elf.little == (info.endianness == Endianness.LITTLE), elf.etype == (E.ET_EXEC if exe else E.ET_REL))

        # -- sections
        conds = []
        secidx = {}
        expected_names = set()
        for k, s in enumerate(sh["secs"]):
            hits = elf.section_index(s["n"])
            expected_names.add(s["n"])
            if len(hits) != 1:
                conds.append(False)
                continue
            x = hits[0]
            secidx[s["n"]] = x
            h = elf.shdrs[x]
            conds += [h["_type"] == E.SHT_PROGBITS, h["sh_addr"] == i["addr"][k], h["_size"] == s["len"],
                      h["sh_addralign"] == i["al"][k]]
            d = elf.data[x]
            if len(d) == s["len"]:
                conds += [a == b for a, b in zip(d, list(i["data"][k]))]
        relsecs = sorted(set(r["s"] for r in sh["rels"])) if not exe else []
        for x in range(1, len(elf.shdrs)):
            t = elf.shdrs[x]["_type"]
            if t == E.SHT_PROGBITS:
                conds.append(elf.names[x] in expected_names)
            else:
                conds.append(t in (E.SHT_SYMTAB, E.SHT_STRTAB, E.SHT_RELA, E.SHT_REL))
        conds.append(len(elf.symtabs) == 1)
        conds.append(sorted(secidx.get(n, -1) for n in relsecs) == sorted(t["target"] for t in elf.relocs.values()))
        res["sections-faithful"] = sym_and(*conds) if conds else True

        # -- symbols
        syms = elf.all_symbols()
        byname = {}
        for y in syms:
            byname.setdefault((y["name"], y["bind"], y["shndx"]), []).append(y)
        conds = [len(syms) == len(sh["syms"])]
        vconds = []
        symref = {}
        for n, (y, v) in enumerate(zip(sh["syms"], i["syms"])):
            bind = E.STB_GLOBAL if y["b"] == "global" else E.STB_LOCAL
            shndx = {"und": E.SHN_UNDEF, "abs": E.SHN_ABS}.get(y["d"])
            if shndx is None:
                shndx = secidx.get(y["s"], -1)
            got = byname.get((y["n"], bind, shndx), [])
            if len(got) != 1:
                conds.append(False)
                continue
            g = got[0]
            symref[n] = g
            typ = {"func": E.STT_FUNC, "object": E.STT_OBJECT}.get(y["t"], E.STT_NOTYPE)
            conds += [g["type"] == typ, g["st_size"] == v["size"], g["st_other"] == 0]
            if y["d"] == "und":
                vconds.append(g["st_value"] == 0)
            elif y["d"] == "abs":
                vconds.append(g["st_value"] == v["value"])
            elif exe:
                vconds.append(g["st_value"] == v["value"] + i["addr"][self._sec(y["s"])])
            else:
                vconds.append(g["st_value"] == v["value"])
        res["symbols-faithful"] = sym_and(*conds)
        res["symbol-values"] = sym_and(*vconds) if vconds else True

        # -- relocations
        if not exe:
            conds = []
            for name in relsecs:
                want = [(r, v) for r, v in zip(sh["rels"], i["rels"]) if r["s"] == name]
                tabs = [t for t in elf.relocs.values() if t["target"] == secidx.get(name, -1)]
                if len(tabs) != 1 or len(tabs[0]["entries"]) != len(want) or not tabs[0]["rela"]:
                    conds.append(False)
                    continue
                table = elf.symtabs.get(tabs[0]["symtab"], [])
                for (r, v), g in zip(want, tabs[0]["entries"]):
                    target = table[g["sym"]] if g["sym"] < len(table) else None
                    conds += [g["offset"] == v["offset"], g["addend"] == v["addend"], target is symref.get(r["y"], 0),
                              g["type"] in E.X86_64_KINDS.get(r["t"], ())]
            res["relocations-faithful"] = sym_and(*conds) if conds else True

        # -- entry point
        if exe and sh.get("entry") is not None:
            y, v = sh["syms"][sh["entry"]], i["syms"][sh["entry"]]
            base = i["addr"][self._sec(y["s"])] if y["d"] == "def" else 0
            res["entry-point"] = elf.ehdr["e_entry"] == v["value"] + base
        else:
            res["entry-point"] = elf.ehdr["e_entry"] == 0

        # -- loadable segments against the linked memory image, at a symbolic virtual address
        if exe:
            a = i["probe"]
            loads = elf.loads()
            in_img, img_byte = False, 0
            for im in reversed(i["imgs"]):
                inside = sym_and(im["address"] <= a, a < im["address"] + im["size"])
                b = 0
                for k in im["members"]:
                    n = sh["secs"][k]["len"]
                    if n:
                        rel = a - i["addr"][k]
                        b = ite(sym_and(rel >= 0, rel < n), E.select(list(i["data"][k]), rel) if type(rel) is not int
                                else (i["data"][k][rel] if 0 <= rel < n else 0), b)
                img_byte = ite(inside, b, img_byte)
                in_img = sym_or(inside, in_img)
            covered = sym_or(*[E.segment_covers(p, a) for p in loads]) if loads else False
            conds = [len(loads) == len(i["imgs"]), sym_or(sym_and(covered, in_img), sym_and(sym_not(covered), sym_not(in_img)))]
            for p in loads:
                conds.append(implies(E.segment_covers(p, a), E.segment_byte(p, a) == img_byte))
            res["segments-hold-image"] = sym_and(*conds)
        else:
            res["segments-hold-image"] = len(elf.phdrs) == 0

        # -- ppci's own reader on the same bytes
        res["ppci-reader-roundtrip"] = self._roundtrip(elf, out.value["loaded"], E)
        return res

    def _roundtrip(self, elf, v, E):
        if not isinstance(v, dict):
            return False
        conds = [v["bits"] == elf.bits]
        conds += [v["header"].get(f) == elf.ehdr[f] for f, _ in E.EHDR[elf.cls]]
        conds.append(len(v["phdrs"]) == len(elf.phdrs))
        for p, q in zip(v["phdrs"], elf.phdrs):
            conds += [p.get(f) == q[f] for f, _ in E.PHDR[elf.cls]]
        conds.append(len(v["sections"]) == len(elf.shdrs))
        for x, (s, h) in enumerate(zip(v["sections"], elf.shdrs)):
            conds += [s.get(f) == h[f] for f, _ in E.SHDR[elf.cls]]
            conds.append(s["name"] == (elf.names[x] or ""))
            d = list(s["data"])
            conds.append(len(d) == len(elf.data[x]))
            conds += [a == b for a, b in zip(d, elf.data[x])]
        tabs = [elf.symtabs[k] for k in sorted(elf.symtabs)]
        conds.append(len(v["symbols"]) == len(tabs))
        for got, want in zip(v["symbols"], tabs):
            conds.append(len(got) == len(want))
            for g, w in zip(got, want):
                conds += [g.get(f) == w[f] for f, _ in E.SYM[elf.cls]]
        return sym_and(*conds)


def mk_elf(shape, idx=0, residues=None):
    return ElfHarness(shape, idx, residues)


# ---------------------------------------------------------------------------------------------
def mk_selftest():
    """validates the ORACLE: ref/elfspec self test + agreement with GNU readelf on concrete files"""
    import time
    import shutil
    import tempfile
    import logging
    t0 = time.time()
    name = "elfspec.selftest+readelf"
    res = dict(harness=name, violations=[], known_hits=[], inconclusive=[], errors=[], funcs=[], samples=[],
               stats=dict(paths=1, decisions=0, feas_queries=0, cut_paths=0, solver_s=0.0),
               obligations=1, discharged=0, validated=0, reached=1, twin_violated=1, exhaustive=True, nontrivial=1)
    from ref import elfspec as E
    from props import _elfx as X
    tmp = tempfile.mkdtemp()
    logging.disable(logging.ERROR)
    try:
        E.selftest()
        note = dict(harness=name, readelf=bool(X.READELF), files=0, agree=0, no_file=[])
        if X.READELF:
            for path, tag in X.toolchain_corpus(tmp) + X.ppci_corpus(tmp):
                if path is None:
                    note["no_file"].append(tag)
                    continue
                note["files"] += 1
                bad = X.compare(path)
                if bad:
                    res["errors"].append(dict(kind="reference-reader-disagrees-with-readelf", harness=name,
                                              error=f"{tag}: " + "; ".join(bad[:5])))
                else:
                    note["agree"] += 1
                if tag.startswith(("gcc", "elf")):      # what the GNU tools write must pass every rule of the reader
                    fails = E.read(open(path, "rb").read()).failing()
                    if fails:
                        res["errors"].append(dict(kind="reference-reader-rejects-gnu-output", harness=name,
                                                  error=f"{tag}: {fails[:4]}"))
            if note["files"] < 20:
                res["errors"].append(dict(kind="reference-selftest-too-small", harness=name, error=repr(note)))
        res["samples"] = [note]
        if not res["errors"]:
            res["discharged"] = 1
    except Exception as e:       # noqa
        import traceback
        res["errors"].append(dict(kind="reference-selftest-failed", harness=name, error=repr(e)[:300],
                                  tb=traceback.format_exc()[-1200:]))
    finally:
        logging.disable(logging.NOTSET)
        shutil.rmtree(tmp, ignore_errors=True)
    res["wall_s"] = time.time() - t0
    return res


# ---------------------------------------------------------------------------------------------
def _sym(n, b, t, s, d="def"):
    return dict(n=n, b=b, t=t, s=s, d=d)


def hand_shapes(march):
    x86 = march == "x86_64"
    out = []
    # relocatable files
    out.append(dict(march=march, kind="rel", secs=[], syms=[], rels=[]))
    out.append(dict(march=march, kind="rel", secs=[dict(n="code", len=3, al="S")],
                    syms=[_sym("main", "global", "func", "code"), _sym("x", "local", "object", "code")], rels=[]))
    out.append(dict(march=march, kind="rel",
                    secs=[dict(n="code", len=5, al="S"), dict(n="data", len=0, al=4), dict(n="bss", len=2, al="S")],
                    syms=[_sym("l1", "local", "object", "bss"), _sym("g1", "global", "func", "code"),
                          _sym("printf", "global", "func", None, "und"), _sym("l2", "local", "func", "code"),
                          _sym("code", "global", "", "data")],
                    rels=[]))
    out.append(dict(march=march, kind="rel", secs=[dict(n="code", len=4, al=4)],
                    syms=[_sym("g", "global", "object", "code"), _sym("io_base", "global", "object", None, "abs")], rels=[]))
    out.append(dict(march=march, kind="rel",
                    secs=[dict(n="code", len=9, al=4), dict(n="data", len=8, al=8)],
                    syms=[_sym("f", "global", "func", "code"), _sym("ext", "global", "func", None, "und"),
                          _sym("v", "local", "object", "data"), _sym("gv", "global", "object", None, "und")],
                    rels=[dict(t="rel32", y=1, s="code"), dict(t="abs64", y=2, s="data"), dict(t="rel32", y=0, s="code"),
                          dict(t="abs32", y=3, s="code")] if x86 else [dict(t="rel32" if march != "arm" else "b_imm24", y=1, s="code")]))
    if x86:
        out.append(dict(march=march, kind="rel", secs=[dict(n="code", len=7, al="S")],
                        syms=[_sym("loop", "local", "object", "code"), _sym("puts", "global", "func", None, "und"),
                              _sym("table", "global", "object", None, "und")],
                        rels=[dict(t="rel32", y=1, s="code"), dict(t="absaddr64", y=2, s="code"), dict(t="rel32", y=2, s="code"),
                              dict(t="rel32", y=0, s="code")]))
    # linked executables
    out.append(dict(march=march, kind="exe", secs=[], syms=[], rels=[], imgs=[]))
    out.append(dict(march=march, kind="exe",
                    secs=[dict(n="code", len=6, al=4, img=0), dict(n="data", len=3, al="S", img=0, gap="S")],
                    imgs=[dict(n="code")],
                    syms=[_sym("main", "global", "func", "code"), _sym("x", "local", "object", "data")], rels=[], entry=0))
    out.append(dict(march=march, kind="exe",
                    secs=[dict(n="code", len=4, al=4, img=0), dict(n="data", len=5, al=4, img=1), dict(n="extra", len=2, al="S")],
                    imgs=[dict(n="code"), dict(n="ram")],
                    syms=[_sym("start", "global", "func", "code"), _sym("buf", "global", "object", "data"),
                          _sym("note", "local", "object", "extra")], rels=[], entry=0))
    out.append(dict(march=march, kind="exe",
                    secs=[dict(n="code", len=2, al=2, img=0, gap=1), dict(n="data", len=0, al=1, img=0), dict(n="bss", len=1, al=1, img=0, gap="S")],
                    imgs=[dict(n="flash")],
                    syms=[_sym("a", "local", "", "bss")], rels=[]))
    return out


def gen_shape(rng, march, maxlen, max_s_gap, nres=4, budget=100):
    kind = rng.choice(["rel", "exe"])
    names = ["code", "data", "bss", "rodata", ".text"]
    rng.shuffle(names)
    nsec = rng.randint(0, 3)
    secs = []
    s_al = 0
    s_gap = 0
    nimg = rng.randint(0, 2) if kind == "exe" and nsec else 0
    for k in range(nsec):
        s = dict(n=names[k], len=rng.choice([0, 1, 2, 3, 4, 7, 8, 9] + ([15, 16, 17, 33] if maxlen > 9 else [])))
        if rng.random() < 0.5 and s_al < 2:
            s["al"] = "S"
            s_al += 1
        else:
            s["al"] = rng.choice(ALIGNS)
        if nimg and rng.random() < 0.8:
            s["img"] = rng.randrange(nimg)
            if rng.random() < 0.4 and s_gap < max_s_gap:
                s["gap"] = "S"
                s_gap += 1
            else:
                s["gap"] = rng.choice([0, 0, 1, 4])
        secs.append(s)
    imgs = [dict(n=["code", "ram"][k]) for k in range(nimg)]
    syms = []
    for n in range(rng.randint(0, 5)):
        d = rng.choice(["def", "def", "def", "und"] if kind == "rel" else ["def"]) if secs else "und"
        if kind == "exe" and not secs:
            break
        b = rng.choice(["global", "local"]) if d == "def" else "global"
        syms.append(_sym(f"s{n}" if rng.random() < 0.8 else ["main", "x_y", "code", "a.b$c"][n % 4] + str(n), b,
                         rng.choice(["func", "object", ""]), rng.choice(secs)["n"] if d == "def" else None, d))
    rels = []
    if kind == "rel" and march == "x86_64" and syms and secs:
        for _ in range(rng.randint(0, 4)):
            rels.append(dict(t=rng.choice(["rel32", "abs64", "abs32", "absaddr64"]), y=rng.randrange(len(syms)),
                             s=rng.choice(secs)["n"]))
    sh = dict(march=march, kind=kind, secs=secs, syms=syms, rels=rels)
    while fork_product(dict(sh, imgs=imgs), nres) > budget:      # keep the number of file layouts per shape bounded
        cands = [(s_, key) for s_ in secs for key in ("al", "gap") if s_.get(key) == "S"]
        s_, key = cands[-1]
        s_[key] = 4 if key == "al" else 0
    if kind == "exe":
        sh["imgs"] = imgs
        defined = [n for n, y in enumerate(syms) if y["d"] == "def"]
        if defined and rng.random() < 0.8:
            sh["entry"] = rng.choice(defined)
    return sh


def fork_product(sh, nres):
    """upper bound on the number of file layouts (paths) of a shape once the writer keeps p_offset congruent to p_vaddr"""
    n = 1
    for s in sh["secs"]:
        n *= 5 if s.get("al") == "S" else 1
        n *= 4 if s.get("gap") == "S" and s.get("img") is not None else 1
    nimg = len(sh.get("imgs", [])) if sh["kind"] == "exe" else 0
    if nimg >= 1:
        n *= nres
    if nimg >= 2:
        n *= 2 * (nres // 4 + 1)
    return n


def shapes(tier, seed):
    out = []
    rng = random.Random(1700 + int(seed))
    for march in MACHINES:
        out += hand_shapes(march)
        for _ in range(2 if tier == "quick" else 24):
            out.append(gen_shape(rng, march, 9 if tier == "quick" else 33, 1 if tier == "quick" else 2,
                                 nres=len(RESIDUES[tier]), budget=100 if tier == "quick" else 400))
    return out


def jobs(tier, seed):
    js = [("mk_selftest", {})]
    for idx, sh in enumerate(shapes(tier, seed)):
        js.append(("mk_elf", dict(shape=sh, idx=idx, residues=RESIDUES[tier])))
    only = os.environ.get("VERIF_ONLY")
    if only:
        js = [j for j in js if only in repr(j) or only in (describe(j[1]["shape"]) if j[1] else "")]
    return js
