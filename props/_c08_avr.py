"""C08 for ppci's AVR (8-bit) back end (ppci/arch/avr/instructions.py), reference decoder ref/avrdec.py.

Every instruction class registered in get_arch('avr').isa that comes from ppci.arch.avr.instructions and has a syntax
and tokens is instantiated with SYMBOLIC operands:
    register operand      a real register object of the operand's class (AvrRegister, HighAvrRegister, AvrWordRegister,
                          SuperHighAvrWordRegister, AvrYRegister, AvrZRegister) whose number is symbolic over the numbers
                          of that class's register objects (r0..r31, r16..r31, the 16 pairs, W/X/Y/Z, Y, Z)
    integer operand       symbolic integer, wider than any field
    label operand         the real relocation class (12bit / 7bit / ldilo / ldihi) is applied to the encoded bytes with a
                          symbolic label address S and a symbolic instruction address P
The real encode() (+ relocation.apply()) runs on them; the emitted bytes are read as little-endian 16-bit words and
decoded by ref/avrdec.py.  What the printed text means is NOT stated per class: the class's real syntax is parsed
generically into the manual's operand vocabulary
    Rd                        register                    ("r", n)
    Rd+1:Rd / W X Y Z         register pair (low number)  ("w", n)
    K, q, A, k                integer                     ("i", v)
    x   x+   -x   z+          the literal glyphs of the syntax = pointer addressing  ("ptr", 26|28|30, "" | "+" | "-")
    <Y|Z register>+<int>      displacement addressing     ("disp", number of the printed pointer register, q)
    label                     ("target", S)
    low(label) / high(label)  the AVR assembler's LOW() / HIGH() functions: bits 7..0 / 15..8 of the label's address
Obligation per path:  encode raised (operand combination rejected),  or  the bytes are exactly one instruction that the
manual lets be written with the printed mnemonic (incl. its alias spellings: breq = brbs 1, lsl, ld Rd,Z = ldd Rd,Z+0 ..)
and exactly the printed operands.  Integers outside the manual's documented operand range and label distances outside
the documented reach are not judged (property C10).
"""
import importlib
import time
from symx.harness import Harness
from symx import core
from symx.core import sym_and, sym_or, implies
from symx.seq import SymByteArray
from ref import avrdec

ARCH = "avr"
MOD = "ppci.arch.avr.instructions"
FACTORIES = ["mk_avr_enc", "mk_avr_selftest"]
GLYPH_POINTER = {"x": ("ptr", avrdec.X, ""), "x+": ("ptr", avrdec.X, "+"), "-x": ("ptr", avrdec.X, "-"),
                 "y": ("ptr", avrdec.Y, ""), "y+": ("ptr", avrdec.Y, "+"), "-y": ("ptr", avrdec.Y, "-"),
                 "z": ("ptr", avrdec.Z, ""), "z+": ("ptr", avrdec.Z, "+"), "-z": ("ptr", avrdec.Z, "-")}
P_MAX = (1 << 22) - 2       # byte address of an instruction: any even address of a 4 MiB program memory


# ---------------------------------------------------------------------------------------------------------
# the class's real syntax, read generically
def _regkind(c):
    from ppci.arch.avr.registers import AvrRegister, AvrWordRegister
    if isinstance(c, type) and issubclass(c, AvrRegister):
        return "r"
    if isinstance(c, type) and issubclass(c, AvrWordRegister):
        return "w"
    return None


def syntax_of(cls):
    """-> (mnemonic, [operand template]) or (mnemonic, reason: str)
    template: ("r"|"w", operand name) | ("i", name) | ("target", name) | ("ptr", base, mode) |
              ("disp", register operand name, integer operand name) | ("lo8"|"hi8", label operand name)"""
    els = [e for e in cls.syntax.syntax if not (isinstance(e, str) and e.isspace())]
    mn = els.pop(0) if els and isinstance(els[0], str) else ""
    groups, cur = [], []
    for e in els:
        if isinstance(e, str) and e.strip() == ",":
            groups.append(cur)
            cur = []
        else:
            cur.append(e.strip().lower() if isinstance(e, str) else e)
    if cur or groups:
        groups.append(cur)
    ops = []
    for g in groups:
        shape = "".join(x if isinstance(x, str) else "#" for x in g)
        objs = [x for x in g if not isinstance(x, str)]
        kinds = [_regkind(o._cls) or ("i" if o._cls is int else "s" if o._cls is str else "?") for o in objs]
        if shape == "#" and kinds[0] in ("r", "w", "i"):
            ops.append((kinds[0], objs[0]._name))
        elif shape == "#" and kinds[0] == "s":
            ops.append(("target", objs[0]._name))
        elif not objs and shape in GLYPH_POINTER:
            ops.append(GLYPH_POINTER[shape])
        elif shape == "#+#" and kinds == ["w", "i"]:
            ops.append(("disp", objs[0]._name, objs[1]._name))
        elif shape in ("low(#)", "high(#)") and kinds == ["s"]:
            ops.append(("lo8" if shape[0] == "l" else "hi8", objs[0]._name))
        else:
            return mn, "operand syntax '%s' not understood" % shape
    return mn, ops


def reg_numbers(regcls):
    return sorted(r.num for r in regcls.registers)


def compatible(ops, form):
    """the printed operand kinds can be compared with the reading's operand kinds"""
    fops = form[2]
    if len(fops) != len(ops):
        return False
    for o, d in zip(ops, fops):
        k = {"lo8": "i", "hi8": "i"}.get(o[0], o[0])
        if k == "target":
            if d[0] not in ("rel", "abs"):
                return False
        elif k != d[0]:
            return False
    return True


def discover():
    """-> (claimed [(idx, class name, mnemonic)], unclaimed [(class name, why)])"""
    from ppci.api import get_arch
    from ppci.arch.avr import instructions as ai
    from ppci.arch.generic_instructions import ArtificialInstruction
    arch = get_arch(ARCH)
    claimed, unclaimed = [], []
    registered = set()
    for idx, cls in enumerate(arch.isa.instructions):
        registered.add(cls)
        if not getattr(cls, "syntax", None):
            continue        # abstract bases
        if cls.__module__ != MOD:
            unclaimed.append((cls.__name__, "data directive (" + cls.__module__.split(".")[-1] + ")"))
            continue
        if not getattr(cls, "tokens", None):
            unclaimed.append((cls.__name__, "no encoding of its own"))
            continue
        mn, ops = syntax_of(cls)
        if isinstance(ops, str):
            unclaimed.append((cls.__name__, "'%s': %s" % (mn, ops)))
        elif not avrdec.readings(mn):
            unclaimed.append((cls.__name__, "no instruction with the mnemonic '%s' in the manual (ref/avrdec.py)" % mn))
        else:
            claimed.append((idx, cls.__name__, mn))
    # pseudo instructions (addw, cpw, ldiw, ldd_word ...): not registered in the ISA object, no manual entry
    for name, obj in sorted(vars(ai).items()):
        if isinstance(obj, type) and issubclass(obj, ArtificialInstruction) and obj.__module__ == MOD \
                and getattr(obj, "syntax", None) and obj not in registered:
            unclaimed.append((name, "pseudo instruction '%s' (expands through render(), no manual entry, not registered "
                                    "in the ISA object)" % syntax_of(obj)[0]))
    return claimed, unclaimed


class AvrEncodingHarness(Harness):
    """builds cls(*symbolic operands), runs the real encode() (+ the real relocation for a label operand)"""
    PREFIX = "avr.encode"
    W = 64
    max_paths = 4000
    IMM_BOUND = 1 << 18

    def __init__(self, idx, cls, mn, wide=0):
        self.idx, self.cls, self.mn, self.wide = idx, cls, mn, wide
        self.params = dict(idx=idx, cls=cls, mn=mn, wide=wide)
        self.name = f"{self.PREFIX}[{cls}#{idx}:{mn}]"
        if wide:            # thorough tier
            self.IMM_BOUND = 1 << 40
            self.W = 96

    def modules(self):
        names = ["ppci.utils.bitfun", "ppci.arch.token", "ppci.arch.encoding", "ppci.arch.isa", "ppci.arch.registers",
                 "ppci.arch.avr.instructions", "ppci.arch.avr.registers"]
        return [importlib.import_module(n) for n in names]

    def the_class(self):
        from ppci.api import get_arch
        cls = get_arch(ARCH).isa.instructions[self.idx]
        assert cls.__name__ == self.cls, "instruction table changed under the job list"
        return cls

    def layout(self):
        cls = self.the_class()
        mn, ops = syntax_of(cls)
        assert mn == self.mn and not isinstance(ops, str), "syntax changed under the job list"
        return cls, ops

    def the_readings(self, ops):
        return [f for f in avrdec.readings(self.mn, len(ops)) if compatible(ops, f)]

    # -- inputs: one per formal argument of the class, named like the operand; label: S (+ P, the instruction's address)
    def inputs(self, mk):
        cls, ops = self.layout()
        kinds = {o[0] for o in ops}
        d = {}
        for a in cls.syntax.formal_arguments:
            if a._cls is int:
                d[a._name] = mk.int(a._name, -self.IMM_BOUND, self.IMM_BOUND)
            elif a._cls is str:
                if "target" in kinds:
                    # P: address of the instruction (even); S = P + off: the label, off up to 2 x (thorough 16 x) the
                    # reach of the widest relative form (rjmp: -4094 .. +4096), any alignment
                    f = 16 if self.wide else 2
                    d["P"] = mk.int("P", 0, P_MAX)
                    d["off"] = mk.int("off", -4096 * f, 4096 * f)
                    mk.assume(d["P"] % 2 == 0)
                    mk.assume(d["P"] + d["off"] >= 0)
                else:
                    d["S"] = mk.int("S", 0, (1 << (24 if self.wide else 17)) - 1)
            else:
                nums = reg_numbers(a._cls)
                v = mk.int(a._name, nums[0], nums[-1])
                if nums != list(range(nums[0], nums[-1] + 1)):
                    step = nums[1] - nums[0]
                    assert nums == list(range(nums[0], nums[-1] + 1, step)), "register class numbers not an arithmetic sequence"
                    mk.assume((v - nums[0]) % step == 0)
                d[a._name] = v
        return d

    # -- the real code
    def printed(self, ins, ops, i):
        """what Syntax.render reads: the operand attributes of the instruction, in the manual's vocabulary"""
        out = []
        for o in ops:
            if o[0] in ("r", "w"):
                out.append([o[0], getattr(ins, o[1]).num])
            elif o[0] == "i":
                out.append(["i", getattr(ins, o[1])])
            elif o[0] == "target":
                out.append(["target", i["P"] + i["off"]])
            elif o[0] == "ptr":
                out.append(list(o))
            elif o[0] == "disp":
                out.append(["disp", getattr(ins, o[1]).num, getattr(ins, o[2])])
            elif o[0] == "lo8":
                out.append(["i", i["S"] % 256])
            elif o[0] == "hi8":
                out.append(["i", (i["S"] // 256) % 256])
        return out

    def run(self, i):
        """-> ("ok", [bytes], printed operands, printed operands after encode) | ("rejected", exception name)"""
        cls, ops = self.layout()
        args = []
        for a in cls.syntax.formal_arguments:
            if a._cls is int:
                args.append(i[a._name])
            elif a._cls is str:
                args.append("lbl")
            else:
                args.append(a._cls("n_" + a._name, num=i[a._name]))
        ins = cls(*args)
        printed = self.printed(ins, ops, i)
        try:
            data = list(ins.encode())
            rels = ins.relocations()
            if any(a._cls is str for a in cls.syntax.formal_arguments):
                assert len(rels) == 1, "one relocation expected for a label operand"
                r = rels[0]
                assert r.symbol_name == "lbl"
                size = r.size()
                part = data[r.offset:r.offset + size]
                assert len(part) == size, "relocation outside the instruction"
                buf = bytearray(part) if core.ENG is None else SymByteArray(part)
                if "P" in i:
                    new = r.apply(i["P"] + i["off"], buf, i["P"] + r.offset)
                else:
                    new = r.apply(i["S"], buf, r.offset)
                data = data[:r.offset] + list(new) + data[r.offset + size:]
            else:
                assert not rels, "relocation on an instruction without label operand"
        except Exception as e:      # noqa: any error = operand combination rejected
            return ("rejected", type(e).__name__)
        return ("ok", data, printed, self.printed(ins, ops, i))

    # -- what the manual says the printed text means
    def premise(self, i, ops, printed, forms):
        """documented ranges of the integer / label operands (outside: C10 decides whether encode must reject)"""
        cs = []
        if not forms:
            return True
        fops = forms[0][2]
        for o, p, dsc in zip(ops, printed, fops):
            if o[0] == "i":
                lo, hi = avrdec.operand_range(dsc)
                cs += [p[1] >= lo, p[1] <= hi]
            elif o[0] == "disp":
                lo, hi = avrdec.operand_range(dsc)
                cs += [p[2] >= lo, p[2] <= hi]
            elif o[0] in ("lo8", "hi8"):
                cs += [i["S"] <= 0xFFFF]
            elif o[0] == "target":
                lo, hi = avrdec.operand_range(dsc)
                if dsc[0] == "rel":         # target = P + 2 + 2k
                    cs += [i["off"] % 2 == 0, i["off"] >= 2 + 2 * lo, i["off"] <= 2 + 2 * hi]
                else:                       # target = 2k
                    cs += [p[1] % 2 == 0, p[1] >= 2 * lo, p[1] <= 2 * hi]
        return sym_and(*cs) if cs else True

    def decode_matches(self, i, data, printed, forms):
        """-> (is one instruction with the printed mnemonic, and has the printed operands)"""
        if len(data) not in (2, 4):
            return False, False
        ws = avrdec.words_of_bytes(data)
        d = avrdec.decode(ws[0], ws[1] if len(ws) == 2 else None)
        addr = i.get("P", 0)
        ms, alls = [], []
        for f in forms:
            ms.append(sym_and(*d.head(f)))
            alls.append(sym_and(*d.conditions(f, printed, addr)))
        return (sym_or(*ms) if ms else False), (sym_or(*alls) if alls else False)

    def post(self, i, out):
        if not out.ok:
            return {"harness-ran": False}
        r = out.value
        if r[0] == "rejected":
            return {"rejected": True}
        _, data, printed, after = r
        cls, ops = self.layout()
        forms = self.the_readings(ops)
        prem = self.premise(i, ops, printed, forms)
        m, full = self.decode_matches(i, data, printed, forms)
        return {"decodes-to-printed-mnemonic": implies(prem, m),
                "decodes-to-printed-operands": implies(prem, sym_and(m, full)),
                "encode leaves the printed operands unchanged": core.sym_eq(list(after), list(printed))}


def mk_avr_enc(**kw):
    return AvrEncodingHarness(**kw)


# ---------------------------------------------------------------------------------------------------------
def register_names():
    """every register object of ppci.arch.avr.registers prints a name that denotes its number: rN -> N, rH:rL -> L with
    H = L + 1, W = r25:r24, X = r27:r26, Y = r29:r28, Z = r31:r30 (manual, register file)"""
    import re
    from ppci.arch.avr import registers as R
    named = {"w": 24, "x": avrdec.X, "y": avrdec.Y, "z": avrdec.Z}
    n = 0
    for attr, reg in vars(R).items():
        if isinstance(reg, (R.AvrRegister, R.AvrWordRegister)):
            for nm in (reg.name,) + tuple(reg.aka):
                m1 = re.fullmatch(r"r(\d+)", nm)
                m2 = re.fullmatch(r"r(\d+):r(\d+)", nm)
                if isinstance(reg, R.AvrRegister):
                    ok = bool(m1) and int(m1.group(1)) == reg.num
                elif m2:
                    ok = int(m2.group(2)) == reg.num and int(m2.group(1)) == reg.num + 1
                else:
                    ok = named.get(nm.lower()) == reg.num
                assert ok, f"register object {attr}: printed name {nm!r} is not register {reg.num}"
            n += 1
    assert n >= 48, n
    # the members of every register class an operand of a claimed class takes are objects the operand accepts
    from ppci.api import get_arch
    isa = get_arch(ARCH).isa
    for (idx, cname, mn) in discover()[0]:
        for a in isa.instructions[idx].syntax.formal_arguments:
            c = a._cls
            if isinstance(c, type) and issubclass(c, R.Register):
                assert c.registers and all(isinstance(r, c) for r in c.registers), (cname, c)
                assert len(set(reg_numbers(c))) == len(c.registers), c
    return n


def nonvacuous(claimed):
    """concrete sanity per class: some plain operand choice is accepted by encode()"""
    dead = []
    for (idx, cls, mn) in claimed:
        h = AvrEncodingHarness(idx, cls, mn)
        c, ops = h.layout()
        ok = False
        for num in (0, 1, 5, 40):
            vals = dict(P=0x100, off=2 * num, S=0x1234)
            for a in c.syntax.formal_arguments:
                if a._cls is int:
                    vals[a._name] = num
                elif a._cls is not str:
                    vals[a._name] = reg_numbers(a._cls)[-1]
            try:
                if h.run(vals)[0] == "ok":
                    ok = True
                    break
            except Exception:       # noqa
                pass
        if not ok:
            dead.append(h.name)
    return dead


def mk_avr_selftest():
    """concrete validation of ref/avrdec.py + register names + the list of unclaimed classes (evidence)"""
    t0 = time.time()
    name = "avr.selftest"
    res = dict(harness=name, violations=[], known_hits=[], inconclusive=[], errors=[], funcs=[],
               samples=[], stats=dict(paths=1, decisions=0, feas_queries=0, cut_paths=0, solver_s=0.0),
               obligations=1, discharged=0, validated=0, reached=1, twin_violated=1, exhaustive=True, nontrivial=1)
    try:
        st = avrdec.selftest()
        regs = register_names()
        claimed, unclaimed = discover()
        assert len(claimed) >= 40, "avr instruction table not discovered"
        dead = nonvacuous(claimed)
        res["discharged"] = 1
        res["samples"] = [dict(harness=name, selftest=st, register_objects_checked=regs, claimed_classes=len(claimed),
                               unclaimed_classes=[list(u) for u in unclaimed], always_rejected=dead)]
    except (AssertionError, KeyError) as e:
        res["errors"].append(dict(kind="reference-selftest-failed", harness=name, error=repr(e)[:500]))
    res["wall_s"] = time.time() - t0
    return res


def jobs(tier, seed):
    js = [("mk_avr_selftest", {})]
    claimed, unclaimed = discover()
    for (idx, cls, mn) in claimed:
        js.append(("mk_avr_enc", dict(idx=idx, cls=cls, mn=mn, wide=int(tier == "thorough"))))
    return js


BOUNDS_NOTE = ("every class of ppci.arch.avr.instructions registered in get_arch('avr').isa with syntax + tokens (55: nop, add adc sub sbc "
               "and eor or cp cpc mov, adiw sbiw, neg com inc asr lsr ror dec, cpi sbci subi[printed sbci] ori andi ldi, ldi low()/high(), "
               "movw, push pop, ld x / x+ / -x, lpm z+, st x / x+ / -x, ldd/std y+q and z+q, lds sts, in out, rjmp call icall ret reti, "
               "brne breq brlt brge); every register object number of the operand's register class (AvrRegister 0..31, HighAvrRegister "
               "16..31, AvrWordRegister the 16 even pairs, SuperHighAvrWordRegister 24/26/28/30, AvrYRegister 28, AvrZRegister 30), all "
               "operands symbolic at once; integer operands [-2**18, 2**18] (thorough: [-2**40, 2**40]), obligation stated for the "
               "manual's range (K 0..255, adiw/sbiw K 0..63, q 0..63, A 0..63, lds/sts k 0..65535); label operands through the real "
               "12bit / 7bit relocation: instruction address P every even address below 2**22, label at P + off, off -8192..8192 "
               "(thorough -65536..65536) at any alignment, obligation for even distances within the documented reach (rjmp: k -2048..2047, "
               "branches: k -64..63 words); low(label)/high(label) through the real ldilo / ldihi relocation: label address 0..2**17-1 "
               "(thorough 2**24-1), obligation for addresses 0..65535")
OUTSIDE_NOTE = [
    "avr: the pseudo instructions addw subw cpw andw orw negw ldiw ldiw @(label) stw ldd_word std_word (ArtificialInstruction classes that "
    "expand through render(); not registered in the ISA object, no entry in the manual), data directives, and instruction forms ppci has "
    "no class for (ld/st through Y and Z with post-increment / pre-decrement, lpm rd, z, mul*, sbi/cbi, skips, jmp, the two-word call, "
    "bset/bclr, swap ...)",
    "avr: integer operands outside the manual's documented range (e.g. ldi with a negative value or 256.., ldd with q >= 64: the token "
    "fields take a signed or unsigned reading of their width) and label distances outside the documented reach -- whether encode()/the "
    "relocation must reject them is C10; ppci's 12bit / 7bit relocations also reject the extreme distance k = -2048 / k = -64, which is "
    "not judged",
    "avr: register objects the operand's register class does not contain (a HighAvrRegister object numbered below 16, an odd-numbered "
    "word register, an AvrYRegister other than Y)",
    "avr: the assembler's text path (string -> instruction object), e.g. that two classes print the same `sbci rd, K` syntax",
]
ASSUMPTIONS_NOTE = [
    "ref/avrdec.py states the Atmel AVR Instruction Set Manual (doc0856: opcode boxes, operand field positions and ranges, alias "
    "mnemonics brbs/brbc names, bset/bclr names, lsl/rol/tst/clr/ser/sbr/cbr, ld Rd,Z = ldd Rd,Z+0) correctly (self-tested per run: 97 "
    "table entries pairwise disjoint, 121 known avr-gcc/avr-objdump encodings, 17 reserved words, 13 alias and 8 must-not-match "
    "cases, the 78 instructions of the repo's test/arch/test_avr.py incl. label resolution and the 0x1234 load address of "
    "test_ldi_address -- its `call a` vectors are recorded as decoding to rcall, see known finding C08-avr-call-is-rcall)",
    "avr: the register a register object prints is the one its number denotes; for the register objects of ppci/arch/avr/registers.py "
    "name -> number is checked in every run (rN = N, rH:rL = L with H = L+1, W X Y Z = r25:r24 r27:r26 r29:r28 r31:r30); a register "
    "pair is identified by its low register; the literal glyphs x / z of a syntax denote the X / Z pointer register",
    "avr: a label operand denotes the label's byte address: rjmp / rcall / br** at byte address P must encode k with "
    "P + 2 + 2*k == address (manual: PC <- PC + k + 1 in words); low(label) / high(label) are the AVR assembler's LOW() / HIGH() = bits "
    "7..0 / 15..8 of the address; `ldd Rd, Z+0` and `ld Rd, Z` are one instruction with two spellings",
    "avr: any exception out of encode()/relocation.apply() = operand combination rejected",
]
