"""C35  GDB remote-serial-protocol framing and acknowledgement are reliable.

Real code executed on symbolic values: ppci.binutils.dbg.gdb.rsp (RspHandler.sendpkt / send /
_process_byte / decodepkt / rsp_pack / rsp_unpack, decoder()) and ppci.binutils.dbg.gdb.transport
(TCP.recv_thread / recv / send) over a fake socket object.

Harness families (all value dimensions symbolic, decided by the solver; shapes enumerated):

  rsp.e2e        sender endpoint A --lossless link--> receiver endpoint B, both REAL RspHandlers on REAL
                 TCP transports whose socket is a fake.  Symbolic: every payload character (0..127), every
                 chunking of the byte stream (one symbolic boolean per possible chunk boundary, honoured by
                 the fake socket's recv(n)).  Post: exactly one message delivered, equal to the payload,
                 B answers exactly '+', A transmits once, the frame on the wire conforms to the manual.
  rsp.corrupt    same, but the link replaces one character of the FIRST transmission (a checksum digit,
                 or a packet-data character) by a symbolic different character.  Post: B answers '-' and
                 delivers nothing for it, A retransmits, the payload is delivered exactly once.
  rsp.ack        sendpkt against a nondeterministic environment: the ack queue's get() returns a symbolic
                 sequence over {'+', '-', timeout}, the retry budget is symbolic.  Post: transmissions =
                 1 + min(leading nacks, budget), all identical; returns iff acknowledged within budget;
                 ValueError iff budget exhausted; a timeout never looks like success.
  rsp.stream     arbitrary symbolic 7-bit byte stream into the receiver; compared with the reference
                 receiver of /verif/ref/rsp.py wherever the manual determines the behaviour; never an
                 unexpected exception, never a delivery without a correct checksum.
  rsp.duplex     sendpkt whose peer answers each transmission with a symbolic ack/nack interleaved with
                 notification packets (symbolic payloads): every notification delivered exactly once, in
                 order, each acknowledged with '+'; transmissions = 1 + nacks.
  int16.model    validation of the int(s, 16) model used for the checksum field (translator validation).
"""
import os
import queue as _queue
import logging
from symx.harness import Harness
from symx import core, shims
from symx.core import sym_and, sym_or, sym_not, ite, implies, SymInt, SymBool
from symx.seq import SymStr, SymBytes
from ref import rsp as spec

PROPERTY = "C35"
LEVEL = "model_checking"
BOUNDS = {
    "quick": {"payload_chars": "0..4, every 7-bit character (incl. $ # } * ')", "chunkings": "all (symbolic boundary after every byte)",
              "corruption": "any one checksum digit -> any other 7-bit char; any one packet-data char -> any other byte 0..255 except # and $ (payload <= 2)",
              "retry_budget": "1..10 symbolic, and the default", "ack_sequence": "every sequence over {+,-,timeout} up to budget+2",
              "stream_bytes": "0..6 arbitrary 7-bit bytes", "duplex": "<= 3 transmissions, <= 1 notification before/after each ack, <= 2 in total"},
    "thorough": {"payload_chars": "0..6", "chunkings": "all", "corruption": "as quick, payload <= 4 (checksum digit) / <= 3 (data char)",
                 "retry_budget": "1..10 symbolic, and the default", "ack_sequence": "every sequence over {+,-,timeout} up to budget+2",
                 "stream_bytes": "0..7 arbitrary 7-bit bytes", "duplex": "<= 3 transmissions, <= 2 notifications before/after each ack, <= 3 in total"},
}
OUTSIDE = [
    "real threads: the receiver thread (transport.recv_thread) is run synchronously inside the sender's send(); "
    "preemptive interleavings of the two threads, the Lock and queue.Queue's blocking behaviour are not encoded",
    "a blocking Queue.get/put that cannot be satisfied in a single thread is modelled as its timeout expiring at once (queue.Empty / queue.Full)",
    "peers that send more than one acknowledgement per transmission (stale acks in the single-slot queue)",
    "run-length encoding ('*' in stub responses), '$' inside packet-data and a dangling '}' (left open by the manual)",
    "payload characters above 127 (RspHandler.send encodes as ascii); 8-bit bytes only as line noise inside one packet (rsp.corrupt)",
    "payloads longer than the bound; socket errors; TCP.connect/disconnect",
]
ASSUMPTIONS = [
    "GDB RSP packet layer as transcribed in /verif/ref/rsp.py from the GDB manual (appendix E.1)",
    "rsp_pack is recompiled from its current source with its f-string replaced by an equivalent call (symx/fstr.py); "
    "the shim-free concrete re-run of every path uses the untouched function and must agree",
    "int(s, 16) on the two checksum characters follows the model in props/C35.py:int16_2 (validated against CPython on all 65536 two-character latin-1 strings on every run)",
    "the fake socket delivers bytes in order, recv(n) returns between 1 and n pending bytes and never crosses a (symbolic) chunk boundary",
    "logging is disabled while the real code runs (it has no effect on the protocol)",
]
SHIMS_USED = ["isinstance", "bytes", "int", "ord", "hex", "bool"]
JOB_TIMEOUT = {"quick": 900, "thorough": 3000}   # safety net only (shared machine); idle wall times are far below

RSP = "ppci.binutils.dbg.gdb.rsp"
TRANSPORT = "ppci.binutils.dbg.gdb.transport"

# ---------------------------------------------------------------------------------------------
# model of int(s, 16) for the two checksum characters (CPython: optional surrounding whitespace, sign)
_WS = (9, 10, 11, 12, 13, 32, 133, 160)


def int16_2(c0, c1):
    """int(chr(c0)+chr(c1), 16) for code points 0..255; raises ValueError like CPython"""
    h0, h1 = spec.is_hexdigit(c0), spec.is_hexdigit(c1)
    ws0 = sym_or(*[c0 == w for w in _WS])
    ws1 = sym_or(*[c1 == w for w in _WS])
    minus0 = c0 == 45
    valid = sym_or(sym_and(h0, h1), sym_and(sym_or(ws0, c0 == 43, minus0), h1), sym_and(h0, ws1))
    if not valid:
        raise ValueError("invalid literal for int() with base 16")
    v0, v1 = spec.hexdigit_value(c0), spec.hexdigit_value(c1)
    return ite(h0, ite(h1, 16 * v0 + v1, v0), ite(minus0, 0 - v1, v1))


class _IntMeta(shims._IntMeta):
    def __call__(cls, x=0, *a, **k):
        if type(x) is SymStr and len(x.cps) == 2 and (a[:1] == (16,) or k.get("base") == 16):
            return int16_2(x.cps[0], x.cps[1])
        return shims._IntMeta.__call__(shims.int_shim, x, *a, **k)


class int_rsp(shims.int_shim, metaclass=_IntMeta):
    pass


# ---------------------------------------------------------------------------------------------
# environment: fake socket, single-slot queue model, nondeterministic ack source
class FakeSock:
    """in-order byte pipe.  recv(n) hands out between 1 and n pending bytes and never crosses a chunk
    boundary (cuts[i] <=> a chunk ends after the i-th byte received on this socket)."""

    def __init__(self, cuts=()):
        self.rx = []
        self.pos = 0
        self.cuts = list(cuts)
        self.out = []          # everything written to the socket, one entry per send()
        self.on_send = None
        self.recv_sizes = []

    def pending(self):
        return self.pos < len(self.rx)

    def feed(self, data):
        self.rx.extend(list(data))

    def _cut(self, i):
        return self.cuts[i] if i < len(self.cuts) else True

    def recv(self, n):
        if not self.pending():
            return b""
        k = 1
        while k < n and self.pos + k < len(self.rx) and not self._cut(self.pos + k - 1):
            k += 1
        chunk = self.rx[self.pos:self.pos + k]
        self.pos += k
        self.recv_sizes.append(k)
        return SymBytes.make(chunk)

    def send(self, data):
        self.out.append(data)
        if self.on_send:
            self.on_send(data)
        return len(data)


class SlotQueue:
    """queue.Queue(maxsize=1) as seen by ONE thread: a wait that cannot be satisfied times out."""

    def __init__(self, maxsize=1):
        self.maxsize = maxsize
        self.items = []
        self.puts = []

    def put(self, item, block=True, timeout=None):
        if self.maxsize and len(self.items) >= self.maxsize:
            raise _queue.Full()
        self.items.append(item)
        self.puts.append(item)

    def get(self, block=True, timeout=None):
        if not self.items:
            raise _queue.Empty()
        return self.items.pop(0)


class EnvExhausted(Exception):
    """the code under test asked the environment for more than the bounded script holds"""


class ScriptQueue:
    """nondeterministic acknowledgement source: get() yields script[i] in {0:'+', 1:'-', 2:timeout}"""

    def __init__(self, script):
        self.script = script
        self.n = 0
        self.puts = []

    def put(self, item, block=True, timeout=None):
        self.puts.append(item)

    def get(self, block=True, timeout=None):
        if self.n >= len(self.script):
            raise EnvExhausted()
        k = self.script[self.n]
        self.n += 1
        if k == 2:
            raise _queue.Empty()
        return SymStr.make([ite(k == 0, 43, 45)])


class Endpoint:
    """a REAL RspHandler on a REAL transport.TCP object whose socket is a FakeSock"""

    def __init__(self, rsp, transport, cuts=(), ack_queue=None):
        tcp = transport.TCP.__new__(transport.TCP)     # TCP.__init__ would open an OS socket
        tcp._port = 0
        tcp.on_byte = None
        tcp._rxthread = None
        tcp._running = False
        self.sock = tcp.sock = FakeSock(cuts)
        self.tcp = tcp
        self.pumping = False

        def rx_avail():
            if self.sock.pending():
                return [self.sock]
            tcp._running = False                      # nothing left: let the receive loop return
            return []
        tcp.rx_avail = rx_avail
        self.handler = rsp.RspHandler(tcp)
        self.queue = self.handler._ack_queue = ack_queue if ack_queue is not None else SlotQueue(1)
        self.msgs = []
        self.handler.on_message = self.msgs.append

    def pump(self):
        """run the transport's real receive loop in this thread until the pending bytes are consumed"""
        if self.pumping:
            return
        self.pumping = True
        try:
            self.tcp._running = True
            self.tcp.recv_thread()
        finally:
            self.pumping = False

    def deliver(self, data):
        self.sock.feed(data)
        self.pump()


def _flat(chunks):
    out = []
    for c in chunks:
        out.extend(list(c))
    return out


def _cps(s):
    return list(s.cps) if isinstance(s, SymStr) else [ord(c) for c in s]


class RspHarness(Harness):
    shim_modules = (RSP, TRANSPORT)
    W = 40
    max_paths = 60000
    max_decisions = 4000

    def shim_extra(self):
        return {"int": int_rsp}

    def modules(self):
        mods = Harness.modules(self)
        from symx import fstr
        self.rsp, self.transport = mods
        H = self.rsp.RspHandler
        self._orig_pack = H.__dict__["rsp_pack"]
        self._sym_pack = staticmethod(fstr.convert(H.rsp_pack))
        return mods

    def run(self, inp):
        if not hasattr(self, "rsp"):
            self.modules()
        H = self.rsp.RspHandler
        symbolic = core.ENG is not None
        logging.disable(logging.CRITICAL)
        if symbolic:
            H.rsp_pack = self._sym_pack
        try:
            return self.scenario(inp)
        finally:
            if symbolic:
                H.rsp_pack = self._orig_pack
            logging.disable(logging.NOTSET)

    def endpoint(self, cuts=(), ack_queue=None):
        return Endpoint(self.rsp, self.transport, cuts, ack_queue)


def _call(f, *a, **k):
    """exception class name raised by f, or None"""
    try:
        f(*a, **k)
        return None
    except Exception as e:  # noqa
        return type(e).__name__


# ---------------------------------------------------------------------------------------------
CLASSES = {"$": 0x24, "#": 0x23, "}": 0x7D, "*": 0x2A, "'": 0x27}


def _class_assume(mk, c, cls):
    if cls == "o":
        mk.assume(sym_and(*[c != v for v in CLASSES.values()]))
    else:
        mk.assume(c == CLASSES[cls])


class E2EHarness(RspHarness):
    """A.sendpkt(payload) over a lossless (or once-corrupting) link to B"""

    def __init__(self, n, classes="", corrupt=None):
        self.n, self.classes, self.corrupt = n, classes, corrupt
        kind = "e2e" if corrupt is None else f"corrupt-{corrupt}"
        self.name = f"rsp.{kind}[n={n},classes={classes or '-'}]"
        self.params = dict(n=n, classes=classes, corrupt=corrupt)

    def inputs(self, mk):
        n = self.n
        cps = [mk.int(f"p[{i}]", 0, 127) for i in range(n)]
        for c, cls in zip(cps, self.classes):
            _class_assume(mk, c, cls)
        inp = dict(payload=SymStr.make(cps), cps=cps,
                   cuts=[mk.bool(f"cut{i}") for i in range(2 * n + 4)])
        if self.corrupt == "cs":
            inp["which"] = mk.bool("which")                 # first or second checksum digit
            inp["new"] = mk.int("new", 0, 127)
        elif self.corrupt == "data":
            inp["where"] = mk.int("where", 0, max(2 * n - 1, 0))   # index into packet-data
            inp["new"] = mk.int("new", 0, 255)
            mk.assume(sym_and(inp["new"] != spec.HASH, inp["new"] != spec.DOLLAR))
        return inp

    def scenario(self, inp):
        A = self.endpoint()
        B = self.endpoint(cuts=inp["cuts"])
        log = dict(changed=False, applicable=True, b_out_at_retx=None, msgs_at_retx=None)
        state = dict(tx=0)

        def a_to_b(data):
            state["tx"] += 1
            wire = list(data)
            if state["tx"] == 1 and self.corrupt:
                if self.corrupt == "cs":
                    idx = len(wire) - (2 if inp["which"] else 1)
                else:
                    w = inp["where"]
                    if w >= len(wire) - 4:                    # forks; packet-data is wire[1:-3]
                        log["applicable"] = False
                        idx = None
                    else:
                        idx = 1 + int(w)
                if idx is not None:
                    wire[idx] = inp["new"]
                    # is what B receives a packet with a bad checksum (manual's definition)?  forks.
                    if not spec.checksum_field_ok(wire[-2], wire[-1], wire[1:-3]):
                        log["changed"] = True
                    data = SymBytes.make(wire)
            if state["tx"] == 2:
                log["b_out_at_retx"] = len(B.sock.out)
                log["msgs_at_retx"] = len(B.msgs)
            B.deliver(data)
        A.sock.on_send = a_to_b
        B.sock.on_send = A.deliver
        exc = _call(A.handler.sendpkt, inp["payload"])
        return dict(exc=exc, msgs=list(B.msgs), b_out=_flat(B.sock.out), a_out=[list(x) for x in A.sock.out],
                    a_msgs=len(A.msgs), recv_sizes=B.sock.recv_sizes, log=log)

    def post(self, inp, out):
        if not out.ok:
            return {"harness-run": False}
        v = out.value
        log = v["log"]
        p = {}
        p["sendpkt-returns"] = v["exc"] is None
        p["delivered-exactly-once"] = len(v["msgs"]) == 1
        p["payload-restored"] = len(v["msgs"]) >= 1 and v["msgs"][0] == inp["payload"]
        p["sender-side-quiet"] = v["a_msgs"] == 0
        if v["a_out"]:
            p.update(spec.frame_conforms(v["a_out"][0], inp["cps"]))
        else:
            p["frame-shape"] = False
        corrupted = bool(self.corrupt) and log["applicable"] and log["changed"]
        if not corrupted:
            p["single-transmission"] = len(v["a_out"]) == 1
            p["receiver-acks-once"] = spec.seqs_equal(v["b_out"], [spec.PLUS])
        else:
            p["retransmits-once"] = len(v["a_out"]) == 2 and spec.seqs_equal(v["a_out"][0], v["a_out"][1])
            retx = log["b_out_at_retx"] is not None
            p["bad-checksum-nacked"] = len(v["b_out"]) >= 1 and v["b_out"][0] == spec.MINUS and \
                (log["b_out_at_retx"] == 1 if retx else True)
            p["bad-packet-not-delivered"] = (log["msgs_at_retx"] if retx else len(v["msgs"])) == 0
            p["receiver-nack-then-ack"] = spec.seqs_equal(v["b_out"], [spec.MINUS, spec.PLUS])
        return p


# ---------------------------------------------------------------------------------------------
class AckHarness(RspHarness):
    """sendpkt against a nondeterministic ack source"""

    def __init__(self, rmax=10, default=False, n=1):
        self.rmax, self.default, self.n = rmax, default, n
        self.name = f"rsp.ack[{'default-budget' if default else 'budget<=%d' % rmax}]"
        self.params = dict(rmax=rmax, default=default, n=n)

    def inputs(self, mk):
        budget = 10 if self.default else mk.int("retries", 1, self.rmax)
        hi = 10 if self.default else self.rmax
        return dict(payload=mk.str("p", self.n, 0, 127), retries=budget,
                    script=[mk.int(f"ack{i}", 0, 2) for i in range(hi + 2)])

    def scenario(self, inp):
        q = ScriptQueue(inp["script"])
        A = self.endpoint(ack_queue=q)
        if self.default:
            exc = _call(A.handler.sendpkt, inp["payload"])
        else:
            exc = _call(A.handler.sendpkt, inp["payload"], retries=inp["retries"])
        return dict(exc=exc, a_out=[list(x) for x in A.sock.out], gets=q.n)

    def post(self, inp, out):
        if not out.ok:
            return {"harness-run": False}
        v = out.value
        script, R = inp["script"], inp["retries"]
        k = 0
        while k < len(script) and script[k] == 1:      # forks (decided by the path condition)
            k += 1
        p = {}
        p["environment-not-exhausted"] = v["exc"] != "EnvExhausted"
        if k >= len(script):
            return p
        acked = script[k] == 0                        # else: timeout
        within = k <= R
        ntx = len(v["a_out"])
        p["transmissions=1+min(nacks,budget)"] = ntx == ite(within, k, R) + 1
        p["retransmissions-identical"] = sym_and(True, *[spec.seqs_equal(v["a_out"][0], x) for x in v["a_out"][1:]]) \
            if v["a_out"] else False
        p["returns-iff-acked-within-budget"] = (v["exc"] is None) == sym_and(within, acked)
        p["ValueError-iff-budget-exhausted"] = (v["exc"] == "ValueError") == sym_not(within)
        p["timeout-is-not-success"] = implies(sym_and(within, sym_not(acked)), v["exc"] is not None)
        if v["a_out"]:
            p.update(spec.frame_conforms(v["a_out"][0], _cps(inp["payload"])))
        return p


# ---------------------------------------------------------------------------------------------
class RecQueue(SlotQueue):
    def __init__(self):
        SlotQueue.__init__(self, 0)


class StreamHarness(RspHarness):
    """arbitrary 7-bit byte stream into the receiver vs. the reference receiver"""

    def __init__(self, n, first=""):
        # first: shape split, class of the leading bytes: '$' | 'a' (an ack character) | 'o' (anything else)
        self.n, self.first = n, first or ""
        self.name = f"rsp.stream[n={n},first={self.first or '-'}]"
        self.params = dict(n=n, first=self.first)

    def inputs(self, mk):
        s = [mk.int(f"s{i}", 0, 127) for i in range(self.n)]
        for c, cls in zip(s, self.first):
            if cls == "$":
                mk.assume(c == spec.DOLLAR)
            elif cls == "a":
                mk.assume(sym_or(c == spec.PLUS, c == spec.MINUS))
            else:
                mk.assume(sym_not(sym_or(c == spec.DOLLAR, c == spec.PLUS, c == spec.MINUS)))
        return dict(stream=s, cuts=[mk.bool(f"cut{i}") for i in range(self.n)])

    def scenario(self, inp):
        B = self.endpoint(cuts=inp["cuts"], ack_queue=RecQueue())
        exc = _call(B.deliver, SymBytes.make(inp["stream"]))
        return dict(exc=exc, msgs=list(B.msgs), b_out=_flat(B.sock.out), acks=[_cps(a) for a in B.queue.puts])

    def post(self, inp, out):
        if not out.ok:
            return {"harness-run": False}
        v = out.value
        p = {"no-exception": v["exc"] is None}
        events, determined = spec.receive(inp["stream"])
        if not determined:
            return p
        want_msgs = [e[1] for e in events if e[0] == "msg"]
        want_out = [spec.PLUS if e[0] == "msg" else spec.MINUS for e in events if e[0] in ("msg", "bad")]
        want_acks = [[e[1]] for e in events if e[0] == "ack"]
        p["delivers-exactly-the-good-packets"] = len(v["msgs"]) == len(want_msgs) and sym_and(
            True, *[spec.seqs_equal(_cps(m), w) for m, w in zip(v["msgs"], want_msgs)])
        p["replies-ack-nack-per-packet"] = spec.seqs_equal(v["b_out"], want_out)
        p["acks-forwarded-to-sender-side"] = len(v["acks"]) == len(want_acks) and sym_and(
            True, *[spec.seqs_equal(a, w) for a, w in zip(v["acks"], want_acks)])
        return p


# ---------------------------------------------------------------------------------------------
class DuplexHarness(RspHarness):
    """sendpkt whose peer interleaves notifications with (symbolic) acks/nacks"""

    def __init__(self, shape):
        # shape: per transmission (notifications before the ack, notifications after the ack)
        self.shape = [tuple(x) for x in shape]
        self.name = f"rsp.duplex[{';'.join('%d.%d' % x for x in self.shape)}]"
        self.params = dict(shape=[list(x) for x in self.shape])

    def inputs(self, mk):
        nmsg = sum(a + b for a, b in self.shape)
        return dict(payload=mk.str("p", 1, 0, 127),
                    notes=[[mk.int(f"m{i}", 0, 127)] for i in range(nmsg)],
                    nack=[mk.bool(f"nack{t}") for t in range(len(self.shape))],
                    cuts=[mk.bool(f"cut{i}") for i in range(8 * nmsg + 2 * len(self.shape) + 2)])

    def scenario(self, inp):
        A = self.endpoint(cuts=inp["cuts"])
        state = dict(tx=0, m=0, sent_notes=[], frames=[], replies=[])

        def peer(data):
            wire = list(data)
            if len(wire) == 1:                       # A acknowledges a notification
                state["replies"].append(wire[0])
                return
            t = state["tx"]
            state["tx"] += 1
            state["frames"].append(wire)
            if t >= len(self.shape):
                A.deliver(b"+")
                return
            before, after = self.shape[t]
            resp = []
            for _ in range(before):
                resp += spec.frame(inp["notes"][state["m"]])
                state["sent_notes"].append(inp["notes"][state["m"]])
                state["m"] += 1
            resp.append(ite(inp["nack"][t], spec.MINUS, spec.PLUS))
            for _ in range(after):
                resp += spec.frame(inp["notes"][state["m"]])
                state["sent_notes"].append(inp["notes"][state["m"]])
                state["m"] += 1
            A.deliver(SymBytes.make(resp))
        A.sock.on_send = peer
        exc = _call(A.handler.sendpkt, inp["payload"])
        return dict(exc=exc, msgs=list(A.msgs), frames=state["frames"], replies=state["replies"],
                    sent_notes=state["sent_notes"])

    def post(self, inp, out):
        if not out.ok:
            return {"harness-run": False}
        v = out.value
        T = len(self.shape)
        nacks = 0
        while nacks < T and inp["nack"][nacks]:        # forks
            nacks += 1
        p = {}
        p["sendpkt-returns"] = v["exc"] is None
        p["transmissions=1+nacks"] = len(v["frames"]) == nacks + 1
        p["notifications-delivered-once-in-order"] = len(v["msgs"]) == len(v["sent_notes"]) and sym_and(
            True, *[spec.seqs_equal(_cps(m), w) for m, w in zip(v["msgs"], v["sent_notes"])])
        p["each-notification-acked"] = spec.seqs_equal(v["replies"], [spec.PLUS] * len(v["sent_notes"]))
        return p


# ---------------------------------------------------------------------------------------------
def int16_model_validation():
    """translator validation: int16_2 == CPython int(s, 16) on all 2-character latin-1 strings"""
    import time
    t0 = time.time()
    bad = []
    for a in range(256):
        for b in range(256):
            try:
                want = int(chr(a) + chr(b), 16)
            except ValueError:
                want = None
            try:
                got = int16_2(a, b)
            except ValueError:
                got = None
            if want != got:
                bad.append((a, b, want, got))
    name = "int16.model-validation"
    return dict(harness=name, violations=[], known_hits=[], inconclusive=[],
                errors=[dict(kind="int-model-mismatch", harness=name, error=repr(bad[:5]))] if bad else [],
                funcs=[], samples=[], stats=dict(paths=1, decisions=65536), obligations=1, discharged=0 if bad else 1,
                validated=65536, reached=1, twin_violated=1, exhaustive=True, nontrivial=1, wall_s=time.time() - t0)


def mk_e2e(n, classes="", corrupt=None):
    return E2EHarness(n, classes, corrupt)


def mk_ack(rmax=10, default=False):
    return AckHarness(rmax, default)


def mk_stream(n, first=""):
    return StreamHarness(n, first)


def mk_duplex(shape):
    return DuplexHarness(shape)


def mk_intmodel():
    return int16_model_validation()


def _class_splits(n, depth):
    """enumerate the special/ordinary class of the first `depth` payload characters (shape split for parallelism)"""
    import itertools
    d = min(n, depth)
    return ["".join(t) for t in itertools.product("$#}*'o", repeat=d)]


def jobs(tier, seed):
    import itertools
    quick = tier == "quick"
    js = [("mk_intmodel", {})]
    nmax = 4 if quick else 6
    for n in range(nmax + 1):
        depth = 0 if n <= 2 else (2 if n <= 5 else 3)
        for cl in _class_splits(n, depth):
            js.append(("mk_e2e", dict(n=n, classes=cl)))
    for n in range((2 if quick else 4) + 1):
        for cl in _class_splits(n, 0 if n <= 1 else n - 1):
            js.append(("mk_e2e", dict(n=n, classes=cl, corrupt="cs")))
    for n in range((2 if quick else 3) + 1):
        for cl in _class_splits(n, 0 if n <= 1 else n - 1):
            js.append(("mk_e2e", dict(n=n, classes=cl, corrupt="data")))
    js.append(("mk_ack", dict(rmax=10)))
    js.append(("mk_ack", dict(default=True)))
    for n in range((6 if quick else 7) + 1):
        depth = 0 if n <= 4 else (1 if n <= 6 else 2)
        for t in itertools.product("$ao", repeat=depth):
            js.append(("mk_stream", dict(n=n, first="".join(t))))
    import itertools
    m, total = (1, 2) if quick else (2, 3)
    per_tx = [(a, b) for a in range(m + 1) for b in range(m + 1)]
    shapes = []
    for T in (1, 2, 3):
        for combo in itertools.product(per_tx, repeat=T):
            if sum(a + b for a, b in combo) <= (total if T < 3 else total - 1):
                shapes.append([list(x) for x in combo])
    for sh in shapes:
        js.append(("mk_duplex", dict(shape=sh)))
    only = os.environ.get("VERIF_ONLY")
    if only:
        js = [j for j in js if only in repr(j)]
    return js
