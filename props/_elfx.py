"""C17 helper: validation of the reference reader ref/elfspec.py against GNU readelf on CONCRETE files
(oracle validation, never the deciding step), and the concrete corpus those files come from.

  readelf_view(path)        parse `readelf -W -h -S -s -r -l` into plain data
  compare(path)             ref/elfspec.read(file) vs readelf_view(file) -> list of mismatch strings
  ppci_corpus(tmpdir)       a few dozen ELF files written by the real ppci writer (5 machines, relocatable and
                            linked through the real linker with a Layout, compiled C and hand-made objects)
  toolchain_corpus(tmpdir)  gcc (-m64 / -m32 objects, a static executable) and objcopy (elf32-big / elf64-big,
                            elf32-little) output: the reader must accept what the GNU tools produce
"""
import io
import os
import re
import shutil
import subprocess

from ref import elfspec as E

READELF = shutil.which("readelf")
GCC = shutil.which("gcc")
OBJCOPY = shutil.which("objcopy")


def _run(cmd, **kw):
    return subprocess.run(cmd, capture_output=True, text=True, timeout=60, **kw)


_SEC = re.compile(r"^\s*\[\s*(\d+)\]\s(\S*)\s+(\S+)\s+([0-9a-f]{8,16})\s+([0-9a-f]{6,})\s+([0-9a-f]{6,})\s+([0-9a-f]{2,})"
                  r"\s+([A-Za-z]*)\s+(\d+)\s+(\d+)\s+(\d+)\s*$")
_SYM = re.compile(r"^\s*(\d+):\s+([0-9a-f]{8,16})\s+(\S+)\s+(\S+)\s+(\S+)\s+(\S+)\s+(\S+)(?:\s(.*))?$")
_REL = re.compile(r"^([0-9a-f]{8,16})\s+([0-9a-f]{8,16})\s+(\S+)(.*)$")
_SEG = re.compile(r"^\s+(\S+)\s+0x([0-9a-f]+)\s+0x([0-9a-f]+)\s+0x([0-9a-f]+)\s+0x([0-9a-f]+)\s+0x([0-9a-f]+)\s(.{3})\s+"
                  r"(?:0x)?([0-9a-f]+)\s*$")
_BIND = {"LOCAL": 0, "GLOBAL": 1, "WEAK": 2}
_TYPE = {"NOTYPE": 0, "OBJECT": 1, "FUNC": 2, "SECTION": 3, "FILE": 4, "COMMON": 5, "TLS": 6}
_SHT = {"NULL": 0, "PROGBITS": 1, "SYMTAB": 2, "STRTAB": 3, "RELA": 4, "HASH": 5, "DYNAMIC": 6, "NOTE": 7, "NOBITS": 8,
        "REL": 9, "DYNSYM": 11, "GROUP": 17}
_PT = {"NULL": 0, "LOAD": 1, "DYNAMIC": 2, "INTERP": 3, "NOTE": 4, "PHDR": 6}


def readelf_view(path):
    r = _run([READELF, "-W", "-h", "-S", "-s", "-r", "-l", path])
    v = dict(header={}, sections=[], symtabs={}, relocs={}, segments=[], stderr=r.stderr.strip(), rc=r.returncode)
    mode, cur = None, None
    for line in r.stdout.splitlines():
        if line.startswith("ELF Header:"):
            mode = "hdr"
            continue
        if line.startswith("Section Headers:"):
            mode = "sec"
            continue
        if line.startswith("Program Headers:"):
            mode = "seg"
            continue
        m = re.match(r"^Symbol table '(.*)' contains", line)
        if m:
            mode, cur = "sym", m.group(1)
            v["symtabs"].setdefault(cur, [])
            continue
        m = re.match(r"^Relocation section '(.*)' at offset", line)
        if m:
            mode, cur = "rel", m.group(1)
            v["relocs"].setdefault(cur, [])
            continue
        if line.startswith("Key to Flags") or line.startswith(" Section to Segment"):
            mode = None
            continue
        if mode == "hdr" and ":" in line:
            k, _, val = line.partition(":")
            v["header"][k.strip()] = val.strip()
        elif mode == "sec":
            m = _SEC.match(line)
            if m:
                g = m.groups()
                v["sections"].append(dict(idx=int(g[0]), name=g[1], type=g[2], addr=int(g[3], 16), off=int(g[4], 16),
                                          size=int(g[5], 16), entsize=int(g[6], 16), flags=g[7], link=int(g[8]),
                                          info=int(g[9]), align=int(g[10])))
        elif mode == "sym":
            m = _SYM.match(line)
            if m:
                g = m.groups()
                size = int(g[2], 16) if g[2].startswith("0x") else int(g[2])
                v["symtabs"][cur].append(dict(num=int(g[0]), value=int(g[1], 16), size=size, type=g[3], bind=g[4],
                                              ndx=g[6], name=(g[7] or "").strip()))
        elif mode == "rel":
            m = _REL.match(line)
            if m:
                g = m.groups()
                add = None
                m2 = re.search(r"([+-]) ([0-9a-f]+)\s*$", g[3])
                if m2:
                    add = int(m2.group(2), 16) * (1 if m2.group(1) == "+" else -1)
                elif re.fullmatch(r"\s+([0-9a-f]+)\s*", g[3] or ""):
                    add = int(g[3].strip(), 16)
                v["relocs"][cur].append(dict(offset=int(g[0], 16), info=int(g[1], 16), addend=add))
        elif mode == "seg":
            m = _SEG.match(line)
            if m:
                g = m.groups()
                v["segments"].append(dict(type=g[0], off=int(g[1], 16), vaddr=int(g[2], 16), paddr=int(g[3], 16),
                                          filesz=int(g[4], 16), memsz=int(g[5], 16), flags=g[6], align=int(g[7], 16)))
    return v


def compare(path):
    """mismatches between the reference reader and readelf on one concrete file ([] = they agree)"""
    raw = open(path, "rb").read()
    v = readelf_view(path)
    rejected = "Error" in v["stderr"] or not v["header"]
    try:
        e = E.read(raw)
    except E.Malformed as m:
        return [] if rejected else [f"reader: Malformed({m.label}) but readelf accepts"]
    if rejected:
        return [] if e.failing() else [f"readelf rejects ({v['stderr'][:120]}) but the reader finds nothing wrong"]
    bad = []

    def eq(what, a, b):
        if a != b:
            bad.append(f"{what}: reader {a!r} readelf {b!r}")

    h = v["header"]
    eq("class", {1: "ELF32", 2: "ELF64"}[e.cls], h.get("Class"))
    eq("data", "little" if e.little else "big", "little" if "little" in h.get("Data", "") else "big")
    eq("e_entry", e.ehdr["e_entry"], int(h["Entry point address"], 16))
    eq("e_phoff", e.ehdr["e_phoff"], int(h["Start of program headers"].split()[0]))
    eq("e_shoff", e.ehdr["e_shoff"], int(h["Start of section headers"].split()[0]))
    eq("e_flags", e.ehdr["e_flags"], int(h["Flags"].split(",")[0], 16))
    eq("e_ehsize", e.ehdr["e_ehsize"], int(h["Size of this header"].split()[0]))
    eq("e_phnum", e.ehdr["e_phnum"], int(h["Number of program headers"].split()[0]))
    eq("e_shnum", e.ehdr["e_shnum"], int(h["Number of section headers"].split()[0]))
    eq("e_shstrndx", e.ehdr["e_shstrndx"], int(h["Section header string table index"].split()[0]))
    eq("e_type", {1: "REL", 2: "EXEC", 3: "DYN"}.get(e.etype, "?"), h["Type"].split()[0])
    mach = {62: "Advanced Micro Devices X86-64", 40: "ARM", 243: "RISC-V", 94: "Tensilica Xtensa Processor",
            189: "Xilinx MicroBlaze", 3: "Intel 80386", 0: "None"}.get(e.ehdr["e_machine"])
    if mach is not None:
        eq("e_machine", mach, h["Machine"])
    else:
        bad.append(f"e_machine {e.ehdr['e_machine']} not in the comparison table")
    # sections
    eq("section count", len(e.shdrs), len(v["sections"]))
    for s, r in zip(e.shdrs, v["sections"]):
        i = r["idx"]
        eq(f"[{i}] name", e.names[i] or "", r["name"])
        if r["type"] in _SHT:
            eq(f"[{i}] type", s["_type"], _SHT[r["type"]])
        for f, k in (("sh_addr", "addr"), ("sh_offset", "off"), ("sh_size", "size"), ("sh_entsize", "entsize"),
                     ("sh_link", "link"), ("sh_info", "info"), ("sh_addralign", "align")):
            eq(f"[{i}] {f}", s[f], r[k])
        fl = s["sh_flags"]
        for bit, ch in ((1, "W"), (2, "A"), (4, "X"), (0x40, "I")):
            eq(f"[{i}] flag {ch}", bool(fl & bit), ch in r["flags"])
    if e.failing():
        # the reader itself flags the file: readelf may refuse to show tables the reader still decodes
        return bad
    # symbols
    for idx, entries in e.symtabs.items():
        rs = v["symtabs"].get(e.names[idx])
        if rs is None:
            bad.append(f"readelf shows no symbol table {e.names[idx]!r}")
            continue
        eq(f"symtab {idx} count", len(entries), len(rs))
        for k, (a, b) in enumerate(zip(entries, rs)):
            eq(f"sym {k} value", a["st_value"], b["value"])
            eq(f"sym {k} size", a["st_size"], b["size"])
            if b["type"] in _TYPE:
                eq(f"sym {k} type", a["type"], _TYPE[b["type"]])
            if b["bind"] in _BIND:
                eq(f"sym {k} bind", a["bind"], _BIND[b["bind"]])
            ndx = {"UND": 0, "ABS": E.SHN_ABS, "COM": E.SHN_COMMON}.get(b["ndx"])
            eq(f"sym {k} shndx", a["shndx"], int(b["ndx"]) if ndx is None else ndx)
            if a["type"] != E.STT_SECTION:      # readelf prints the section's name for section symbols
                eq(f"sym {k} name", a["name"], b["name"])
    # relocations
    for idx, t in e.relocs.items():
        rs = v["relocs"].get(e.names[idx])
        if not t["entries"]:
            continue
        if rs is None:
            bad.append(f"readelf shows no relocation section {e.names[idx]!r}")
            continue
        eq(f"reloc {idx} count", len(t["entries"]), len(rs))
        for k, (a, b) in enumerate(zip(t["entries"], rs)):
            eq(f"rel {idx}.{k} offset", a["offset"], b["offset"])
            info = (a["sym"] << 8 | a["type"]) if e.cls == 1 else (a["sym"] << 32 | a["type"])
            eq(f"rel {idx}.{k} info", info, b["info"])
            if t["rela"] and b["addend"] is not None:
                eq(f"rel {idx}.{k} addend", a["addend"], b["addend"])
    # segments
    eq("segment count", len(e.phdrs), len(v["segments"]))
    for k, (p, r) in enumerate(zip(e.phdrs, v["segments"])):
        if r["type"] in _PT:
            eq(f"seg {k} type", p["_type"], _PT[r["type"]])
        for f, key in (("p_offset", "off"), ("p_vaddr", "vaddr"), ("p_paddr", "paddr"), ("p_filesz", "filesz"),
                       ("p_memsz", "memsz"), ("p_align", "align")):
            eq(f"seg {k} {f}", p[f], r[key])
        eq(f"seg {k} flags", "".join(c if p["p_flags"] & b else " " for c, b in (("R", 4), ("W", 2), ("E", 1))), r["flags"])
    return bad


# ------------------------------------------------------------------------------------------------
C_PROGS = [
    "int g = 5; int bss[4]; extern int ext(int);\n"
    "static int loc(int a){ int i, s=0; for(i=0;i<a;i++) s+=i; return s+g; }\n"
    "int main_(int a){ if (a) return loc(a)+ext(a); return bss[1]; }\n",
    "char msg[7] = \"hello!\"; int n = 3;\nint sum(int *p, int k){ int s = 0; while (k--) s += p[k]; return s + n; }\n",
    "int one(void){ return 1; }\n",
]
C_LINKABLE = [
    "int g = 5; int bss[4];\nstatic int loc(int a){ return a + g; }\nint main_(int a){ return loc(a) + bss[1]; }\n",
    "char msg[7] = \"hello!\";\nint main_(void){ return msg[2]; }\n",
]
LAYOUTS = [
    "MEMORY code LOCATION=0x10000 SIZE=0x10000 { SECTION(code) }\n"
    "MEMORY ram LOCATION=0x20000000 SIZE=0x10000 { SECTION(data) }\n",
    "MEMORY flash LOCATION=0x8000 SIZE=0x10000 { SECTION(code) ALIGN(8) SECTION(data) }\n",
]
MACHINES = ["x86_64", "arm", "riscv", "xtensa", "microblaze"]


def hand_object(march, with_relocs=False, linked=False):
    """a small object built through the ObjectFile API (concrete twin of the symbolic harness shapes)"""
    from ppci.api import get_arch
    from ppci.binutils.objectfile import ObjectFile, Section, Image, RelocationEntry
    obj = ObjectFile(get_arch(march))
    base = 0x4000 if linked else 0
    code = Section("code")
    code.add_data(bytes(range(1, 14)))
    code.address = base
    obj.add_section(code)
    data = Section("data")
    data.add_data(bytes(range(0x20, 0x27)))
    data.alignment = 8
    data.address = base + 16 if linked else 0
    obj.add_section(data)
    obj.add_symbol(0, "start", "global", 4, "code", "func", 6)
    obj.add_symbol(1, "tmp", "local", 2, "data", "object", 4)
    obj.add_symbol(2, "helper", "local", 8, "code", "func", 0)
    if not linked:
        obj.add_symbol(3, "printf", "global", None, None, "func", 0)
        obj.add_symbol(4, "errno", "global", None, None, "object", 0)
    if with_relocs:
        obj.add_relocation(RelocationEntry("rel32", 3, "code", 5, -4))
        obj.add_relocation(RelocationEntry("abs64", 1, "data", 0, 0x1122334455))
        obj.add_relocation(RelocationEntry("rel32", 2, "code", 9, -4))
        obj.add_relocation(RelocationEntry("abs32", 4, "code", 1, 7))
    if linked:
        img = Image("code", base)
        img.add_section(code)
        img.add_section(data)
        obj.add_image(img)
        obj.entry_symbol_id = 0
    return obj


def ppci_corpus(tmp):
    """[(path, description)] written by the real writer; failures to produce a file are returned as (None, why)"""
    from ppci.api import cc, link
    from ppci.binutils.layout import Layout
    from ppci.format.elf import write_elf
    out = []

    def emit(obj, typ, tag):
        path = os.path.join(tmp, tag + ".elf")
        try:
            with open(path, "wb") as f:
                write_elf(obj, f, type=typ)
            out.append((path, tag))
        except NotImplementedError:
            out.append((None, tag + ": NotImplementedError"))

    for march in MACHINES:
        emit(hand_object(march), "relocatable", f"{march}-hand-rel")
        emit(hand_object(march, linked=True), "executable", f"{march}-hand-exe")
        if march == "x86_64":
            emit(hand_object(march, with_relocs=True), "relocatable", f"{march}-hand-rel-relocs")
            for i, src in enumerate(C_PROGS):
                emit(cc(io.StringIO(src), march), "relocatable", f"{march}-c{i}-rel")
        for i, src in enumerate(C_LINKABLE):
            for j, lay in enumerate(LAYOUTS):
                try:
                    obj = link([cc(io.StringIO(src), march)], layout=Layout.load(io.StringIO(lay)), entry="main_")
                except Exception as ex:       # noqa: a back end that cannot compile the sample is not this check's topic
                    out.append((None, f"{march}-c{i}-l{j}: {type(ex).__name__}"))
                    continue
                emit(obj, "executable", f"{march}-c{i}-l{j}-exe")
    return out


def toolchain_corpus(tmp):
    out = []
    src = os.path.join(tmp, "t.c")
    with open(src, "w") as f:
        f.write("int g=3; static int s; extern int e(int); int f(int a){return e(a)+g+s;}\nvoid _start(void){f(1);}\n")
    src2 = os.path.join(tmp, "u.c")
    with open(src2, "w") as f:
        f.write("int g=3; static int s; int e(int a){return a*2;} int f(int a){return e(a)+g+s;}\nvoid _start(void){f(1);}\n")
    if GCC:
        for flags, tag in ((["-c"], "gcc64.o"), (["-m32", "-c"], "gcc32.o"), (["-c", "-O2", "-g"], "gcc64g.o")):
            p = os.path.join(tmp, tag)
            if _run([GCC] + flags + [src, "-o", p]).returncode == 0:
                out.append((p, tag))
        p = os.path.join(tmp, "gcc64.exe")
        if _run([GCC, "-nostdlib", "-static", src2, "-o", p]).returncode == 0:
            out.append((p, "gcc64.exe"))
    if OBJCOPY:
        b = os.path.join(tmp, "blob.bin")
        with open(b, "wb") as f:
            f.write(bytes(range(37)))
        for tgt in ("elf32-big", "elf64-big", "elf32-little", "elf64-little"):
            p = os.path.join(tmp, tgt + ".o")
            if _run([OBJCOPY, "-I", "binary", "-O", tgt, b, p]).returncode == 0:
                out.append((p, tgt))
    return out
