"""C03  Optimization passes keep IR well-formed (see props/_passes.py)."""
from props import _passes
from props._passes import mk_pass  # noqa

PROPERTY = "C03"
LEVEL = "model_checking"
JOB_TIMEOUT = {"quick": 400, "thorough": 1500}
BOUNDS = {"quick": {"programs": "corpus/cprogs.py (C functions through the real front end, x86_64 type sizes)",
                    "configs": "each of 9 passes alone, optimize level 2, one 4-pass sequence; constants symbolic for value-dependent passes",
                    "symbolic": "all argument values (full type range), initial contents of globals (<=32 bytes) and 16 bytes behind each pointer argument, 4 external call results",
                    "unwinding": "140 IR instructions per run (thorough 300), call depth 3 (paths hitting it are cut and counted)"},
          "thorough": {"configs": "+ optimize levels 1, s; all 9 single passes on every corpus program; 80 sampled 4-block CFG skeletons", "unwinding": "same"}}
OUTSIDE = ["floating point", "programs outside the corpus", "external functions that modify memory in ways other than the modelled one (every byte an external can name - globals, caller buffers, escaped locals - is XOR-ed with one symbolic byte per call)",
           "executions longer than the unwinding bound"]
ASSUMPTIONS = ["IR reference semantics ref/irsem.py (wrap-around, truncating / %, arithmetic >> on signed)",
               "premise: the original execution is defined (no division by zero, shift count < width, in-bounds accesses, no read of Undefined)"]
SHIMS_USED = ["isinstance", "int", "range", "bool", "min", "max"]
RULE = "one evaluation = one (program, pass configuration) job: the real pass(es) run once per path, reference semantics of before/after compared by the solver for all inputs; non-trivial = more than one path"


def jobs(tier, seed):
    return _passes.jobs_for("C03", tier, seed)
