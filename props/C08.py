"""C08  Instruction encodings agree with the architecture reference  (RISC-V: RV32IM + Zicsr + C).

For every instruction class of ppci's riscv and riscv:rvc ISA objects that has a syntax and an encoding,
the instruction is built with SYMBOLIC operands (register objects whose number is symbolic, symbolic
immediates, symbolic branch distance through the real relocation class), the real encode() runs on them,
and the emitted bytes are decoded by the manual-derived decoder ref/rv32.py.  Obligation: encode raised,
or the bytes decode to the instruction the class's real syntax prints, with exactly the printed operands.
"""
import os
from symx.harness import Harness
from symx import core
from symx.core import sym_and, sym_or, sym_not, implies
from ref import rv32
from props import _rv

PROPERTY = "C08"
LEVEL = "model_checking"
BOUNDS = {
    "quick": {"registers": "every register number 0..31 (CSR: 0..4095), all operands symbolic at once",
              "immediates": "[-2**33, 2**33]; obligation stated for the manual's documented operand range",
              "branch/jump distance": "twice the documented reach, every even instruction address below 2**32",
              "instruction classes": "every class of ppci.arch.riscv.instructions / rvc_instructions with syntax + tokens"},
}
BOUNDS["thorough"] = dict(BOUNDS["quick"])
BOUNDS["thorough"]["immediates"] = BOUNDS["quick"]["immediates"].replace("2**33", "2**48")
BOUNDS["thorough"]["branch/jump distance"] = BOUNDS["quick"]["branch/jump distance"].replace("twice", "16 times")
OUTSIDE = ["arm, thumb, x86_64, msp430, avr, m68k, mips, or1k, xtensa, microblaze (no reference decoder available here)",
           "F/D floating-point instruction classes (rvf/rvfx modules)",
           "pseudo-instructions without an encoding of their own (Li, La, Labelrel and the rvc selection helpers Andv, Lwv, ...)",
           "immediates outside the manual's documented range (whether encode() must reject them is C10)",
           "hi/lo style label operands (lui/auipc/addi/lw with a label): only the base encoding is compared, the relocated field is C10/C11",
           "the assembler's text path (string -> instruction object)"]
ASSUMPTIONS = ["ref/rv32.py states the RISC-V Unprivileged ISA manual 20191213 correctly (self-tested: table is a function, "
               "76 repo test vectors, known toolchain encodings, shift-mask vs extract slicing proved equal for every word)",
               "the printed operand values are the operand attributes after construction (what Syntax.render reads)",
               "ppci prints c.slli/c.srli/c.srai/c.andi/c.addi as 'op rd, rs, imm': read as the manual's expansion 'op rd, rd, imm'",
               "any exception out of encode()/relocation.apply() = operand combination rejected"]
SHIMS_USED = ["isinstance", "int", "range", "bytes", "bytearray", "struct", "bool"]
JOB_TIMEOUT = {"quick": 150, "thorough": 600}
TASKS_PER_CHILD = 64


class EncodingHarness(_rv.EncodeHarness):
    PREFIX = "rv.encode"

    def inputs(self, mk):
        return self.operand_inputs(mk)

    def run(self, i):
        return self.encode(i)

    def post(self, i, out):
        if not out.ok:
            return {"harness-ran": False}
        r = out.value
        if r[0] == "rejected":
            return {"rejected": True}
        _, data, printed, used, defined = r
        prem = self.imm_premise(i, printed)
        m, ops = self.decode_matches(data, printed)
        return {"decodes-to-printed-mnemonic": implies(prem, m),
                "decodes-to-printed-operands": implies(prem, sym_and(m, ops))}


class SlicingHarness(Harness):
    """validates the oracle: the SymInt (shift/mask) and the z3 (extract) variants of rv32.decode agree on
    every word, for every table entry: match condition and every extracted field"""
    name = "rv32.decode-slicing"
    W = 48

    def __init__(self, ilen):
        self.ilen = ilen
        self.name = f"rv32.decode-slicing[{ilen}]"
        self.params = dict(ilen=ilen)

    def inputs(self, mk):
        return dict(w=mk.int("w", 0, (1 << (8 * self.ilen)) - 1))

    def run(self, i):
        return 0

    def post(self, i, out):
        import z3
        w = i["w"]
        a = rv32.decode(w, self.ilen)
        names = rv32.NAMES32 if self.ilen == 4 else rv32.NAMES16
        if not isinstance(w, core.SymInt):
            # concrete replay: exactly one or no entry matches; expansion fields are consistent
            return {"function": len([1 for (c, n, f, l) in a.entries if c]) <= 1}
        wz = core.to_bv(w, 32)
        b = rv32.decode(wz, self.ilen)
        res = {}
        for n in names:
            ca = core.tobool(a.is_(n))
            cb = b.is_(n)
            conj = [ca == cb]
            fa, fb = a.fields(n), b.fields(n)
            for k in fa:
                if k == "x":
                    xa, xb = fa["x"], fb["x"]
                    assert xa[0] == xb[0]
                    pairs = [(p, q) for p, q in zip(xa[1:], xb[1:]) if p is not None]
                else:
                    pairs = [(fa[k], fb[k])]
                for p, q in pairs:
                    q = q if not isinstance(q, int) else z3.BitVecVal(q, 32)
                    conj.append(core.to_bv(p, 32) == q)
            res[n] = core.SymBool(z3.And(*conj))
        return res


def mk_enc(**kw):
    return EncodingHarness(**kw)


def mk_slicing(ilen):
    return SlicingHarness(ilen)


def mk_selftest():
    """concrete validation of the reference model + the list of unclaimed classes (evidence)"""
    import time
    t0 = time.time()
    res = dict(harness="rv32.selftest", violations=[], known_hits=[], inconclusive=[], errors=[], funcs=[],
               samples=[], stats=dict(paths=1, decisions=0, feas_queries=0, cut_paths=0, solver_s=0.0),
               obligations=1, discharged=0, validated=0, reached=1, twin_violated=1, exhaustive=True, nontrivial=1)
    try:
        st = rv32.selftest()
        claimed, unclaimed = _rv.discover()
        res["discharged"] = 1
        res["samples"] = [dict(harness="rv32.selftest", selftest=st, claimed_classes=len(claimed),
                               unclaimed_classes=[list(u) for u in unclaimed])]
    except AssertionError as e:
        res["errors"].append(dict(kind="reference-selftest-failed", harness="rv32.selftest", error=repr(e)[:500]))
    res["wall_s"] = time.time() - t0
    return res


def jobs(tier, seed):
    js = [("mk_selftest", {}), ("mk_slicing", dict(ilen=4)), ("mk_slicing", dict(ilen=2))]
    claimed, unclaimed = _rv.discover()
    for (arch, idx, cls, mn, ks) in claimed:
        js.append(("mk_enc", dict(arch=arch, idx=idx, cls=cls, mn=mn, ks=ks, wide=int(tier == "thorough"))))
    only = os.environ.get("VERIF_ONLY")
    if only:
        js = [j for j in js if only in repr(j)]
    return js
