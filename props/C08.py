"""C08  Instruction encodings agree with the architecture reference  (RISC-V: RV32IM + Zicsr + C; ARM: A32 and Thumb;
x86-64 subset; MIPS32; MSP430; AVR; or1k; MicroBlaze; m68k; Xtensa - x86 lives in props/_x86.py, the others in props/_c08_<isa>.py).

RISC-V: for every instruction class of ppci's riscv and riscv:rvc ISA objects that has a syntax and an encoding,
the instruction is built with SYMBOLIC operands (register objects whose number is symbolic, symbolic
immediates, symbolic branch distance through the real relocation class), the real encode() runs on them,
and the emitted bytes are decoded by the manual-derived decoder ref/rv32.py.  Obligation: encode raised,
or the bytes decode to the instruction the class's real syntax prints, with exactly the printed operands.

ARM (harnesses arm.encode[...]): the same for every class of get_arch('arm').isa from
ppci/arch/arm/arm_instructions.py (A32; not thumb, not the coprocessor classes mcr/mrc): ArmRegister objects with
symbolic number 0..15, symbolic immediates, the shift suffix constructor chosen by a symbolic selector with a
symbolic amount, register lists of N register objects with symbolic numbers, label operands through the real
Imm24 / LdrImm12 / AdrImm12 relocation with a symbolic distance; decoder ref/arm32.py (ARM ARM DDI 0406C).  The
condition suffix of the printed mnemonic (movls, subcc, bhs ...) must be the decoded condition field.
"""
import os
from symx.harness import Harness
from symx import core
from symx.core import sym_and, sym_or, sym_not, implies
from ref import rv32, arm32
from props import _rv, _arm

PROPERTY = "C08"

# further instruction sets, each in its own module props/_c08_<isa>.py (+ reference decoder ref/<isa>dec.py): the module
# exposes FACTORIES (names of harness factories, injected here so that the runner resolves them), jobs(tier, seed) and
# BOUNDS_NOTE / OUTSIDE_NOTE / ASSUMPTIONS_NOTE strings that are appended to this module's evidence texts
_EXTRA_ISA = []
for _name in ("_c08_mips", "_c08_thumb", "_c08_msp430", "_c08_avr", "_c08_or1k", "_c08_microblaze", "_c08_m68k", "_c08_xtensa"):
    try:
        _m = __import__("props." + _name, fromlist=["*"])
    except ImportError:
        continue
    for _f in _m.FACTORIES:
        globals()[_f] = getattr(_m, _f)
    _EXTRA_ISA.append(_m)
LEVEL = "model_checking"
BOUNDS = {
    "quick": {"registers": "riscv: every register number 0..31 (CSR: 0..4095); arm: every register number 0..15 (incl. sp, lr, pc); "
                           "all operands symbolic at once",
              "immediates": "[-2**33, 2**33]; obligation stated for the manual's documented operand range (arm data-processing "
                            "immediates: every 32-bit value, i.e. all 16 rotations of encode_imm32 and its rejection)",
              "branch/jump distance": "twice the documented reach, every even (arm: word-aligned) instruction address below 2**32",
              "instruction classes": "every class of ppci.arch.riscv.instructions / rvc_instructions and of "
                                     "ppci.arch.arm.arm_instructions (as registered in the ISA objects) with syntax + tokens",
              "pseudo-instructions": "li rd, imm: rd 0..31, imm -2**31 .. 2**32-1, machine state fully symbolic (x1..x31, pc, memory)",
              "arm shift suffix": "NoShift / lsl / lsr / asr (all four constructors), amount [-64, 64]; obligation for the documented "
                                  "amounts lsl 0..31, lsr/asr 1..32",
              "arm register lists (push/pop)": "every list of at most 3 registers (3 register objects, symbolic numbers, may coincide)",
              "arm condition codes": "the conditional classes that exist (movls, subcc, subcs, subne, b<cond>): fixed per class"},
}
BOUNDS["thorough"] = dict(BOUNDS["quick"])
BOUNDS["thorough"]["immediates"] = BOUNDS["quick"]["immediates"].replace("2**33", "2**48")
BOUNDS["thorough"]["branch/jump distance"] = BOUNDS["quick"]["branch/jump distance"].replace("twice", "16 times")
BOUNDS["thorough"]["arm register lists (push/pop)"] = "every non-empty register list (16 register objects with symbolic numbers) and every single register"
OUTSIDE = ["x86_64 beyond the stated subset; floating point / coprocessor classes of every ISA",
           "F/D floating-point instruction classes (rvf/rvfx modules); arm VFP / NEON / coprocessor classes (mcr, mrc: listed as unclaimed in evidence)",
           "pseudo-instructions whose expansion needs relocations (La, Labelrel; arm `ldr rt, =label`), data directives, and the rvc selection helpers "
           "Andv, Lwv, ... (not registered in the ISA object); li rd, imm IS covered (rendered sequence executed)",
           "immediates / shift amounts / label distances outside the manual's documented range (whether encode() must reject them is C10: "
           "e.g. arm encode_imm32 of values >= 2**32, `lsr 0`, strh offsets > 255, b/bl distances >= 2**25)",
           "hi/lo style label operands (lui/auipc/addi/lw with a label): only the base encoding is compared, the relocated field is C10/C11",
           "arm operand combinations the manual calls UNPREDICTABLE (pc as shift register or multiply operand, empty register list ...): "
           "decoded like a disassembler does; whether encode() should refuse them is not judged",
           "the assembler's text path (string -> instruction object)"]
ASSUMPTIONS = ["ref/rv32.py states the RISC-V Unprivileged ISA manual 20191213 correctly (self-tested: table is a function, "
               "76 repo test vectors, known toolchain encodings, shift-mask vs extract slicing proved equal for every word)",
               "ref/arm32.py states the ARM ARM (DDI 0406C, A32 encodings) correctly (self-tested per run: table is a function, 72 vectors of the "
               "repo's test_armasm.py, 52 known toolchain words, 60 hand-computed step results, integer vs z3 back ends on random states; "
               "integer vs z3 field slicing proved equal for every word; if llvm-mc is installed, 4000 random words agree with LLVM's disassembler)",
               "the printed operand values are the operand attributes after construction (what Syntax.render reads)",
               "ppci prints c.slli/c.srli/c.srai/c.andi/c.addi as 'op rd, rs, imm': read as the manual's expansion 'op rd, rd, imm'",
               "arm spellings: ppci's `mov rd, rm, lsl n` / `lsl rd, rn, rm` are the manual's MOV (shifted register) forms; `add rd, pc, imm` = ADR and "
               "`ldr rt, [pc, imm]` = LDR (literal) are one instruction with two spellings; `push {r}` with one register is the STMDB sp! encoding",
               "any exception out of encode()/relocation.apply() = operand combination rejected"]
SHIMS_USED = ["isinstance", "int", "range", "bytes", "bytearray", "struct", "bool"]
JOB_TIMEOUT = {"quick": 150, "thorough": 600}
M32 = (1 << 32) - 1
TASKS_PER_CHILD = 64


class EncodingHarness(_rv.EncodeHarness):
    PREFIX = "rv.encode"

    def inputs(self, mk):
        return self.operand_inputs(mk)

    def run(self, i):
        return self.encode(i)

    def post(self, i, out):
        if not out.ok:
            return {"harness-ran": False}
        r = out.value
        if r[0] == "rejected":
            return {"rejected": True}
        _, data, printed, used, defined = r
        prem = self.imm_premise(i, printed)
        m, ops = self.decode_matches(data, printed)
        return {"decodes-to-printed-mnemonic": implies(prem, m),
                "decodes-to-printed-operands": implies(prem, sym_and(m, ops))}


class SlicingHarness(Harness):
    """validates the oracle: the SymInt (shift/mask) and the z3 (extract) variants of rv32.decode agree on
    every word, for every table entry: match condition and every extracted field"""
    name = "rv32.decode-slicing"
    W = 48

    def __init__(self, ilen):
        self.ilen = ilen
        self.name = f"rv32.decode-slicing[{ilen}]"
        self.params = dict(ilen=ilen)

    def inputs(self, mk):
        return dict(w=mk.int("w", 0, (1 << (8 * self.ilen)) - 1))

    def run(self, i):
        return 0

    def post(self, i, out):
        import z3
        w = i["w"]
        a = rv32.decode(w, self.ilen)
        names = rv32.NAMES32 if self.ilen == 4 else rv32.NAMES16
        if not isinstance(w, core.SymInt):
            # concrete replay: exactly one or no entry matches; expansion fields are consistent
            return {"function": len([1 for (c, n, f, l) in a.entries if c]) <= 1}
        wz = core.to_bv(w, 32)
        b = rv32.decode(wz, self.ilen)
        res = {}
        for n in names:
            ca = core.tobool(a.is_(n))
            cb = b.is_(n)
            conj = [ca == cb]
            fa, fb = a.fields(n), b.fields(n)
            for k in fa:
                if k == "x":
                    xa, xb = fa["x"], fb["x"]
                    assert xa[0] == xb[0]
                    pairs = [(p, q) for p, q in zip(xa[1:], xb[1:]) if p is not None]
                else:
                    pairs = [(fa[k], fb[k])]
                for p, q in pairs:
                    q = q if not isinstance(q, int) else z3.BitVecVal(q, 32)
                    conj.append(core.to_bv(p, 32) == q)
            res[n] = core.SymBool(z3.And(*conj))
        return res


class PseudoEffectHarness(_rv.PseudoHarness):
    """pseudo-instructions that expand through render(): the rendered sequence (real render() + encode()) is
    executed by rv32.step from a symbolic state; its architectural effect must be what the printed
    pseudo-instruction means in the manual's pseudo-instruction table (li rd, imm: rd = imm, nothing else)"""
    PREFIX = "rv.pseudo"
    W = 72

    def inputs(self, mk):
        d = self.operand_inputs(mk)
        for k in range(1, 32):
            d[f"x{k}"] = mk.int(f"x{k}", 0, M32)
        d["pc"] = mk.int("pc", 0, M32 - 1)
        mk.assume(d["pc"] % 2 == 0)
        for k in range(8):
            d[f"m{k}"] = mk.int(f"m{k}", 0, 255)
        d["probe"] = mk.int("probe", 0, M32)
        d["k"] = mk.int("k", 1, 31)
        return d

    def run(self, i):
        return self.expand(i)

    def post(self, i, out):
        import z3
        if not out.ok:
            return {"harness-ran": False}
        r = out.value
        if r[0] == "rejected":
            return {"rejected": True}
        _, seq, printed, used, defined, after = r
        if not seq or any(len(d) not in (2, 4) for d in seq):
            return {"instruction-length": False}
        words = [(_rv.le(d), len(d)) for d in seq]
        mem = [i[f"m{k}"] for k in range(8)]
        xs = [0] + [i[f"x{k}"] for k in range(1, 32)]
        symbolic = any(type(v) is not int for v in xs + mem + printed + [w for w, n in words] + [i["pc"], i["probe"], i["k"]])
        if symbolic:
            X = z3.Array("X", z3.BitVecSort(5), z3.BitVecSort(32))
            link = [z3.Select(X, z3.BitVecVal(k, 5)) == core.to_bv(xs[k], 32) for k in range(1, 32)]
            s0 = rv32.make_state(rv32.RegArray(X), core.to_bv(i["pc"], 32), membytes=mem)
        else:
            link = []
            s0 = rv32.make_state(xs, i["pc"], membytes=mem)
        o = s0.ops
        t, legal, total = s0, True, 0
        for w, n in words:
            t = rv32.step(t, w, n)
            legal = o.and_(legal, t.legal, o.not_(t.system))
            total += n
        rr = rv32.read_reg
        assert self.spec["effect"] == "li"
        rd, imm = o.val(printed[0]), o.val(printed[1])
        k, probe = o.val(i["k"]), o.val(i["probe"])
        prem = o.and_(True, *link)

        def imp(a, b):
            return o.or_(o.not_(a), b)
        w_ = lambda b: core.SymBool(b) if z3.is_expr(b) else bool(b)   # noqa
        return {"executes: every rendered word is an RV32IMC instruction": w_(imp(prem, legal)),
                "effect: rd holds the constant": w_(imp(prem, o.or_(o.eq(rd, o.val(0)), o.eq(rr(t, rd), imm)))),
                "effect: no other register changes": w_(imp(prem, o.or_(o.eq(k, rd), o.eq(rr(t, k), rr(s0, k))))),
                "effect: falls through": w_(imp(prem, o.eq(t.pc, o.add(s0.pc, o.val(total))))),
                "effect: memory unchanged": w_(imp(prem, o.eq(t.mem.load_byte(probe), s0.mem.load_byte(probe)))),
                "render leaves the printed operands unchanged": core.sym_eq(list(after), list(printed))}


class ArmEncodingHarness(_arm.EncodeHarness):
    """ARM A32: real encode() (+ real relocation) on symbolic operands, bytes decoded by ref/arm32.py"""
    PREFIX = "arm.encode"

    def inputs(self, mk):
        return self.operand_inputs(mk)

    def run(self, i):
        return self.encode(i)

    def post(self, i, out):
        if not out.ok:
            return {"harness-ran": False}
        r = out.value
        if r[0] == "rejected":
            return {"rejected": True}
        _, data, printed, used, defined = r
        prem = self.imm_premise(i, printed)
        m, ops = self.decode_matches(data, printed)
        return {"decodes-to-printed-mnemonic": implies(prem, m),
                "decodes-to-printed-operands": implies(prem, sym_and(m, ops))}


class ArmSlicingHarness(Harness):
    """validates the oracle: the integer (shift/mask; what a concrete replay runs) and the z3 (extract) variants
    of arm32.decode agree on every word, for every table entry: match condition and every extracted field"""
    W = 48

    def __init__(self, part, parts):
        self.part, self.parts = part, parts
        self.name = f"arm32.decode-slicing[{part}/{parts}]"
        self.params = dict(part=part, parts=parts)

    def inputs(self, mk):
        return dict(w=mk.int("w", 0, M32))

    def run(self, i):
        return 0

    def post(self, i, out):
        import z3
        w = i["w"]
        a = arm32.decode(w)
        if not isinstance(w, core.SymInt):
            return {"function": len([1 for (c, n, f) in a.entries if c]) <= 1}
        b = arm32.decode(core.to_bv(w, 32))
        res = {}
        for n in arm32.NAMES[self.part::self.parts]:
            conj = [core.tobool(a.is_(n)) == arm32._zb(b.is_(n))]
            fa, fb = a.fields(n), b.fields(n)
            assert set(fa) == set(fb)
            for k in fa:
                p, q = fa[k], fb[k]
                if type(q) is bool or z3.is_bool(q) or type(p) is bool or type(p) is core.SymBool:
                    conj.append(core.tobool(p) == arm32._zb(q))
                else:
                    conj.append(core.to_bv(p, 32) == arm32._zv(q))
            res[n] = core.SymBool(z3.And(*conj))
        return res


def mk_arm_enc(**kw):
    return ArmEncodingHarness(**kw)


def mk_arm_slicing(part, parts):
    return ArmSlicingHarness(part, parts)


def mk_arm_selftest():
    """concrete validation of the ARM reference model + the list of unclaimed classes (evidence)"""
    import time
    t0 = time.time()
    res = dict(harness="arm32.selftest", violations=[], known_hits=[], inconclusive=[], errors=[], funcs=[],
               samples=[], stats=dict(paths=1, decisions=0, feas_queries=0, cut_paths=0, solver_s=0.0),
               obligations=1, discharged=0, validated=0, reached=1, twin_violated=1, exhaustive=True, nontrivial=1)
    try:
        st = arm32.selftest()
        st["llvm_mc_words_compared"], bad = _arm_llvm_crosscheck()
        assert not bad, f"{bad} disagreements between ref/arm32.decode and llvm-mc (tools/arm32_llvm_crosscheck.py)"
        claimed, unclaimed = _arm.discover()
        res["discharged"] = 1
        res["samples"] = [dict(harness="arm32.selftest", selftest=st, claimed_classes=len(claimed),
                               unclaimed_classes=[list(u) for u in unclaimed])]
    except AssertionError as e:
        res["errors"].append(dict(kind="reference-selftest-failed", harness="arm32.selftest", error=repr(e)[:500]))
    res["wall_s"] = time.time() - t0
    return res


def _arm_llvm_crosscheck(n=40):
    """optional: ref/arm32.decode against LLVM's disassembler, if llvm-mc is installed (0 words otherwise)"""
    import importlib.util
    import io
    import contextlib
    path = os.path.join(os.path.dirname(os.path.abspath(__file__)), "..", "tools", "arm32_llvm_crosscheck.py")
    spec = importlib.util.spec_from_file_location("arm32_llvm_crosscheck", path)
    mod = importlib.util.module_from_spec(spec)
    spec.loader.exec_module(mod)
    with contextlib.redirect_stdout(io.StringIO()):
        return mod.main(n, 1, quiet=True)


def mk_pseudo(**kw):
    return PseudoEffectHarness(**kw)


def mk_enc(**kw):
    return EncodingHarness(**kw)


def mk_slicing(ilen):
    return SlicingHarness(ilen)


def mk_selftest():
    """concrete validation of the reference model + the list of unclaimed classes (evidence)"""
    import time
    t0 = time.time()
    res = dict(harness="rv32.selftest", violations=[], known_hits=[], inconclusive=[], errors=[], funcs=[],
               samples=[], stats=dict(paths=1, decisions=0, feas_queries=0, cut_paths=0, solver_s=0.0),
               obligations=1, discharged=0, validated=0, reached=1, twin_violated=1, exhaustive=True, nontrivial=1)
    try:
        st = rv32.selftest()
        claimed, unclaimed = _rv.discover()
        res["discharged"] = 1
        res["samples"] = [dict(harness="rv32.selftest", selftest=st, claimed_classes=len(claimed),
                               unclaimed_classes=[list(u) for u in unclaimed])]
    except AssertionError as e:
        res["errors"].append(dict(kind="reference-selftest-failed", harness="rv32.selftest", error=repr(e)[:500]))
    res["wall_s"] = time.time() - t0
    return res


def arm_jobs(tier):
    js = [("mk_arm_selftest", {})] + [("mk_arm_slicing", dict(part=p, parts=4)) for p in range(4)]
    claimed, unclaimed = _arm.discover()
    for (idx, cls, mn, base, cond, ks) in claimed:
        for nl in (ARM_NLIST[tier] if "L" in ks else (0,)):
            js.append(("mk_arm_enc", dict(idx=idx, cls=cls, mn=mn, base=base, cond=cond, ks=ks,
                                          wide=int(tier == "thorough"), nlist=nl)))
    return js


ARM_NLIST = {"quick": (3,), "thorough": (1, 16)}


# ===== x86_64 integer operand-encoding layer (props/_x86.py, ref/x86dec.py) ================== begin x86 block
def mk_x86_enc(**kw):
    from props import _x86
    return _x86.X86EncodingHarness(**kw)


def mk_x86_selftest(seed=0, n=600):
    """concrete validation of ref/x86dec.py (incl. GNU objdump cross-check when installed) + evidence lists"""
    from props import _x86
    return _x86.selftest_result(seed=seed, n_random=n)


def x86_jobs(tier, seed):
    from props import _x86
    js = [("mk_x86_selftest", dict(seed=int(seed), n=600 if tier == "quick" else 5000))]
    claimed, unclaimed = _x86.discover()
    for (idx, cls, mn, mode) in claimed:
        js.append(("mk_x86_enc", dict(idx=idx, cls=cls, mn=mn, mode=mode, wide=int(tier == "thorough"))))
    return js


BOUNDS["quick"]["x86_64"] = ("every instruction class of ppci.arch.x86_64.instructions with a syntax (except the `rep` prefix "
                             "pseudo-instruction) x every operand constructor its r/m operand accepts (RmMem, RmMemDisp, RmMemDisp2, "
                             "RmRip, RmAbs, RmAbsLabel, RmReg8/16/32/64); every register of the operand's register class "
                             "(symbolic number), displacement / absolute address -2**31-2 .. 2**31+2, immediates 4 x the documented "
                             "range, branch distance 2 x the rel8/rel32 reach at every address below 2**47")
BOUNDS["thorough"]["x86_64"] = BOUNDS["quick"]["x86_64"].replace("4 x", "16 x").replace("2 x", "16 x")
OUTSIDE[0] = OUTSIDE[0].replace("x86_64, ", "")
OUTSIDE += ["x86_64: SSE2 / x87 classes, data directives, the `rep` prefix pseudo-instruction; instruction forms ppci has no class for",
            "x86_64: displacements outside the signed 32-bit range and immediates outside the documented range of the instruction "
            "form (mov r, imm: the register's width in either spelling; add/and/sub/xor/cmp r64, imm: sign-extended imm32; int: 0..255; "
            "rel8/rel32 signed) -- whether they must be rejected is C10 (known findings C10-reloc-x86-*)",
            "x86_64: absolute-label operands (mov reg, label; [label]): only the base encoding with a zero field is compared",
            "x86_64: the access size of a memory operand when no register operand fixes it (ppci prints `shr [rax]` for the 16-, 32- and "
            "64-bit class alike)"]
ASSUMPTIONS += ["ref/x86dec.py states Intel SDM vol. 2 (ch. 2 instruction format, app. A opcode maps) correctly for the decoded subset "
                "(self-tested: 68 hand-checked encodings, the repo's x86 assembler test vectors, 600 (thorough: 5000) random encodings per "
                "run cross-checked with GNU objdump when it is installed -- validation of the decoder only)",
                "x86_64: ppci's memory operand syntax [base], [base, disp], [base, index, disp], [rip, disp], [address] denotes "
                "base + index*1 + displacement; a one-operand shl/shr denotes the manual's shift by 1 (D0/D1 forms)",
                "x86_64: the register ppci prints is the one whose NAME the real register object carries (manual numbering of that name)"]
# ===== end x86 block


def jobs(tier, seed):
    js = [("mk_selftest", {}), ("mk_slicing", dict(ilen=4)), ("mk_slicing", dict(ilen=2))]
    claimed, unclaimed = _rv.discover()
    for (arch, idx, cls, mn, ks) in claimed:
        js.append(("mk_enc", dict(arch=arch, idx=idx, cls=cls, mn=mn, ks=ks, wide=int(tier == "thorough"))))
    for (arch, idx, cls, mn, ks) in _rv.discover(True):
        js.append(("mk_pseudo", dict(arch=arch, idx=idx, cls=cls, mn=mn, ks=ks, wide=int(tier == "thorough"))))
    js += arm_jobs(tier)
    js += x86_jobs(tier, seed)
    for _m in _EXTRA_ISA:
        js += _m.jobs(tier, seed)
    only = os.environ.get("VERIF_ONLY")
    if only:
        js = [j for j in js if only in repr(j)]
    return js


for _m in _EXTRA_ISA:
    for _t in ("quick", "thorough"):
        BOUNDS[_t] = dict(BOUNDS[_t])
        BOUNDS[_t][_m.__name__.split("_c08_")[-1]] = getattr(_m, "BOUNDS_NOTE", "")
    OUTSIDE = OUTSIDE + list(getattr(_m, "OUTSIDE_NOTE", []))
    ASSUMPTIONS = ASSUMPTIONS + list(getattr(_m, "ASSUMPTIONS_NOTE", []))
