"""C08  Instruction encodings agree with the architecture reference  (RISC-V: RV32IM + Zicsr + C).

For every instruction class of ppci's riscv and riscv:rvc ISA objects that has a syntax and an encoding,
the instruction is built with SYMBOLIC operands (register objects whose number is symbolic, symbolic
immediates, symbolic branch distance through the real relocation class), the real encode() runs on them,
and the emitted bytes are decoded by the manual-derived decoder ref/rv32.py.  Obligation: encode raised,
or the bytes decode to the instruction the class's real syntax prints, with exactly the printed operands.
"""
import os
from symx.harness import Harness
from symx import core
from symx.core import sym_and, sym_or, sym_not, implies
from ref import rv32
from props import _rv

PROPERTY = "C08"
LEVEL = "model_checking"
BOUNDS = {
    "quick": {"registers": "every register number 0..31 (CSR: 0..4095), all operands symbolic at once",
              "immediates": "[-2**33, 2**33]; obligation stated for the manual's documented operand range",
              "branch/jump distance": "twice the documented reach, every even instruction address below 2**32",
              "instruction classes": "every class of ppci.arch.riscv.instructions / rvc_instructions with syntax + tokens",
              "pseudo-instructions": "li rd, imm: rd 0..31, imm -2**31 .. 2**32-1, machine state fully symbolic (x1..x31, pc, memory)"},
}
BOUNDS["thorough"] = dict(BOUNDS["quick"])
BOUNDS["thorough"]["immediates"] = BOUNDS["quick"]["immediates"].replace("2**33", "2**48")
BOUNDS["thorough"]["branch/jump distance"] = BOUNDS["quick"]["branch/jump distance"].replace("twice", "16 times")
OUTSIDE = ["arm, thumb, x86_64, msp430, avr, m68k, mips, or1k, xtensa, microblaze (no reference decoder available here)",
           "F/D floating-point instruction classes (rvf/rvfx modules)",
           "pseudo-instructions whose expansion needs relocations (La, Labelrel), data directives, and the rvc selection helpers "
           "Andv, Lwv, ... (not registered in the ISA object); li rd, imm IS covered (rendered sequence executed)",
           "immediates outside the manual's documented range (whether encode() must reject them is C10)",
           "hi/lo style label operands (lui/auipc/addi/lw with a label): only the base encoding is compared, the relocated field is C10/C11",
           "the assembler's text path (string -> instruction object)"]
ASSUMPTIONS = ["ref/rv32.py states the RISC-V Unprivileged ISA manual 20191213 correctly (self-tested: table is a function, "
               "76 repo test vectors, known toolchain encodings, shift-mask vs extract slicing proved equal for every word)",
               "the printed operand values are the operand attributes after construction (what Syntax.render reads)",
               "ppci prints c.slli/c.srli/c.srai/c.andi/c.addi as 'op rd, rs, imm': read as the manual's expansion 'op rd, rd, imm'",
               "any exception out of encode()/relocation.apply() = operand combination rejected"]
SHIMS_USED = ["isinstance", "int", "range", "bytes", "bytearray", "struct", "bool"]
JOB_TIMEOUT = {"quick": 150, "thorough": 600}
M32 = (1 << 32) - 1
TASKS_PER_CHILD = 64


class EncodingHarness(_rv.EncodeHarness):
    PREFIX = "rv.encode"

    def inputs(self, mk):
        return self.operand_inputs(mk)

    def run(self, i):
        return self.encode(i)

    def post(self, i, out):
        if not out.ok:
            return {"harness-ran": False}
        r = out.value
        if r[0] == "rejected":
            return {"rejected": True}
        _, data, printed, used, defined = r
        prem = self.imm_premise(i, printed)
        m, ops = self.decode_matches(data, printed)
        return {"decodes-to-printed-mnemonic": implies(prem, m),
                "decodes-to-printed-operands": implies(prem, sym_and(m, ops))}


class SlicingHarness(Harness):
    """validates the oracle: the SymInt (shift/mask) and the z3 (extract) variants of rv32.decode agree on
    every word, for every table entry: match condition and every extracted field"""
    name = "rv32.decode-slicing"
    W = 48

    def __init__(self, ilen):
        self.ilen = ilen
        self.name = f"rv32.decode-slicing[{ilen}]"
        self.params = dict(ilen=ilen)

    def inputs(self, mk):
        return dict(w=mk.int("w", 0, (1 << (8 * self.ilen)) - 1))

    def run(self, i):
        return 0

    def post(self, i, out):
        import z3
        w = i["w"]
        a = rv32.decode(w, self.ilen)
        names = rv32.NAMES32 if self.ilen == 4 else rv32.NAMES16
        if not isinstance(w, core.SymInt):
            # concrete replay: exactly one or no entry matches; expansion fields are consistent
            return {"function": len([1 for (c, n, f, l) in a.entries if c]) <= 1}
        wz = core.to_bv(w, 32)
        b = rv32.decode(wz, self.ilen)
        res = {}
        for n in names:
            ca = core.tobool(a.is_(n))
            cb = b.is_(n)
            conj = [ca == cb]
            fa, fb = a.fields(n), b.fields(n)
            for k in fa:
                if k == "x":
                    xa, xb = fa["x"], fb["x"]
                    assert xa[0] == xb[0]
                    pairs = [(p, q) for p, q in zip(xa[1:], xb[1:]) if p is not None]
                else:
                    pairs = [(fa[k], fb[k])]
                for p, q in pairs:
                    q = q if not isinstance(q, int) else z3.BitVecVal(q, 32)
                    conj.append(core.to_bv(p, 32) == q)
            res[n] = core.SymBool(z3.And(*conj))
        return res


class PseudoEffectHarness(_rv.PseudoHarness):
    """pseudo-instructions that expand through render(): the rendered sequence (real render() + encode()) is
    executed by rv32.step from a symbolic state; its architectural effect must be what the printed
    pseudo-instruction means in the manual's pseudo-instruction table (li rd, imm: rd = imm, nothing else)"""
    PREFIX = "rv.pseudo"
    W = 72

    def inputs(self, mk):
        d = self.operand_inputs(mk)
        for k in range(1, 32):
            d[f"x{k}"] = mk.int(f"x{k}", 0, M32)
        d["pc"] = mk.int("pc", 0, M32 - 1)
        mk.assume(d["pc"] % 2 == 0)
        for k in range(8):
            d[f"m{k}"] = mk.int(f"m{k}", 0, 255)
        d["probe"] = mk.int("probe", 0, M32)
        d["k"] = mk.int("k", 1, 31)
        return d

    def run(self, i):
        return self.expand(i)

    def post(self, i, out):
        import z3
        if not out.ok:
            return {"harness-ran": False}
        r = out.value
        if r[0] == "rejected":
            return {"rejected": True}
        _, seq, printed, used, defined, after = r
        if not seq or any(len(d) not in (2, 4) for d in seq):
            return {"instruction-length": False}
        words = [(_rv.le(d), len(d)) for d in seq]
        mem = [i[f"m{k}"] for k in range(8)]
        xs = [0] + [i[f"x{k}"] for k in range(1, 32)]
        symbolic = any(type(v) is not int for v in xs + mem + printed + [w for w, n in words] + [i["pc"], i["probe"], i["k"]])
        if symbolic:
            X = z3.Array("X", z3.BitVecSort(5), z3.BitVecSort(32))
            link = [z3.Select(X, z3.BitVecVal(k, 5)) == core.to_bv(xs[k], 32) for k in range(1, 32)]
            s0 = rv32.make_state(rv32.RegArray(X), core.to_bv(i["pc"], 32), membytes=mem)
        else:
            link = []
            s0 = rv32.make_state(xs, i["pc"], membytes=mem)
        o = s0.ops
        t, legal, total = s0, True, 0
        for w, n in words:
            t = rv32.step(t, w, n)
            legal = o.and_(legal, t.legal, o.not_(t.system))
            total += n
        rr = rv32.read_reg
        assert self.spec["effect"] == "li"
        rd, imm = o.val(printed[0]), o.val(printed[1])
        k, probe = o.val(i["k"]), o.val(i["probe"])
        prem = o.and_(True, *link)

        def imp(a, b):
            return o.or_(o.not_(a), b)
        w_ = lambda b: core.SymBool(b) if z3.is_expr(b) else bool(b)   # noqa
        return {"executes: every rendered word is an RV32IMC instruction": w_(imp(prem, legal)),
                "effect: rd holds the constant": w_(imp(prem, o.or_(o.eq(rd, o.val(0)), o.eq(rr(t, rd), imm)))),
                "effect: no other register changes": w_(imp(prem, o.or_(o.eq(k, rd), o.eq(rr(t, k), rr(s0, k))))),
                "effect: falls through": w_(imp(prem, o.eq(t.pc, o.add(s0.pc, o.val(total))))),
                "effect: memory unchanged": w_(imp(prem, o.eq(t.mem.load_byte(probe), s0.mem.load_byte(probe)))),
                "render leaves the printed operands unchanged": core.sym_eq(list(after), list(printed))}


def mk_pseudo(**kw):
    return PseudoEffectHarness(**kw)


def mk_enc(**kw):
    return EncodingHarness(**kw)


def mk_slicing(ilen):
    return SlicingHarness(ilen)


def mk_selftest():
    """concrete validation of the reference model + the list of unclaimed classes (evidence)"""
    import time
    t0 = time.time()
    res = dict(harness="rv32.selftest", violations=[], known_hits=[], inconclusive=[], errors=[], funcs=[],
               samples=[], stats=dict(paths=1, decisions=0, feas_queries=0, cut_paths=0, solver_s=0.0),
               obligations=1, discharged=0, validated=0, reached=1, twin_violated=1, exhaustive=True, nontrivial=1)
    try:
        st = rv32.selftest()
        claimed, unclaimed = _rv.discover()
        res["discharged"] = 1
        res["samples"] = [dict(harness="rv32.selftest", selftest=st, claimed_classes=len(claimed),
                               unclaimed_classes=[list(u) for u in unclaimed])]
    except AssertionError as e:
        res["errors"].append(dict(kind="reference-selftest-failed", harness="rv32.selftest", error=repr(e)[:500]))
    res["wall_s"] = time.time() - t0
    return res


def jobs(tier, seed):
    js = [("mk_selftest", {}), ("mk_slicing", dict(ilen=4)), ("mk_slicing", dict(ilen=2))]
    claimed, unclaimed = _rv.discover()
    for (arch, idx, cls, mn, ks) in claimed:
        js.append(("mk_enc", dict(arch=arch, idx=idx, cls=cls, mn=mn, ks=ks, wide=int(tier == "thorough"))))
    for (arch, idx, cls, mn, ks) in _rv.discover(True):
        js.append(("mk_pseudo", dict(arch=arch, idx=idx, cls=cls, mn=mn, ks=ks, wide=int(tier == "thorough"))))
    only = os.environ.get("VERIF_ONLY")
    if only:
        js = [j for j in js if only in repr(j)]
    return js
