"""C08 for ppci's MicroBlaze back end (ppci/arch/microblaze/instructions.py), reference decoder ref/microblazedec.py.

Every instruction class registered in get_arch('microblaze').isa that comes from ppci.arch.microblaze.instructions and
has a syntax is instantiated with SYMBOLIC operands:
    r  MicroBlazeRegister object whose number is symbolic (0..31)
    i  symbolic integer (wider than any field)
    s  label (the macro classes Bri_label, Brlid_label, Addik_label, Beqi_label ...): the class's real render() gives
       the instruction pair `imm 0; op ..., 0`, the real relocation object it announces (PcRelRelocation64 /
       AbsRelocation64) is applied to the 8 encoded bytes with a symbolic symbol address S and a symbolic address P
       of the pair
The real encode() (+ relocation.apply()) runs on them; the emitted bytes are read big-endian and decoded by
ref/microblazedec.py.  What the printed text means is NOT stated per class here: the class's real syntax is parsed
generically into (mnemonic, operands in printed order); the decoder lists, per instruction, the operand order of the
manual's assembler line.  Obligation per path:
    encode raised                                                        (operand combination rejected), or
    the word is the instruction with the printed mnemonic, the manual's assembler line has as many operands as are
    printed, and every operand equals the printed one (registers by number; integers as the manual reads the field:
    sext(IMM); the operand of `imm` as a 16-bit pattern).
    Label classes: the first word is `imm`, the second word is the instruction with the printed mnemonic and the
    printed registers, and the 32-bit operand IMM' || IMM denotes the label: branch instruction address + operand ==
    S (mod 2**32) for the PC-relative branches, operand == S otherwise.
Integers outside the manual's documented operand range (-32768..32767; `imm`: -32768..65535) are not judged (C10).
"""
import importlib
import z3
from symx.harness import Harness
from symx import core
from symx.core import sym_and, implies
from symx.seq import SymByteArray
from ref import microblazedec as mbdec

ARCH = "microblaze"
MOD = "ppci.arch.microblaze.instructions"
M32 = (1 << 32) - 1
FACTORIES = ["mk_microblaze_enc", "mk_microblaze_selftest"]


# ---------------------------------------------------------------------------------------------------------
# the class's real syntax, read generically
def syntax_of(cls):
    """-> (mnemonic, [(operand name, kind)], None) or (mnemonic, None, reason) if the layout is not `op a, b, c`"""
    from ppci.arch.microblaze.registers import MicroBlazeRegister
    els = list(cls.syntax.syntax)
    mn = []
    while els and isinstance(els[0], str) and not els[0].isspace():
        mn.append(els.pop(0))
    mn = "".join(mn)
    ops, seps = [], []
    for e in els:
        if isinstance(e, str):
            if e.strip():
                seps.append(e.strip())
            continue
        c = e._cls
        kind = "r" if c is MicroBlazeRegister else "i" if c is int else "s" if c is str else "?"
        ops.append((e._name, kind))
        seps.append(None)
    layout = "".join("x" if s is None else s for s in seps)
    if any(k == "?" for _, k in ops):
        return mn, None, "operand class not modelled"
    if layout == ",".join("x" * len(ops)):
        return mn, ops, None
    return mn, None, f"syntax layout '{layout}' not modelled"


def attr_names():
    """id(class) -> the name(s) the class is bound to in the instructions module (several classes share __name__:
    type_a/type_b name a class after its mnemonic)"""
    mod = importlib.import_module(MOD)
    names = {}
    for k, v in vars(mod).items():
        if isinstance(v, type):
            names.setdefault(id(v), []).append(k)
    return names


def discover():
    """-> (claimed [(idx, attribute name, mnemonic, kinds, mode)], unclaimed [(attribute name, why)])"""
    from ppci.api import get_arch
    from ppci.arch.generic_instructions import ArtificialInstruction
    claimed, unclaimed = [], []
    arch = get_arch(ARCH)
    names = attr_names()
    for idx, cls in enumerate(arch.isa.instructions):
        if cls.__module__ != MOD:
            continue        # data directives (db, dw, dd ...) of data_isa
        if not getattr(cls, "syntax", None):
            continue        # abstract base
        attr = sorted(names.get(id(cls), [cls.__name__]))[0]
        mn, ops, why = syntax_of(cls)
        if ops is None:
            unclaimed.append((attr, f"'{mn}': {why}"))
            continue
        ks = "".join(k for _, k in ops)
        if mn not in mbdec.NAMES:
            unclaimed.append((attr, f"mnemonic '{mn}' is no instruction of ref/microblazedec.py"))
        elif hasattr(cls, "tokens"):
            if "s" in ks:
                unclaimed.append((attr, f"'{mn}': label operand on a class with tokens not modelled"))
            else:
                claimed.append((idx, attr, mn, ks, "enc"))
        elif issubclass(cls, ArtificialInstruction):
            if ks.count("s") == 1 and ks.endswith("s") and mn in mbdec.TYPE_B:
                claimed.append((idx, attr, mn, ks, "label"))
            else:
                unclaimed.append((attr, f"macro '{mn}' without a label as last operand of a Type B instruction"))
        else:
            unclaimed.append((attr, f"'{mn}': neither tokens nor render()"))
    return claimed, unclaimed


def bv32(v):
    return core.to_bv(v, 32) if type(v) is not int else z3.BitVecVal(v & M32, 32)


def _zb(c):
    return c if z3.is_expr(c) else z3.BoolVal(bool(c))


class MicroblazeEncodingHarness(Harness):
    """builds cls(*symbolic operands), runs the real encode() (label classes: render() + encode() of every rendered
    instruction + the real relocation)"""
    W = 96
    max_paths = 4000
    IMM_BOUND = 1 << 33

    def __init__(self, idx, cls, mn, ks, mode, wide=0):
        self.idx, self.cls, self.mn, self.ks, self.mode, self.wide = idx, cls, mn, ks, mode, wide
        self.params = dict(idx=idx, cls=cls, mn=mn, ks=ks, mode=mode, wide=wide)
        self.name = f"microblaze.{'encode' if mode == 'enc' else 'label'}[{cls}#{idx}:{mn}]"
        if wide:            # thorough tier
            self.IMM_BOUND = 1 << 48

    def modules(self):
        names = ["ppci.utils.bitfun", "ppci.arch.token", "ppci.arch.encoding", "ppci.arch.isa", "ppci.arch.registers",
                 "ppci.arch.microblaze.instructions", "ppci.arch.microblaze.registers"]
        return [importlib.import_module(n) for n in names]

    def the_class(self):
        from ppci.api import get_arch
        cls = get_arch(ARCH).isa.instructions[self.idx]
        assert self.cls in attr_names().get(id(cls), [cls.__name__]), "instruction table changed under the job list"
        return cls

    # -- inputs
    def inputs(self, mk):
        d = {}
        for k, kd in enumerate(self.ks):
            if kd == "r":
                d[f"r{k}"] = mk.int(f"r{k}", 0, 31)
            elif kd == "i":
                d[f"i{k}"] = mk.int(f"i{k}", -self.IMM_BOUND, self.IMM_BOUND)
            else:
                # S: address the label stands for (any alignment, beyond the 32-bit address space);
                # P: address of the first rendered instruction (word aligned, anywhere in the 32-bit address space)
                d["S"] = mk.int("S", 0, (1 << (36 if self.wide else 33)) - 1)
                d["P"] = mk.int("P", 0, (1 << 32) - 8)
                mk.assume(d["P"] % 4 == 0)
        return d

    # -- the real code
    def _printed(self, ins, ops, i):
        out = []
        for oname, kd in ops:
            v = getattr(ins, oname)
            out.append(v.num if kd == "r" else v if kd == "i" else i["S"])
        return out

    def run(self, i):
        """-> ("ok", [bytes], [printed operand values], [the same after encode]) | ("rejected", exception name)"""
        from ppci.arch.microblaze.registers import MicroBlazeRegister
        cls = self.the_class()
        mn, ops, why = syntax_of(cls)
        assert ops is not None and (mn, "".join(k for _, k in ops)) == (self.mn, self.ks), "syntax changed under the job list"
        args = []
        for k, kd in enumerate(self.ks):
            if kd == "r":
                args.append(MicroBlazeRegister(f"r{k}", num=i[f"r{k}"]))
            elif kd == "i":
                args.append(i[f"i{k}"])
            else:
                args.append("lbl")
        ins = cls(*args)
        # what Syntax.render reads: the operand attributes after construction
        printed = self._printed(ins, ops, i)
        try:
            if self.mode == "enc":
                data = list(ins.encode())
                assert not ins.relocations(), "relocation on an instruction without label operand"
            else:
                # what OutputStream.emit does with a macro: relocations at the current position, then every
                # rendered instruction
                rels = ins.relocations()
                data = []
                for sub in ins.render():
                    assert not sub.relocations(), "rendered instruction with a relocation of its own"
                    data += list(sub.encode())
                assert len(rels) == 1, "one relocation expected for a label operand"
                r = rels[0]
                assert r.symbol_name == "lbl" and r.addend == 0
                size = r.size()
                part = list(data[r.offset:r.offset + size])
                assert len(part) == size, "relocation reaches beyond the rendered instructions"
                buf = bytearray(part) if core.ENG is None else SymByteArray(part)
                new = r.apply(i["S"], buf, i["P"] + r.offset)
                data = list(data[:r.offset]) + list(new) + list(data[r.offset + size:])
        except Exception as e:      # noqa: any error = operand combination rejected
            return ("rejected", type(e).__name__)
        # the printed operands once more: encode() must not have changed what the syntax prints
        after = self._printed(ins, ops, i)
        return ("ok", list(data), printed, after)

    # -- what the manual says the printed text means
    def premise(self, i, printed):
        """documented ranges of the integer / label operands (outside: C10 decides whether encode must reject)"""
        cs = []
        order = mbdec.order(self.mn)
        for k, kd in enumerate(self.ks):
            if kd == "i" and k < len(order) and order[k] not in mbdec.REGISTER_FIELDS:
                lo, hi = mbdec.operand_range(self.mn, order[k])
                cs.append(sym_and(printed[k] >= lo, printed[k] <= hi))
            elif kd == "s":
                cs.append(printed[k] <= M32)        # an address of the 32-bit address space
        return sym_and(*cs) if cs else True

    def decode_matches(self, i, data, printed):
        """-> (mnemonic matches, operands match)"""
        order = mbdec.order(self.mn)
        nwords = 1 if self.mode == "enc" else 2
        if len(data) != 4 * nwords or len(order) != len(printed):
            return False, False
        words = [mbdec.word_of_bytes(data[4 * k:4 * k + 4]) for k in range(nwords)]
        conc = all(type(w) is int for w in words) and all(type(v) is int for v in printed) and \
            all(type(v) is int for v in i.values())
        if not conc:
            words = [bv32(w) for w in words]
        d = mbdec.decode(words[-1])
        m = [d.is_(self.mn)]
        if self.mode == "label":
            m.append(mbdec.decode(words[0]).is_("imm"))
        cs = []
        for k, fv in enumerate(d.operands(self.mn)):
            pv, kd = printed[k], self.ks[k]
            isreg = order[k] in mbdec.REGISTER_FIELDS
            if (kd == "r") != isreg:
                cs.append(False)        # a register is printed where the manual has an integer or vice versa
            elif kd == "s":
                op32 = mbdec.imm32(words[0], words[1])
                S = pv if conc else bv32(pv)
                if self.mn in mbdec.PC_RELATIVE or self.mn in mbdec.ABSOLUTE:
                    pc = (i["P"] + 4) if conc else bv32(i["P"] + 4)      # address of the branch = second word
                    cs.append(mbdec.branch_target(self.mn, pc, op32) == S)
                else:
                    cs.append(op32 == S)
            else:
                mask = M32 if isreg else mbdec.compare_mask(self.mn, order[k])
                if conc:
                    cs.append((fv & mask) == (pv & mask))
                else:
                    cs.append((fv & mask) == (bv32(pv) & mask))
        if conc:
            return all(bool(x) for x in m), all(bool(x) for x in cs)
        wrap = lambda b: core.SymBool(b) if z3.is_expr(b) else bool(b)      # noqa
        return wrap(z3.And(*[_zb(x) for x in m])), wrap(z3.And(*[_zb(x) for x in cs]) if cs else True)

    def post(self, i, out):
        if not out.ok:
            return {"harness-ran": False}
        r = out.value
        if r[0] == "rejected":
            return {"rejected": True}
        _, data, printed, after = r
        prem = self.premise(i, printed)
        m, ops = self.decode_matches(i, data, printed)
        return {"decodes-to-printed-mnemonic": implies(prem, m),
                "decodes-to-printed-operands": implies(prem, sym_and(m, ops)),
                "encode leaves the printed operands unchanged": core.sym_eq(list(after), list(printed))}


def mk_microblaze_enc(**kw):
    return MicroblazeEncodingHarness(**kw)


# ---------------------------------------------------------------------------------------------------------
def register_names():
    """every register object of ppci.arch.microblaze.registers prints a name that denotes its number (rN, any case)"""
    from ppci.arch.microblaze import registers as R
    from ppci.arch.microblaze.registers import MicroBlazeRegister
    seen = {}
    for attr, reg in vars(R).items():
        if isinstance(reg, MicroBlazeRegister):
            for nm in (reg.name,) + tuple(getattr(reg, "aka", ())):
                assert mbdec.REG_NUMBER.get(nm.lower()) == reg.num, \
                    f"register object {attr}: printed name {nm!r} is not register {reg.num}"
            seen[reg.name] = reg.num
    assert len(seen) == 32 and sorted(seen.values()) == list(range(32))
    return seen


def helper_functions():
    """the module's helper constructors mov(dst, src) and nop(): rendered text per ref/microblazedec.py; nop must be
    an architecturally empty operation (destination r0, no carry change: or/and/xor/andn/addk.. write no MSR bit;
    the manual's own nop idiom is `or r0, r0, r0`)"""
    from ppci.arch.microblaze import instructions as mi
    from ppci.arch.microblaze import registers as R
    out = {}
    ins = mi.nop()
    w = mbdec.word_of_bytes(ins.encode())
    n, ops = mbdec.disasm(w)
    assert n in ("or", "and", "xor", "andn", "addk", "rsubk") and ops[0] == ("r", 0), \
        f"nop() renders {mbdec.text(w)}, which is not an empty operation"
    out["nop"] = mbdec.text(w)
    ins = mi.mov(R.R5, R.R7)
    w = mbdec.word_of_bytes(ins.encode())
    n, ops = mbdec.disasm(w)
    # rD <- rA + rB with one of the sources r0
    assert n in ("add", "addk", "or") and ops[0] == ("r", 5) and sorted(ops[1:]) == [("r", 0), ("r", 7)], \
        f"mov(r5, r7) renders {mbdec.text(w)}"
    out["mov r5, r7"] = mbdec.text(w)
    return out


def mk_microblaze_selftest():
    """concrete validation of ref/microblazedec.py + register names + helper constructors + the list of unclaimed
    classes (evidence)"""
    import time
    t0 = time.time()
    name = "microblaze.selftest"
    res = dict(harness=name, violations=[], known_hits=[], inconclusive=[], errors=[], funcs=[],
               samples=[], stats=dict(paths=1, decisions=0, feas_queries=0, cut_paths=0, solver_s=0.0),
               obligations=1, discharged=0, validated=0, reached=1, twin_violated=1, exhaustive=True, nontrivial=1)
    try:
        st = mbdec.selftest()
        regs = register_names()
        helpers = helper_functions()
        claimed, unclaimed = discover()
        assert claimed, "no microblaze instruction class claimed"
        res["discharged"] = 1
        res["samples"] = [dict(harness=name, selftest=st, register_names_checked=len(regs), helper_constructors=helpers,
                               claimed_classes=len(claimed),
                               claimed_label_classes=len([c for c in claimed if c[4] == "label"]),
                               unclaimed_classes=[list(u) for u in unclaimed])]
    except AssertionError as e:
        res["errors"].append(dict(kind="reference-selftest-failed", harness=name, error=repr(e)[:500]))
    res["wall_s"] = time.time() - t0
    return res


def jobs(tier, seed):
    js = [("mk_microblaze_selftest", {})]
    claimed, unclaimed = discover()
    for (idx, cls, mn, ks, mode) in claimed:
        js.append(("mk_microblaze_enc", dict(idx=idx, cls=cls, mn=mn, ks=ks, mode=mode, wide=int(tier == "thorough"))))
    return js


BOUNDS_NOTE = ("every class of ppci.arch.microblaze.instructions registered in get_arch('microblaze').isa with a syntax: the 107 "
               "classes with tokens (add rsub addc rsubc addk rsubk addkc rsubkc cmp cmpu, addi .. rsubikc, mul mulh mulhu mulhsu "
               "muli, bsra bsll, idiv idivu, fadd frsub fmul fdiv flt fint fsqrt, or and xor andn pcmpbf pcmpeq pcmpne, ori andi xori "
               "andni, sra src srl sext8 sext16 wic wdc, br brd brld bra brad brald brk, beq..bged, imm, rtsd rtid rtbd rted, bri brid "
               "brlid brai braid bralid brki, beqi..bgeid, lbu lhu lw sb sh sw, lbui lhui lwi sbi shi swi) and the 9 label macros "
               "(bri / brlid / addik / beqi bnei blti blei bgti bgei with a label: real render() = `imm 0; op .., 0` + the real "
               "PcRelRelocation64 / AbsRelocation64); every register number 0..31 for every register operand (MicroBlazeRegister "
               "objects with symbolic number), all operands symbolic at once; integer operands [-2**33, 2**33] (thorough: "
               "[-2**48, 2**48]), obligation stated for the manual's range (sext(IMM): -32768..32767; operand of `imm`: "
               "-32768..65535 compared modulo 2**16); labels: symbol address S 0..2**33-1 (thorough 2**36-1) at any alignment, "
               "address P of the pair every multiple of 4 below 2**32-4; obligation for S < 2**32, addresses modulo 2**32")
OUTSIDE_NOTE = ["microblaze: integer operands outside the manual's documented range (the 16-bit token field takes -32768..65535: "
                "`addik r5, r0, 65535` is emitted with IMM = 0xffff, which the processor reads as -1 unless an `imm` precedes, as "
                "the code generator arranges for xori/addik) -- whether encode() must reject them is C10",
                "microblaze: instructions ppci has no class for (bsrl, barrel shifts by immediate [Bsrli/Bsrai/Bslli are the integer 0 "
                "in the module], fcmp.*, pcmpbc, clz, swapb/swaph, mfs/mts/msrset/msrclr, get/put, lwx/swx, mbar ...); the module's "
                "helper constructors mov()/nop() are only looked at concretely in the self test (add rD, r0, rS / or r0, r0, r0)",
                "microblaze: delay-slot rules (e.g. no branch or imm in a delay slot), the requirement that nothing comes between "
                "`imm` and its consumer; the assembler's text path (incl. that several classes share one mnemonic and one class "
                "name, so the text `idiv`/`sra`/`wic`/`rtsd`/`pcmpeq` is ambiguous for the parser)"]
ASSUMPTIONS_NOTE = ["ref/microblazedec.py states the MicroBlaze Processor Reference Guide (UG081/UG984: Type A / Type B formats, opcode and "
                    "function bits, the fields an instruction page fixes to zero, operand order of the assembler lines, sext(IMM), "
                    "the imm prefix, PC-relative vs absolute branches) correctly (self-tested per run: 124 table entries pairwise "
                    "disjoint, 121 known toolchain words incl. reserved ones, the 2 vectors of the repo's test_microblaze.py, int vs "
                    "z3 evaluation of the shared slicing expressions); special-register, stream, exclusive/reversed load-store and "
                    "64-bit encodings are 'reserved here'",
                    "microblaze: the register a MicroBlazeRegister object prints is the one its name denotes; for the 32 register objects "
                    "of ppci/arch/microblaze/registers.py name -> number (R5 = r5, case-insensitive) is checked in every run, the "
                    "harness's symbolic register objects print rK for operand K and stand for their number",
                    "microblaze: a label operand denotes the symbol's address; `bri/brlid/b<cc>i .., label` rendered at address P as "
                    "`imm HI` (at P) + branch (at P+4) must satisfy (P + 4 + (HI << 16 | IMM)) mod 2**32 == address, "
                    "`addik rd, ra, label` must satisfy (HI << 16 | IMM) == address"]
