"""C36  Python front-end computes what CPython computes.

Real code: ppci.lang.python.python_to_ir (PythonToIrCompiler: gen_for / gen_while / gen_if / gen_binop ...),
run CONCRETELY on every program of a stated finite family (corpus/pyprogs.py: an enumerated part + a
seeded random part of a small grammar of annotated integer functions).
Compiled side : the IR module ppci produced, executed by the IR reference semantics (ref/irsem.py) on
                symbolic 64-bit arguments.
Oracle        : the same source executed by CPython itself (ref/pyoracle.py) on symx integer proxies -
                control flow, evaluation order, operator dispatch, scoping are CPython's; symbolic loop
                bounds fork once per iteration.
Premise       : the property's "integer values stay within 64 bits": every argument and every arithmetic
                result of the CPython execution is assumed to lie in [-2**63, 2**63) (no fork; the
                assumption is part of the path condition), and CPython returns (a path on which CPython
                raises, e.g. ZeroDivisionError, is counted and not claimed).
Obligations per path (decided by the solver for ALL argument values of the path):
  compiles                        python_to_ir produced a module (CompilerError = rejected with a diagnostic
                                  = outside the supported subset, counted; any other exception fails)
  ir-well-formed                  the IR can be executed by the reference semantics (e.g. every phi has an
                                  input for the edge taken)
  compiled-code-defined           the IR execution has no undefined behaviour (division by zero / overflow,
                                  access outside an alloca, read of an undefined value) although CPython returns
  returns-what-cpython-returns    IR result == CPython result
"""
import os
import io
import ast
import time
import z3
from symx.harness import Harness, run_harness, load_known
from symx import core
from ref import irsem, pyoracle
from corpus import pyprogs

PROPERTY = "C36"
LEVEL = "translation_validation"
ROOT = os.path.dirname(os.path.dirname(os.path.abspath(__file__)))
JOB_TIMEOUT = {"quick": 280, "thorough": 1700}
SMALL = {"quick": (-2, 5), "thorough": (-3, 6)}
BOUNDS = {
    "quick": {"programs": "corpus/pyprogs.py: 149 enumerated (every operator x operand shape, all operator pairs, every "
                          "comparison, and/or nestings, if/elif/else, 4 loop skeletons x 12 body kinds incl. break/continue/"
                          "early return/nested loops, loop-variable uses, calls) + 110 seeded random programs of the grammar "
                          "(nesting depth <= 2, two int parameters, optional helper function; random programs keep branch "
                          "conditions linear in the arguments and have static solver cost <= 3, see pyprogs.cost)",
              "symbolic": "both arguments; full range [-2**63, 2**63) unless the parameter reaches a loop bound, a loop "
                          "condition or a condition/call inside a loop (syntactic taint, props/C36.py:loop_tainted): then [-2, 5]",
              "unwinding": "4000 IR instructions, 300 decisions per path; cut paths are counted (none expected)"},
    "thorough": {"programs": "149 enumerated + 1400 seeded random programs", "symbolic": "as quick, loop-related parameters in [-3, 6]",
                 "unwinding": "8000 IR instructions, 400 decisions per path"},
}
OUTSIDE = ["float arithmetic (the IR reference semantics has no floats) and str parameters",
           "programs outside the generated family; functions that CPython ends with an exception or without a return value",
           "constructs ppci rejects with a CompilerError diagnostic (%, unary minus, not, range with a step: probed, counted as "
           "rejected; chained comparisons, true division of ints)",
           "loop-related argument values outside the small interval (trip counts beyond the unwinding bound)",
           "executions in which some integer value leaves 64 bits (the property's premise)",
           "the machine-code back ends / ir_to_python (the IR is judged by its reference semantics)"]
ASSUMPTIONS = ["IR reference semantics ref/irsem.py (i64 wrap-around, `/` `%` truncate toward zero, signed comparisons)",
               "CPython is the oracle for control flow, evaluation order, scoping, calls and operator dispatch; the integers "
               "themselves are symx's exact SymInt model of Python ints, validated on every path by a concrete shim-free "
               "re-execution of the same function with real ints",
               "ref/pyoracle.py routes every binary operation / comparison through CPython's operator protocol, states the "
               "64-bit premise on the result (assumed, joins the path condition), re-expresses in-range results over the "
               "64-bit operand patterns (arithmetic identities) and binds `range` to a lazy iterator with the "
               "language-reference meaning of range(a[, b])",
               "props/C36.py:_Sem returns the term last stored to a constant address instead of re-assembling it from byte slices"]
SHIMS_USED = ["isinstance"]
RULE = ("one evaluation = one program: python_to_ir runs once, then the IR reference semantics and CPython (on proxies) are "
        "compared by the solver for all argument values on every path; non-trivial = more than one path")

# constructs outside ppci's accepted subset: must be REJECTED with a diagnostic (not claimed, only recorded)
PROBES = [
    dict(id="p-mod", src="def f(a: int, b: int) -> int:\n    return a % b\n", entry="f", feats=["probe", "mod"]),
    dict(id="p-neg", src="def f(a: int, b: int) -> int:\n    return -a + b\n", entry="f", feats=["probe", "unary-minus"]),
    dict(id="p-not", src="def f(a: int, b: int) -> int:\n    if not a < b:\n        return 1\n    return 2\n", entry="f",
         feats=["probe", "not"]),
    dict(id="p-step", src="def f(a: int, b: int) -> int:\n    s = 0\n    for i in range(0, a, 2):\n        s += i\n    return s\n",
         entry="f", feats=["probe", "range-step"]),
]


# ------------------------------------------------------------------------------------------------------
def _names(e):
    return {n.id for n in ast.walk(e) if isinstance(n, ast.Name)}


def loop_tainted(src, entry):
    """parameters of `entry` whose value can reach a loop bound / loop condition / a condition or call
    inside a loop (flow-insensitive, through assignments and call arguments): they get the small range"""
    tree = ast.parse(src)
    tainted = {}
    for fn in tree.body:
        params = [a.arg for a in fn.args.args]
        L = set()

        def visit(stmts, in_loop):
            for s in stmts:
                if isinstance(s, ast.For):
                    L.update(_names(s.iter))
                    visit(s.body, True)
                elif isinstance(s, ast.While):
                    L.update(_names(s.test))
                    visit(s.body, True)
                elif isinstance(s, ast.If):
                    if in_loop:
                        L.update(_names(s.test))
                    visit(s.body, in_loop)
                    visit(s.orelse, in_loop)
                if in_loop:
                    for c in ast.walk(s):
                        if isinstance(c, ast.Call) and isinstance(c.func, ast.Name) and c.func.id in tainted:
                            for a in c.args:
                                L.update(_names(a))
        visit(fn.body, False)
        for c in ast.walk(fn):
            if isinstance(c, ast.Call) and isinstance(c.func, ast.Name) and c.func.id in tainted:
                callee = [g for g in tree.body if g.name == c.func.id][0]
                for p, a in zip([x.arg for x in callee.args.args], c.args):
                    if p in tainted[c.func.id]:
                        L.update(_names(a))
        changed = True
        while changed:
            changed = False
            for s in ast.walk(fn):
                tg, val = None, None
                if isinstance(s, ast.Assign):
                    tg, val = set().union(*[_names(t) for t in s.targets]), s.value
                elif isinstance(s, ast.AugAssign):
                    tg, val = _names(s.target), s.value
                if tg and tg & L:
                    new = _names(val) - L
                    if new:
                        L.update(new)
                        changed = True
        tainted[fn.name] = {p for p in params if p in L}
    return tainted[entry]


def _signed(t):
    t = z3.simplify(t)
    if z3.is_bv_value(t):
        return t.as_signed_long()
    if core.ENG is None:
        raise irsem.Unsupported(f"non-constant term in concrete mode: {t}")
    return core.from_bv(t, signed=True)


def _boolean(t):
    t = z3.simplify(t)
    if z3.is_true(t):
        return True
    if z3.is_false(t):
        return False
    if core.ENG is None:
        raise irsem.Unsupported(f"non-constant term in concrete mode: {t}")
    return core.SymBool(t)


class _Sem(irsem.IrSem):
    """ref/irsem.py with a read-after-write shortcut for whole values at constant addresses: a load of n
    bytes from a constant address that was last written by one n-byte store returns the stored term itself
    instead of the concatenation of its 8-bit slices selected from the byte array (the same value; it keeps
    the terms of scalar locals whole, so that they stay comparable with the oracle's terms).  Any store
    that may overlap drops the remembered values."""

    def __init__(self, *a, **k):
        super().__init__(*a, **k)
        self._words = {}

    def store(self, addr, val, nbytes, *more):
        super().store(addr, val, nbytes, *more)
        a = z3.simplify(addr)
        if not z3.is_bv_value(a):
            self._words.clear()
            return
        a = a.as_long()
        for (b, n) in list(self._words):
            if b < a + nbytes and a < b + n:
                del self._words[(b, n)]
        self._words[(a, nbytes)] = val

    def load(self, addr, nbytes, *more):
        r = super().load(addr, nbytes, *more)       # (records the access-validity premise)
        a = z3.simplify(addr)
        if z3.is_bv_value(a) and (a.as_long(), nbytes) in self._words:
            return self._words[(a.as_long(), nbytes)]
        return r


def _eq64(x, y):
    """equality of two integers that both lie in [-2**63, 2**63), stated on their 64-bit patterns"""
    if type(x) is int and type(y) is int:
        return x == y
    return core.SymBool(core.to_bv(x, 64) == core.to_bv(y, 64))


class PyHarness(Harness):
    W = 136
    max_decisions = 300
    timeout_ms = 30000
    prove_timeout_ms = 40000
    cut_allowance = 0
    prove_uf_first = True      # equal operands => equal products / quotients by congruence (see symx/solve.py)
    shim_modules = ()

    def __init__(self, pid, src, entry, feats, small, max_steps=4000, max_paths=1500):
        self.pid, self.src, self.entry, self.feats = pid, src, entry, list(feats)
        self.small = tuple(small)
        self.max_steps = max_steps
        self.max_paths = max_paths
        self.max_decisions = 300 if max_steps <= 4000 else 400
        self.name = f"py[{pid}|{','.join(self.feats)}]"
        self.params = dict(pid=pid, src=src, entry=entry, feats=list(feats), small=list(small), max_steps=max_steps,
                           max_paths=max_paths)
        fn = [f for f in ast.parse(src).body if f.name == entry][0]
        self.argnames = [a.arg for a in fn.args.args]
        self.tainted = loop_tainted(src, entry)
        self._compiled = None

    def inputs(self, mk):
        if core.ENG is not None:
            core.ENG.staged_check = True     # the second execution's branch conditions are consequences of the first's: unsat-heavy feasibility queries
        inp = {}
        for p in self.argnames:
            lo, hi = self.small if p in self.tainted else (pyoracle.MIN64, pyoracle.MAX64)
            inp[p] = mk.int(p, lo, hi)
        return inp

    def compile(self):
        """the REAL front end, once per harness (it does not depend on the argument values)"""
        if self._compiled is None:
            import logging
            from ppci.lang.python import python_to_ir
            from ppci.common import CompilerError
            logging.getLogger("p2p").setLevel(logging.ERROR)
            try:
                sink = io.StringIO()
                import contextlib
                with contextlib.redirect_stdout(sink):      # not_impl() prints dir(node)
                    m = python_to_ir(io.StringIO(self.src))
                self._compiled = ("ok", m)
            except CompilerError as e:
                self._compiled = ("rejected", str(e.msg)[:80])
            except (core.Abort, core.PathCut, core.EngineError):
                raise
            except Exception as e:
                self._compiled = ("crash", f"{type(e).__name__}: {e}"[:160])
        return self._compiled

    def run(self, i):
        args = [i[p] for p in self.argnames]
        status, m = self.compile()
        if status != "ok":
            return dict(compile=status, detail=m)
        kind, py = pyoracle.run(self.src, self.entry, args)
        if kind == "exc":
            return dict(compile="ok", py_exc=py)
        if type(py) is not int and type(py) is not core.SymInt:
            return dict(compile="ok", py_exc="returns " + type(py).__name__)
        sem = _Sem(m, ptr_bits=64, max_steps=self.max_steps, max_depth=3)
        f = [x for x in m.functions if x.name == self.entry][0]
        try:
            r = sem.call(f, [irsem.bvv(a, 64) for a in args])
        except irsem.StepLimit as e:
            raise core.PathCut(str(e))
        except irsem.Unsupported as e:
            return dict(compile="ok", py=py, ir_unsupported=str(e)[:120])
        if r is None:
            return dict(compile="ok", py=py, ir_unsupported="function returned no value")
        return dict(compile="ok", py=py, ir=_signed(r), defined=_boolean(sem.premise()))

    def post(self, i, out):
        if not out.ok:
            return {"harness-ran": False}
        v = out.value
        if v["compile"] == "rejected":
            return {"rejected-with-diagnostic(not claimed)": True}
        if v["compile"] == "crash":
            return {"compiles": False}
        if "py_exc" in v:
            return {"compiles": True, "cpython-raises(not claimed)": True}
        if "ir_unsupported" in v:
            return {"compiles": True, "ir-well-formed": False}
        return {"compiles": True, "ir-well-formed": True, "compiled-code-defined": v["defined"],
                "returns-what-cpython-returns": core.sym_and(v["py"] >= pyoracle.MIN64, v["py"] <= pyoracle.MAX64,
                                                             _eq64(v["ir"], v["py"]))}


# ------------------------------------------------------------------------------------------------------
_SUM = ("obligations", "discharged", "validated", "reached", "twin_violated")


def _spec(p, tier):
    return dict(pid=p["id"], src=p["src"], entry=p["entry"], feats=p["feats"], small=list(SMALL[tier]),
                max_steps=4000 if tier == "quick" else 8000, max_paths=1500 if tier == "quick" else 4000)


def mk_batch(ids, tag="", tier="quick", seed=0):
    """custom job: one harness per program (programs are regenerated from (tier, seed) and picked by id,
    so that job descriptions stay short), results merged"""
    byid = {p["id"]: p for p in select(tier, seed)}
    specs = [_spec(byid[i], tier) for i in ids]
    known = load_known(os.path.join(ROOT, "known_findings.json"), PROPERTY)
    res = dict(harness=f"batch{tag}[{len(specs)} programs]", violations=[], known_hits=[], inconclusive=[],
               errors=[], funcs=[], samples=[], stats={}, solver={}, outcomes={}, exhaustive=True, nontrivial=0,
               programs=0, disagreements_checked=0, wall_s=0.0, **{k: 0 for k in _SUM})
    funcs = set()
    t_end = time.time() + JOB_TIMEOUT[tier] * 0.85
    for n, spec in enumerate(specs):
        h = PyHarness(**spec)
        budget = max(20.0, (t_end - time.time()) / max(1, len(specs) - n) * 3)
        r = run_harness(h, known, want_trace=(n < 1), deadline=time.time() + budget)
        for k in _SUM:
            res[k] += r.get(k, 0)
        for k in ("violations", "known_hits", "inconclusive", "errors"):
            res[k] += r.get(k, [])
        funcs.update(r.get("funcs", []))
        if len(res["samples"]) < 2:
            res["samples"] += r.get("samples", [])[:1]
        for k, v in r.get("stats", {}).items():
            res["stats"][k] = res["stats"].get(k, 0) + v
        for k, v in r.get("solver", {}).items():
            res["solver"][k] = res["solver"].get(k, 0) + v
        for k, v in r.get("outcomes", {}).items():
            res["outcomes"][k] = res["outcomes"].get(k, 0) + v
        res["exhaustive"] = res["exhaustive"] and r.get("exhaustive", False)
        if "probe" not in spec["feats"]:
            res["programs"] += 1
            if r.get("stats", {}).get("paths", 0) > 1:
                res["nontrivial"] += 1
        res["disagreements_checked"] += len(r.get("violations", [])) + len(r.get("known_hits", []))
        res["wall_s"] += r.get("wall_s", 0.0)
        if os.environ.get("VERIF_C36_TIMES"):
            print(f"TIME {spec['pid']} {r.get('wall_s', 0.0):.1f}s paths={r.get('stats', {}).get('paths', 0)} "
                  f"solver={r.get('stats', {}).get('solver_s', 0.0) + r.get('solver', {}).get('solver_s', 0.0):.1f}s", flush=True)
    res["funcs"] = sorted(funcs)
    return res


def _cost(p):
    s = p["src"]
    loops = s.count("for ") + s.count("while ")
    return 1 + 4 * loops * loops + s.count("*") + 2 * s.count("//") + s.count("if ")


def select(tier, seed):
    return PROBES + pyprogs.programs(tier, seed)


def jobs(tier, seed):
    progs = select(tier, seed)
    only = os.environ.get("VERIF_ONLY")
    if only:
        progs = [p for p in progs if only in p["id"] or only in ",".join(p["feats"])]
    specs = [p["id"] for p in progs]
    nb = min(len(specs), 32 if tier == "quick" else 128)
    order = sorted(range(len(specs)), key=lambda k: _cost(progs[k]), reverse=True)
    bins = [[] for _ in range(nb)]
    load = [0] * nb
    for k in order:
        j = load.index(min(load))
        bins[j].append(specs[k])
        load[j] += _cost(progs[k])
    return [("mk_batch", dict(ids=b, tag=f"#{n}", tier=tier, seed=seed)) for n, b in enumerate(bins) if b]
