"""C14  Object files and archives survive save and load  (numeric-field half).

Real code executed on symbolic values:
  ppci.binutils.objectfile  ObjectFile.save/load, serialize, deserialize, add_symbol/add_relocation/...,
                            ObjectFile/Section/Symbol/RelocationEntry/Image.__eq__
  ppci.binutils.archive     Archive.save / Archive.load
  ppci.binutils.debuginfo   serialize / deserialize (DictSerializer / DictDeserializer)
  ppci.utils.binary_txt     bin2asc / asc2bin (+ ppci.utils.chunk.chunks)
  ppci.common               make_num
Symbolic: every numeric field of the object (section address/alignment, symbol value/size/id, relocation
offset/addend/symbol id, image address, entry symbol id, every integer inside the debug information) and
every data byte.  Concrete (enumerated shapes): number of sections/symbols/relocations/images, data lengths
(both sides of the 30-byte switch of bin2asc and of its 30-byte chunking), names, debug-info graph shape.
Post-condition (ref/objsnap.py, from the property text): the reloaded object equals the original field
by field -- including entry point, debug information, architecture and the lookup tables, which
ObjectFile.__eq__ does not look at -- and ObjectFile.__eq__ itself says "equal"; relinking harness: the
linker's output for the reloaded objects is byte-identical to the output for the originals.

hex(): Python renders a variable number of digits, a SymStr has a concrete length.  The shim below is
faithful (sign prefix, no leading zeros) and therefore forks on sign and digit count of the value
(2*D classes for |v| < 16**D).  To keep the product over the fields of an object finite, one field
per harness is FREE (all 2*D classes), the class of every other field is tied to it by an assumption
class_i = (class_free + k_i) mod 2D  ("diagonal"); several vectors k per shape.  Within its class every
field ranges over all values, jointly with all others.  (See BOUNDS / OUTSIDE.)
"""
import io
import os
import json as _json
import random
import binascii as _binascii
from symx.harness import Harness
from symx import core, shims
from symx.core import SymInt, SymBool, sym_and, sym_or, sym_not, ite, SymbolicEscape
from symx.seq import SymBytes, SymByteArray, SymStr
from ref.objsnap import snap_object, diff

PROPERTY = "C14"
LEVEL = "model_checking"
TASKS_PER_CHILD = 64
JOB_TIMEOUT = {"quick": 300, "thorough": 1700}

QUICK_LENS = [0, 1, 2, 29, 30, 31, 32, 59, 60, 61, 89, 90, 91, 121]
THOROUGH_LENS = list(range(0, 131))

BOUNDS = {
    "quick": {"numeric fields": "|v| < 16**16 (= 2**64), both signs, for every field rendered with hex(); "
                                "0 <= v < 2**64 resp. |v| < 2**64 for the fields stored as JSON integers",
              "field combinations": "per shape 1-2 diagonals of the (sign, digit-count) class product (32 classes per field: a symbolic "
                                    "class input c puts field i into class (c + k_i) mod 32); within its class every field takes all "
                                    "values jointly with the others",
              "data bytes": "all byte values; section lengths " + str(QUICK_LENS),
              "shapes": "0-3 sections, 0-5 symbols (global/local, defined/undefined/absolute), 0-3 relocations, 0-2 images, "
                        "entry set/unset, debug info none/empty/two different rich type tables/recursive, archives of 0-3 objects (incl. members with "
                        "different debug type tables), sequences of 2-3 different objects loaded one after the other, 5 architectures"},
    "thorough": {"numeric fields": "|v| < 16**32 (= 2**128), both signs",
                 "field combinations": "per shape 1-3 diagonals (64 classes per field) + for four related field pairs (section address/alignment, "
                                       "symbol value/relocation offset, relocation offset/addend, relocation offset/image address) both "
                                       "fields free (full 16x16 class product of the pair, |v| < 2**32)",
                 "data bytes": "all byte values; every section length 0..130",
                 "shapes": "as quick, plus 16 generated shape combinations (seeded)"},
}
OUTSIDE = ["names, relocation-type strings, file names: concrete samples only (a sample list with quotes, backslashes, "
           "non-ASCII, control characters, empty and long names goes through the real json module once per path)",
           "the full product of (sign, digit-count) classes over ALL fields of one object (covered: diagonals and pairs)",
           "debug information whose addresses are None / raw integers / TemporalDebugAddress or whose referenced types are not "
           "registered in DebugInfo.types: neither the serializer nor the linker's replicator accept them (premise)",
           "byte-identical linking is decided for the arm/riscv relocation types used in the link shapes only"]
ASSUMPTIONS = [
    "json.dump/json.load are replaced by a structural copy that applies JSON's data model (dict keys become str, tuples become "
    "lists, only dict/list/str/int/bool/None pass, anything else raises TypeError); in addition one concrete model of EVERY path "
    "is pushed through the real json module by the driver's shim-free re-run and must give the same reloaded object",
    "hex(v) = sign, '0x', minimal lowercase hex digits; int(s,16) = positional value of hex digits (either case), ValueError "
    "otherwise; binascii.hexlify/unhexlify = two lowercase hex digits per byte and back (CPython stdlib trusted; each is "
    "cross-checked on one model per path by the shim-free re-run)",
    "every run (symbolic and concrete re-run alike) starts from the import-time state of the six anchored modules (module-level "
    "instances/containers, class-level containers and functools caches are put back), i.e. models the first loads of a fresh process; "
    "state carried from one load to the next is observed inside one run (archive members, load sequences)",
    "field inventory of an object file taken from the property text (ref/objsnap.py); SourceLocation.source (a lazily loaded "
    "copy of the source text) is a cache, not debug information",
]
SHIMS_USED = ["isinstance", "int", "bytes", "range", "hex", "bool", "struct"]

_real_hex = hex
_real_int = int
_real_isinstance = shims._real_isinstance


# ---------------------------------------------------------------------------------------------
# local shims (additive; handed to the engine through Harness.shim_extra)
_NIB = {}     # z3 ast id of a digit character produced by _nib_char -> (char expr, nibble it renders)


def _nib_char(n):
    """code point of the lowercase hex digit of nibble n (no fork).  The nibble is remembered, so that reading
    the very same character back (_hexval) yields n directly: hexdigit_value(hexdigit_char(n)) == n for
    n in 0..15 (checked below for all 16 values); purely a solver-load optimisation."""
    c = shims._nibble_char(n)
    if type(c) is SymInt:
        _NIB[c.e.get_id()] = (c.e, n)
    return c


assert all(_real_int(chr(shims._nibble_char(n)), 16) == n for n in range(16))


def hexlify_c14(b):
    if not _real_isinstance(b, SymBytes):
        return _binascii.hexlify(b)
    out = []
    for v in b.lst:
        out.append(_nib_char((v >> 4) & 0xF))
        out.append(_nib_char(v & 0xF))
    return SymBytes.make(out)


def hex_c14(v):
    """hex() of a symbolic integer: faithful rendering; forks on the sign and on the digit count"""
    if type(v) is SymBool:
        v = v.as_int()
    if type(v) is not SymInt:
        return _real_hex(v)
    if v < 0:
        a = -v
        out = [45, 48, 120]
    else:
        a = v
        out = [48, 120]
    n = 1
    while a >= (1 << (4 * n)):
        n += 1
    for i in range(n - 1, -1, -1):
        out.append(_nib_char((a >> (4 * i)) & 0xF))
    return SymStr.make(out)


def _hexval(c):
    """(value, is-hex-digit) of a code point; no fork"""
    if type(c) is not SymInt:
        ch = chr(c)
        if ch in "0123456789abcdefABCDEF":
            return _real_int(ch, 16), True
        return 0, False
    hit = _NIB.get(c.e.get_id())
    if hit is not None and hit[0].eq(c.e):
        return hit[1], True
    isd = sym_and(c >= 48, c <= 57)
    isl = sym_and(c >= 97, c <= 102)
    isu = sym_and(c >= 65, c <= 70)
    val = ite(isd, c - 48, ite(isl, c - 87, c - 55))
    return val, sym_or(isd, isl, isu)


def _digits_value(cps, err):
    """positional value of a sequence of hex-digit code points; ONE fork (all digits valid / not)"""
    vals, oks = [], []
    for c in cps:
        v, ok = _hexval(c)
        vals.append(v)
        oks.append(ok)
    if not sym_and(*oks) if oks else False:
        raise err
    out = []
    for v in vals:
        # on this path every digit is valid, hence 0 <= v <= 15
        out.append(SymInt(v.e, 0, 15) if type(v) is SymInt else v)
    return out


class _IntMeta14(shims._IntMeta):
    def __call__(cls, x=0, *a, **k):
        if type(x) is SymStr:
            base = a[0] if a else k.get("base", 10)
            if base != 16:
                raise SymbolicEscape("int(symbolic str) only for base 16")
            cps = list(x.cps)
            neg = False
            if cps and type(cps[0]) is not SymInt and cps[0] in (43, 45):
                neg = cps[0] == 45
                cps = cps[1:]
            if len(cps) >= 2 and cps[0] == 48 and type(cps[1]) is not SymInt and cps[1] in (88, 120):
                cps = cps[2:]
            if not cps:
                raise ValueError("invalid literal for int() with base 16")
            if any(type(c) is not SymInt and chr(c) in "_ \t\n\r\x0b\x0c" for c in cps):
                raise SymbolicEscape("int(s, 16) with underscores / white space in a symbolic string")
            v = 0
            for d in _digits_value(cps, ValueError("invalid literal for int() with base 16")):
                v = (v << 4) | d
            return -v if neg else v
        return shims._IntMeta.__call__(cls, x, *a, **k)


class int_c14(shims.int_shim, metaclass=_IntMeta14):
    pass


def unhexlify_c14(s):
    if _real_isinstance(s, SymStr):
        cps = s.cps
    elif _real_isinstance(s, SymBytes):
        cps = s.lst
    else:
        return _binascii.unhexlify(s)
    if len(cps) % 2:
        raise _binascii.Error("Odd-length string")
    ds = _digits_value(cps, _binascii.Error("Non-hexadecimal digit found"))
    return SymBytes.make([(ds[i] << 4) | ds[i + 1] for i in range(0, len(ds), 2)])


class binascii_c14:
    Error = _binascii.Error
    hexlify = staticmethod(hexlify_c14)
    unhexlify = staticmethod(unhexlify_c14)
    b2a_hex = staticmethod(hexlify_c14)
    a2b_hex = staticmethod(unhexlify_c14)
    crc32 = staticmethod(_binascii.crc32)


def _has_sym(x):
    if type(x) in (SymInt, SymBool) or _real_isinstance(x, (SymStr, SymBytes)):
        return True
    if _real_isinstance(x, dict):
        return any(_has_sym(k) or _has_sym(v) for k, v in x.items())
    if _real_isinstance(x, (list, tuple)):
        return any(_has_sym(v) for v in x)
    return False


def _json_model(x):
    """what json.loads(json.dumps(x)) returns, for the JSON data model (no floats needed here)"""
    if x is None or x is True or x is False:
        return x
    if type(x) in (SymInt, SymBool) or _real_isinstance(x, SymStr):
        return x
    if _real_isinstance(x, (SymBytes, bytes, bytearray)):
        raise TypeError(f"Object of type {type(x).__name__} is not JSON serializable")
    if _real_isinstance(x, str):
        return x
    if _real_isinstance(x, _real_int):
        return _real_int(x)
    if _real_isinstance(x, float):
        raise SymbolicEscape("float in json model")
    if _real_isinstance(x, dict):
        out = {}
        for k, v in x.items():
            if _real_isinstance(k, SymStr):
                raise SymbolicEscape("symbolic dict key in json model")
            if k is None:
                k = "null"
            elif k is True:
                k = "true"
            elif k is False:
                k = "false"
            elif _real_isinstance(k, _real_int):
                k = str(k)
            elif not _real_isinstance(k, str):
                raise TypeError(f"keys must be str, int, float, bool or None, not {type(k).__name__}")
            out[k] = _json_model(v)
        return out
    if _real_isinstance(x, (list, tuple)):
        return [_json_model(v) for v in x]
    raise TypeError(f"Object of type {type(x).__name__} is not JSON serializable")


class MemFile(io.StringIO):
    """in-memory text file; the json shim parks the (symbolic) document here"""
    doc = None


class json_c14:
    JSONDecodeError = _json.JSONDecodeError
    dumps = staticmethod(_json.dumps)
    loads = staticmethod(_json.loads)

    @staticmethod
    def dump(obj, fp, **kw):
        if _real_isinstance(fp, MemFile) and _has_sym(obj):
            fp.doc = _json_model(obj)
            return
        _json.dump(obj, fp, **kw)

    @staticmethod
    def load(fp, **kw):
        if _real_isinstance(fp, MemFile) and fp.doc is not None:
            return fp.doc
        return _json.load(fp, **kw)


# ---------------------------------------------------------------------------------------------
# Process-state hygiene.  Every run() -- the symbolic one and the shim-free concrete re-run alike -- starts
# from the import-time state of the modules under test (module-level instances and containers, class-level
# containers, functools caches), i.e. it behaves like the first save/load of a fresh process.  State that
# ppci code carries from one load to the next is therefore observed INSIDE one run (archive members,
# the load-sequence harness), identically by the symbolic and by the concrete execution, instead of
# leaking proxies of an earlier path into a later concrete run.
import copy as _copy
import types as _types
_PRISTINE = {}      # module name -> list of (kind, holder, name/None, object, saved copy)


def _is_container(v):
    return type(v) in (dict, list, set, bytearray)


def _snapshot_module(mod):
    rec = []
    for name, val in list(vars(mod).items()):
        if name.startswith("__") or _real_isinstance(val, (_types.ModuleType, _types.FunctionType, type)):
            if _real_isinstance(val, type) and getattr(val, "__module__", None) == mod.__name__:
                for an, av in list(vars(val).items()):
                    if _is_container(av):
                        try:
                            rec.append(("container", av, _copy.deepcopy(av)))
                        except Exception:
                            pass
            elif hasattr(val, "cache_clear") and getattr(val, "__module__", None) == mod.__name__:
                rec.append(("cache", val, None))
            continue
        if hasattr(val, "cache_clear") and getattr(val, "__module__", None) == mod.__name__:
            rec.append(("cache", val, None))
            continue
        try:
            if _is_container(val):
                rec.append(("container", val, _copy.deepcopy(val)))
            elif (type(val).__module__ or "").startswith("ppci") and hasattr(val, "__dict__") \
                    and not _real_isinstance(val, type):
                rec.append(("instance", val, _copy.deepcopy(vars(val))))
        except Exception:
            pass
    return rec


def _restore_modules():
    for rec in _PRISTINE.values():
        for kind, obj, saved in rec:
            if kind == "cache":
                obj.cache_clear()
            elif kind == "instance":
                vars(obj).clear()
                vars(obj).update(_copy.deepcopy(saved))
            elif type(obj) is dict:
                obj.clear()
                obj.update(_copy.deepcopy(saved))
            elif type(obj) is set:
                obj.clear()
                obj.update(_copy.deepcopy(saved))
            else:
                obj[:] = _copy.deepcopy(saved)


SHIM_MODULES = ("ppci.binutils.objectfile", "ppci.binutils.archive", "ppci.binutils.debuginfo",
                "ppci.utils.binary_txt", "ppci.utils.chunk", "ppci.common")
EXTRA = {"hex": hex_c14, "int": int_c14, "binascii": binascii_c14, "json": json_c14}


# ---------------------------------------------------------------------------------------------
# numeric classes
def _cls_interval(c, D):
    neg, nd = divmod(c, D)
    nd += 1
    lo = 0 if nd == 1 else 1 << (4 * (nd - 1))
    hi = (1 << (4 * nd)) - 1
    if neg:
        return -hi, -max(lo, 1)
    return lo, hi


class FieldMaker:
    """declares the numeric fields of one harness.  hexint(): a field rendered by hex().  A symbolic input
    `class` (0..2D-1, enumerated through the solver = one path per value) selects the diagonal element:
    hex field i ranges over ALL values of (sign, digit count) class (class + k_i) mod 2D.  Fields whose index
    is listed in `free` range over all classes at once (hex() then forks on them)."""

    def __init__(self, mk, D, ks, free, cls_range=None):
        _NIB.clear()
        self.mk = mk
        self.D = D
        self.ks = ks
        self.free = set(free)
        self.n = 0
        self.M = (1 << (4 * D)) - 1
        lo, hi = cls_range if cls_range else (0, 2 * D - 1)
        self.c0 = int(mk.int("class", lo, hi))      # proxy: forks over its feasible values

    def hexint(self, name):
        i = self.n
        self.n += 1
        if i in self.free:
            return self.mk.int(name, -self.M, self.M)
        k = self.ks[i % len(self.ks)] if self.ks else 0
        lo, hi = _cls_interval((self.c0 + k) % (2 * self.D), self.D)
        return self.mk.int(name, lo, hi)

    def uint(self, name):
        return self.mk.int(name, 0, self.M)

    def sint(self, name):
        return self.mk.int(name, -self.M, self.M)

    def small(self, name, lo, hi):
        return self.mk.int(name, lo, hi)

    def data(self, name, n):
        return [self.mk.int(f"{name}[{i}]", 0, 255) for i in range(n)]


# ---------------------------------------------------------------------------------------------
# shapes
NAMES = ["code", "data", ".text", "a b", "", 'q"uo\\te', "ünï©ode☃", "tab\tnl\n", "x" * 300,
         "main", "_start", ".LDBG_1", "m_f_literal_0", "0x10", "null"]


def _sym(name, binding="global", section=None, defined=True, typ="object"):
    return dict(name=name, binding=binding, section=section, defined=defined, typ=typ)


SHAPES = {
    "empty": dict(arch="arm"),
    "sec1": dict(arch="msp430", sections=[["code", 4]]),
    "typical": dict(arch="arm", sections=[["code", 12], ["data", 5]],
                    symbols=[_sym("main", "global", "code", True, "func"), _sym("loc", "local", "code"),
                             _sym("ext", "global", None, False), _sym("g", "global", "data")],
                    relocs=[["absaddr32", "code"], ["b_imm24", "code"], ["absaddr32", "data"]],
                    entry=True),
    "images": dict(arch="riscv:rvc", sections=[[".text", 31], ["a b", 30], ["", 0]],
                   symbols=[_sym("abs", "global", None, True), _sym("_start", "global", ".text", True, "func")],
                   relocs=[["abs32_imm20", ".text"]],
                   images=[["flash", [".text", "a b"]], ["ram", []]], entry=True),
    "names": dict(arch="x86_64", sections=[['q"uo\\te', 3], ["ünï©ode☃", 1], ["tab\tnl\n", 2]],
                  symbols=[_sym("x" * 300, "global", 'q"uo\\te'), _sym("", "local", "tab\tnl\n"), _sym("", "local", None, False),
                           _sym("null", "global", None, False, "func"), _sym("0x10", "local", None, True)],
                  relocs=[["rel32 weird☃", "tab\tnl\n"]],
                  images=[["ïmg", ['q"uo\\te']]], entry=False),
    "big": dict(arch="arm:thumb", sections=[["code", 61], ["data", 90]],
                symbols=[_sym("f", "global", "code", True, "func")], relocs=[["wrap_new11", "code"]],
                images=[["rom", ["data", "code"]]], entry=True),
    "debug": dict(arch="arm", sections=[["code", 8]],
                  symbols=[_sym("m_f", "global", "code", True, "func"), _sym(".LDBG_1", "local", "code")],
                  relocs=[], entry=False, debug="rich"),
    "debug-empty": dict(arch="avr", sections=[["code", 1]], debug="empty"),
    "debug2": dict(arch="arm", sections=[["data", 3]], symbols=[_sym("tab", "global", "data")], relocs=[], entry=False, debug="alt"),
    "symid": dict(arch="arm", sections=[["code", 2]],
                  symbols=[_sym("a", "global", "code"), _sym("b", "local", None, False)], relocs=[["absaddr32", "code"]],
                  entry=True, symids=True),
    # recursive type whose pointer is registered before the struct (KeyError on load before fix c43ac89)
    "debug-ptrfirst": dict(arch="arm", sections=[["code", 1]], debug="ptrfirst"),
}
ARCHIVES = {
    "ar0": [],
    "ar1": ["typical"],
    "ar3": ["images", "empty", "debug"],
    "ar2same": ["sec1", "sec1"],
    # members whose debug type tables differ id by id: state carried from one load to the next shows here
    "ar-dbg2": ["debug", "debug2"],
    "ar-dbg3": ["debug2", "debug-ptrfirst", "debug"],
    "typical-images": ["typical", "images"],
}


def gen_shapes(seed, count):
    """generated shape combinations for the thorough tier"""
    rnd = random.Random(seed)
    archs = ["arm", "arm:thumb", "riscv", "riscv:rvc", "msp430", "x86_64", "avr", "or1k", "xtensa", "m68k"]
    out = {}
    for n in range(count):
        nsec = rnd.randint(0, 3)
        secs = [[NAMES[(n + i) % 9], rnd.choice([0, 1, 7, 29, 30, 31, 45, 60, 61])] for i in range(nsec)]
        secnames = [s[0] for s in secs]
        syms = []
        gl = set()
        for i in range(rnd.randint(0, 5)):
            binding = rnd.choice(["global", "local"])
            name = rnd.choice(NAMES)
            if binding == "global":
                if name in gl:
                    continue
                gl.add(name)
            kind = rnd.choice(["def", "undef", "abs"]) if secnames else rnd.choice(["undef", "abs"])
            syms.append(_sym(name, binding, rnd.choice(secnames) if kind == "def" else None, kind != "undef",
                             rnd.choice(["func", "object"])))
        rels = [[rnd.choice(["absaddr32", "rel8", "b_imm24"]), rnd.choice(secnames)]
                for _ in range(rnd.randint(0, 3))] if secnames else []
        imgs = []
        for i in range(rnd.randint(0, 2)):
            imgs.append([f"img{i}", rnd.sample(secnames, rnd.randint(0, len(secnames)))])
        out[f"gen{n}"] = dict(arch=rnd.choice(archs), sections=secs, symbols=syms, relocs=rels, images=imgs,
                              entry=rnd.random() < 0.5, debug=rnd.choice([None, None, "rich", "empty"]))
    return out


def shape_by_id(sid, seed=0):
    if sid in SHAPES:
        return SHAPES[sid]
    if sid.startswith("gen"):
        return gen_shapes(seed, _real_int(sid[3:]) + 1)[sid]
    raise KeyError(sid)


def declare(shape, fm, p=""):
    """declare all numeric inputs of one object of the given shape"""
    v = {}
    for i, (name, n) in enumerate(shape.get("sections", [])):
        v[f"sec{i}.address"] = fm.hexint(f"{p}sec{i}.address")
        v[f"sec{i}.alignment"] = fm.hexint(f"{p}sec{i}.alignment")
        v[f"sec{i}.data"] = fm.data(f"{p}sec{i}.data", n)
    nsym = len(shape.get("symbols", []))
    for i, s in enumerate(shape.get("symbols", [])):
        if s["defined"]:
            v[f"sym{i}.value"] = fm.hexint(f"{p}sym{i}.value")
        v[f"sym{i}.size"] = fm.uint(f"{p}sym{i}.size")
        if shape.get("symids"):
            v[f"sym{i}.id"] = fm.small(f"{p}sym{i}.id", 0, nsym + 1)
            for j in range(i):      # premise of ObjectFile.add_symbol: ids are unique
                fm.mk.assume(v[f"sym{i}.id"] != v[f"sym{j}.id"])
    for i, r in enumerate(shape.get("relocs", [])):
        v[f"rel{i}.offset"] = fm.hexint(f"{p}rel{i}.offset")
        v[f"rel{i}.addend"] = fm.hexint(f"{p}rel{i}.addend")
        v[f"rel{i}.symbol_id"] = fm.uint(f"{p}rel{i}.symbol_id")
    for i, im in enumerate(shape.get("images", [])):
        v[f"img{i}.address"] = fm.hexint(f"{p}img{i}.address")
    if shape.get("entry"):
        v["entry"] = fm.uint(f"{p}entry")
    if shape.get("debug") == "alt":
        for k in ("row", "col", "length", "long.size", "long.encoding", "arr.size", "arr2.size", "var.symbol_id", "fp.size"):
            v["dbg." + k] = fm.uint(f"{p}dbg.{k}")
        v["dbg.fp.offset"] = fm.sint(f"{p}dbg.fp.offset")
    if shape.get("debug") == "rich":
        for k in ("row", "col", "length", "row2", "col2", "length2", "int.size", "int.encoding", "byte.size", "byte.encoding",
                  "f0.offset", "f1.offset", "f2.offset", "arr.size", "loc.symbol_id", "var.symbol_id", "begin.symbol_id",
                  "end.symbol_id", "fp.size", "fp2.size"):
            v["dbg." + k] = fm.uint(f"{p}dbg.{k}")
        for k in ("fp.offset", "fp2.offset"):
            v["dbg." + k] = fm.sint(f"{p}dbg.{k}")
    return v


def build_debug(kind, v):
    from ppci.binutils import debuginfo as D
    from ppci.common import SourceLocation
    from ppci.arch.stack import StackLocation
    di = D.DebugInfo()
    if kind == "empty":
        return di
    if kind == "ptrfirst":
        st = D.DebugStructType()
        pt = D.DebugPointerType(st)
        st.add_field("next", pt, 0)
        di.add(pt)
        di.add(st)
        return di
    g = lambda k: v["dbg." + k]
    if kind == "alt":
        # a type table that differs from "rich" id by id: (long, *long, long[n], (*long)[m]) vs (struct, int, array, ...)
        t_long = D.DebugBaseType("long", g("long.size"), g("long.encoding"))
        t_pl = D.DebugPointerType(t_long)
        t_al = D.DebugArrayType(t_long, g("arr.size"))
        t_apl = D.DebugArrayType(t_pl, g("arr2.size"))
        for t in (t_long, t_pl, t_al, t_apl):
            di.add(t)
        loc = SourceLocation("other.c", g("row"), g("col"), g("length"))
        di.add(D.DebugVariable("tab", t_apl, loc, address=D.DebugAddress(g("var.symbol_id"))))
        di.add(D.DebugVariable("p", t_pl, loc))
        di.add(D.DebugFunction("h", loc, t_pl, [D.DebugParameter("n", t_long), D.DebugParameter("v", t_al)],
                               begin=D.UnknownAddress(), end=D.UnknownAddress(),
                               variables=[D.DebugVariable("i", t_long, loc,
                                                          address=D.FpOffsetAddress(StackLocation(g("fp.offset"), g("fp.size"))))]))
        return di
    t_int = D.DebugBaseType("int", g("int.size"), g("int.encoding"))
    t_byte = D.DebugBaseType("byte", g("byte.size"), g("byte.encoding"))
    t_struct = D.DebugStructType()
    t_ptr = D.DebugPointerType(t_struct)
    t_struct.add_field("a", t_int, g("f0.offset"))
    t_struct.add_field("b", t_byte, g("f1.offset"))
    t_struct.add_field("next", t_ptr, g("f2.offset"))
    t_arr = D.DebugArrayType(t_struct, g("arr.size"))
    t_pp = D.DebugPointerType(t_ptr)
    for t in (t_struct, t_int, t_arr, t_byte, t_ptr, t_pp):   # struct before the pointer to it (as the compilers do)
        di.add(t)
    loc = SourceLocation("dir/file ☃.c3", g("row"), g("col"), g("length"))
    loc2 = SourceLocation("", g("row2"), g("col2"), g("length2"))
    di.add(D.DebugLocation(loc, address=D.DebugAddress(g("loc.symbol_id"))))
    di.add(D.DebugLocation(loc2, address=D.DebugAddress(g("var.symbol_id"))))
    di.add(D.DebugVariable("g", t_int, loc, address=D.DebugAddress(g("var.symbol_id"))))
    di.add(D.DebugVariable("unk", t_arr, loc2))
    fn = D.DebugFunction("m_f", loc, t_int, [D.DebugParameter("a", t_int), D.DebugParameter("p", t_pp)],
                         begin=D.DebugAddress(g("begin.symbol_id")), end=D.DebugAddress(g("end.symbol_id")),
                         variables=[D.DebugVariable("x", t_struct, loc2,
                                                    address=D.FpOffsetAddress(StackLocation(g("fp.offset"), g("fp.size"))))])
    fn.add_variable(D.DebugVariable("y", t_byte, loc,
                                    address=D.FpOffsetAddress(StackLocation(g("fp2.offset"), g("fp2.size")))))
    di.add(fn)
    di.add(D.DebugFunction("empty", loc2, t_byte, [], begin=D.DebugAddress(0), end=D.UnknownAddress()))
    return di


def build(shape, v):
    """construct the object through ppci's own API (real code)"""
    from ppci.binutils.objectfile import ObjectFile, Image, RelocationEntry
    from ppci.api import get_arch
    obj = ObjectFile(get_arch(shape["arch"]))
    for i, (name, n) in enumerate(shape.get("sections", [])):
        s = obj.create_section(name) if i % 2 else obj.get_section(name, create=True)
        s.address = v[f"sec{i}.address"]
        s.alignment = v[f"sec{i}.alignment"]
        d = v[f"sec{i}.data"]
        if d:
            half = len(d) // 2
            s.add_data(_mkbytes(d[:half]))
            s.add_data(_mkbytes(d[half:]))
    for i, sy in enumerate(shape.get("symbols", [])):
        sid = v.get(f"sym{i}.id", i)
        obj.add_symbol(sid, sy["name"], sy["binding"], v[f"sym{i}.value"] if sy["defined"] else None,
                       sy["section"], sy["typ"], v[f"sym{i}.size"])
    for i, (typ, sec) in enumerate(shape.get("relocs", [])):
        obj.add_relocation(RelocationEntry(typ, v[f"rel{i}.symbol_id"], sec, v[f"rel{i}.offset"], v[f"rel{i}.addend"]))
    for i, (name, secs) in enumerate(shape.get("images", [])):
        img = Image(name, v[f"img{i}.address"])
        for sn in secs:
            img.add_section(obj.get_section(sn))
        obj.add_image(img)
    if shape.get("entry"):
        obj.entry_symbol_id = v["entry"]
    if shape.get("debug"):
        obj.debug_info = build_debug(shape["debug"], v)
    return obj


def _mkbytes(lst):
    if any(type(x) is SymInt for x in lst):
        return SymBytes(lst)
    return bytes(lst)


def _kname(ks):
    return "-".join(str(k) for k in ks) if ks else "0"


# ---------------------------------------------------------------------------------------------
class _Base(Harness):
    shim_modules = SHIM_MODULES
    max_paths = 5000
    max_decisions = 20000

    def shim_extra(self):
        return dict(EXTRA)

    def modules(self):
        import importlib
        mods = []
        for m in self.shim_modules:
            fresh = m not in _PRISTINE and m in SHIM_MODULES     # the anchored modules of C14 only
            mod = importlib.import_module(m)
            if fresh:       # taken before any run of this process touches the module (shims not yet injected)
                _PRISTINE[m] = _snapshot_module(mod)
            mods.append(mod)
        return mods

    def _setup(self, D):
        self.D = D
        self.W = 4 * D + 32


class ObjectHarness(_Base):
    """one object file: ObjectFile.save -> text -> ObjectFile.load"""

    def __init__(self, shape, D=16, ks=(), free=(), seed=0, cls_range=None):
        self.shape_id = shape
        self.shape = shape_by_id(shape, seed)
        self.ks = list(ks)
        self.free = list(free)
        self.cls_range = cls_range
        self._setup(D)
        self.name = f"objectfile.roundtrip[{shape};D={D};k={_kname(self.ks)};free={_kname(self.free) if self.free else '-'}]"
        self.params = dict(shape=shape, D=D, ks=self.ks, free=self.free, seed=seed, cls_range=cls_range)

    def inputs(self, mk):
        return declare(self.shape, FieldMaker(mk, self.D, self.ks, self.free, self.cls_range))

    def run(self, v):
        from ppci.binutils.objectfile import ObjectFile
        _restore_modules()
        obj = build(self.shape, v)
        before = snap_object(obj)
        f = MemFile()
        obj.save(f)
        f.seek(0)
        obj2 = ObjectFile.load(f)
        return dict(orig=before, loaded=snap_object(obj2), eq=bool(obj2 == obj))

    def post(self, v, out):
        if not out.ok:
            return {"no-exception": False}
        o = out.value
        res = {"no-exception": True}
        res.update(diff(o["orig"], o["loaded"]))
        res["ObjectFile.__eq__"] = o["eq"] is True
        return res


class ArchiveHarness(_Base):
    """several objects: Archive.save -> text -> Archive.load"""

    def __init__(self, archive, D=16, ks=(), free=(), cls_range=None, mode="archive"):
        self.archive = archive
        self.mode = mode            # "archive": one Archive.save/load; "sequence": every object saved, then loaded one after the other
        self.cls_range = cls_range
        self.shapes = [SHAPES[s] for s in ARCHIVES[archive]]
        self.ks = list(ks)
        self.free = list(free)
        self._setup(D)
        self.name = f"{mode}.roundtrip[{archive};D={D};k={_kname(self.ks)}]"
        self.params = dict(archive=archive, D=D, ks=self.ks, free=self.free, cls_range=cls_range, mode=mode)

    def inputs(self, mk):
        fm = FieldMaker(mk, self.D, self.ks, self.free, self.cls_range)
        return {f"o{i}": declare(s, fm, f"o{i}.") for i, s in enumerate(self.shapes)}

    def run(self, v):
        from ppci.binutils.archive import Archive, archive, get_archive
        from ppci.binutils.objectfile import ObjectFile, get_object
        _restore_modules()
        objs = [build(s, v[f"o{i}"]) for i, s in enumerate(self.shapes)]
        before = [snap_object(o) for o in objs]
        if self.mode == "sequence":
            files = []
            for o in objs:
                f = MemFile()
                o.save(f)
                f.seek(0)
                files.append(f)
            objs2 = [get_object(f) for f in files]      # get_object -> ObjectFile.load
        else:
            ar = archive(objs)
            f = MemFile()
            ar.save(f)
            f.seek(0)
            ar2 = get_archive(Archive.load(f))
            objs2 = list(ar2)
        return dict(orig=before, loaded=[snap_object(o) for o in objs2],
                    eq=[bool(a == b) for a, b in zip(objs2, objs)])

    def post(self, v, out):
        if not out.ok:
            return {"no-exception": False}
        o = out.value
        res = {"no-exception": True}
        res.update(diff({"objects": o["orig"]}, {"objects": o["loaded"]}))
        res["ObjectFile.__eq__"] = all(e is True for e in o["eq"]) and len(o["eq"]) == len(o["orig"])
        return res


class NumTextHarness(_Base):
    """the numeric text layer alone: make_num(hex(v)) == v for every v (all sign/digit-count classes)"""

    def __init__(self, D=16):
        self._setup(D)
        self.name = f"make_num.hex.roundtrip[|v|<16**{D}]"
        self.params = dict(D=D)

    def inputs(self, mk):
        M = (1 << (4 * self.D)) - 1
        return dict(v=mk.int("v", -M, M))

    def run(self, i):
        from ppci.binutils import objectfile
        from ppci.common import make_num
        _restore_modules()
        # the serializer's rendering of a numeric field (a one-symbol object would do the same)
        txt = objectfile.serialize(objectfile.RelocationEntry("t", 0, "s", i["v"], 0))["offset"]
        return make_num(_json_model(txt) if _has_sym(txt) else _json.loads(_json.dumps(txt)))

    def post(self, i, out):
        return {"value-restored": sym_and(True, out.value == i["v"]) if out.ok else False}


class DataTextHarness(_Base):
    """the data text layer alone: asc2bin(json(bin2asc(data))) == data, any bytes, length n"""

    def __init__(self, n, mutable=False):
        self.n = n
        self.mutable = mutable
        self._setup(16)
        self.name = f"bin2asc.asc2bin.roundtrip[{n} bytes;{'bytearray' if mutable else 'bytes'}]"
        self.params = dict(n=n, mutable=mutable)

    def inputs(self, mk):
        return dict(data=[mk.int(f"d[{i}]", 0, 255) for i in range(self.n)])

    def run(self, i):
        from ppci.utils.binary_txt import bin2asc, asc2bin
        _restore_modules()
        lst = i["data"]
        sym = any(type(x) is SymInt for x in lst)
        if self.mutable:
            data = SymByteArray(lst) if sym else bytearray(lst)
        else:
            data = SymBytes(lst) if sym else bytes(lst)
        txt = bin2asc(data)
        txt2 = _json_model(txt) if _has_sym(txt) else _json.loads(_json.dumps(txt))
        back = asc2bin(txt2)
        return dict(back=list(back), is_bytes=bool(isinstance(back, (bytes, SymBytes))))

    def post(self, i, out):
        if not out.ok:
            return {"no-exception": False}
        back = out.value["back"]
        data = i["data"]
        if len(back) != len(data):
            return {"no-exception": True, "length": False}
        return {"no-exception": True, "length": True,
                "bytes-restored": sym_and(True, *[a == b for a, b in zip(back, data)]),
                "returns-bytes": out.value["is_bytes"]}


LINK_LAYOUT = """
MEMORY flash LOCATION=0x1000 SIZE=0x1000 { SECTION(code) }
MEMORY ram LOCATION=0x20000 SIZE=0x100 { SECTION(data) }
"""
# (lo, hi) per symbolic field and variant: each inside one (sign, digit-count) class
LINK_RANGES = {
    0: dict(main=(0x0, 0xF), lbl=(0x1, 0xB), ext=(0x0, 0x3), addend=(-0xFF, -0x10), addr=(0x10000000, 0xFFFFFFFF), addend2=(0x0, 0xF)),
    1: dict(main=(0x0, 0xB), lbl=(0x0, 0xC), ext=(0x1, 0x4), addend=(-0xF, -0x1), addr=(-0xFFF, -0x100), addend2=(-0xFFFFF, -0x10000)),
    2: dict(main=(0x4, 0xC), lbl=(0x0, 0x8), ext=(0x0, 0x4), addend=(0x100, 0xFFF), addr=(0x0, 0xF), addend2=(0x1000000000, 0xFFFFFFFFFF)),
}


class LinkHarness(_Base):
    """two x86_64 objects (symbolic code/data bytes, symbol values, addends incl. negative ones, section
    addresses) are linked with a layout; the same link is done with the objects after save/load (mode
    'objects'), resp. with the second object pulled out of a saved/loaded archive (mode 'library').
    The two linker outputs must be identical in every field and every image byte."""
    shim_modules = SHIM_MODULES + ("ppci.binutils.linker", "ppci.utils.bitfun", "ppci.arch.token", "ppci.arch.encoding",
                                   "ppci.arch.data_instructions", "ppci.arch.x86_64.instructions")

    def __init__(self, mode="objects", variant=0, partial=False):
        self.mode = mode
        self.variant = variant
        self.partial = partial
        self._setup(16)
        self.name = f"link.after.roundtrip[{mode};variant={variant};partial={int(partial)}]"
        self.params = dict(mode=mode, variant=variant, partial=partial)

    def inputs(self, mk):
        _NIB.clear()
        R = LINK_RANGES[self.variant]
        v = {}
        for o, secs in (("o1", (("code", 12), ("data", 3))), ("o2", (("code", 5), ("data", 4)))):
            for sn, n in secs:
                v[f"{o}.{sn}.data"] = [mk.int(f"{o}.{sn}.data[{i}]", 0, 255) for i in range(n)]
                v[f"{o}.{sn}.address"] = mk.int(f"{o}.{sn}.address", *R["addr"])
        for k in ("main", "lbl", "ext", "addend", "addend2"):
            v[k] = mk.int(k, *R[k])
        v["size"] = mk.int("size", 0, (1 << 64) - 1)
        return v

    def _objects(self, v):
        from ppci.binutils.objectfile import ObjectFile, RelocationEntry
        from ppci.api import get_arch
        arch = get_arch("x86_64")
        o1 = ObjectFile(arch)
        o2 = ObjectFile(arch)
        for o, name, align in ((o1, "o1", {"code": 4, "data": 1}), (o2, "o2", {"code": 8, "data": 4})):
            for sn in ("code", "data"):
                s = o.create_section(sn)
                s.alignment = align[sn]
                s.address = v[f"{name}.{sn}.address"]
                s.add_data(_mkbytes(v[f"{name}.{sn}.data"]))
        o1.add_symbol(0, "main", "global", v["main"], "code", "func", v["size"])
        o1.add_symbol(1, "ext", "global", None, None, "object", 0)
        o1.add_symbol(2, "lbl", "local", v["lbl"], "code", "object", 0)
        o1.add_relocation(RelocationEntry("rel32", 1, "code", 4, v["addend"]))
        o1.add_relocation(RelocationEntry("absaddr32", 2, "code", 8, v["addend2"]))
        o1.entry_symbol_id = 0
        o2.add_symbol(0, "ext", "global", v["ext"], "data", "object", v["size"])
        o2.add_symbol(1, "main", "global", None, None, "func", 0)
        o2.add_symbol(2, "lbl", "local", v["lbl"], "data", "object", 0)
        o2.add_relocation(RelocationEntry("absaddr32", 1, "data", 0, v["addend"]))
        o2.add_relocation(RelocationEntry("rel32", 2, "code", 1, v["addend"]))
        return o1, o2

    def _link(self, objs, libs):
        from ppci.api import link
        from ppci.binutils.layout import Layout
        if self.partial:
            out = link(objs + [o for lib in libs for o in lib], partial_link=True)
        else:
            out = link(objs, layout=Layout.load(io.StringIO(LINK_LAYOUT)), libraries=libs or None)
        snap = snap_object(out)
        snap["image_bytes"] = [list(im.data) for im in out.images]
        return snap

    def run(self, v):
        from ppci.binutils.objectfile import ObjectFile
        from ppci.binutils.archive import Archive
        _restore_modules()
        o1, o2 = self._objects(v)

        def rt(o):
            f = MemFile()
            o.save(f)
            f.seek(0)
            return ObjectFile.load(f)

        if self.mode == "objects":
            ref = self._link([o1, o2], [])
            got = self._link([rt(o1), rt(o2)], [])
        else:
            f = MemFile()
            Archive([o2]).save(f)
            f.seek(0)
            ref = self._link([o1], [Archive([o2])])
            got = self._link([rt(o1)], [Archive.load(f)])
        return dict(ref=ref, got=got)

    def post(self, v, out):
        if not out.ok:
            return {"no-exception": False}
        res = {"no-exception": True}
        res.update(diff(out.value["ref"], out.value["got"], "linked"))
        return res


def mk_link(**kw):
    return LinkHarness(**kw)


# ---------------------------------------------------------------------------------------------
def mk_obj(**kw):
    return ObjectHarness(**kw)


def mk_ar(**kw):
    return ArchiveHarness(**kw)


def mk_num(**kw):
    return NumTextHarness(**kw)


def mk_data(**kw):
    return DataTextHarness(**kw)


def _nhex(shape):
    return (2 * len(shape.get("sections", [])) + sum(1 for s in shape.get("symbols", []) if s["defined"])
            + 2 * len(shape.get("relocs", [])) + len(shape.get("images", [])))


def _diagonals(rnd, nfields, D, count):
    """vectors k (one entry per hex field): all-equal classes first, then seeded rotations"""
    out = [[0]]
    for _ in range(count - 1):
        out.append([0] + [rnd.randrange(2 * D) for _ in range(max(nfields - 1, 1))])
    return out


def jobs(tier, seed):
    rnd = random.Random(seed)
    js = []
    if tier == "quick":
        D, ndiag, lens = 16, 2, QUICK_LENS
        shapes = dict(SHAPES)
    else:
        D, ndiag, lens = 32, 3, THOROUGH_LENS
        shapes = dict(SHAPES)
        shapes.update(gen_shapes(seed, 16))
    js.append(("mk_num", dict(D=D)))
    for n in lens:
        js.append(("mk_data", dict(n=n, mutable=bool(n % 2))))
    for sid, sh in shapes.items():
        nf = _nhex(sh)
        nd = ndiag if nf > 1 else 1
        if tier == "quick" and sid not in ("typical", "images"):
            nd = 1
        if tier == "thorough" and (sid.startswith("gen") or sid in ("big", "symid")):
            nd = 1
        diags = _diagonals(rnd, nf, D, max(nd, 2))
        for ks in (diags if nd > 1 else diags[1:] if nf > 1 else diags[:1]):
            kw = dict(shape=sid, D=D, ks=ks, free=[], seed=seed)
            if nf == 0:
                kw["cls_range"] = [0, 0]            # no hex()-rendered field: the class input is moot
            elif sh.get("symids") and tier == "quick":
                c = rnd.randrange(2 * D)            # symbol ids are enumerated (x12 paths): one class per diagonal
                kw["cls_range"] = [c, c]
            js.append(("mk_obj", kw))
    for aid in ARCHIVES:
        if aid in ("ar0", "typical-images"):
            continue
        kw = dict(archive=aid, D=D, ks=[0], free=[])
        if aid.startswith("ar-dbg") and tier == "quick":
            c = rnd.randrange(2 * D)
            kw["cls_range"] = [c, c]
        js.append(("mk_ar", kw))
    js.append(("mk_ar", dict(archive="ar0", D=D, ks=[0], free=[], cls_range=[0, 0])))
    for aid, mode in (("ar-dbg2", "sequence"), ("ar-dbg3", "sequence"), ("typical-images", "sequence")):
        c = rnd.randrange(2 * D)
        js.append(("mk_ar", dict(archive=aid, D=D, ks=[0, 5, 11, 2], free=[], mode=mode,
                                 cls_range=[c, c] if tier == "quick" else None)))
    js.append(("mk_ar", dict(archive="ar3", D=D, ks=[0] + [rnd.randrange(2 * D) for _ in range(20)], free=[])))
    for mode in ("objects", "library"):
        for variant in ((0, 1) if tier == "quick" else (0, 1, 2)):
            js.append(("mk_link", dict(mode=mode, variant=variant, partial=False)))
    js.append(("mk_link", dict(mode="objects", variant=2, partial=True)))
    if tier == "thorough":
        # related pairs, both free: full (sign, digit-count) product of the pair (D=8: 16x16 = 256 paths each)
        for sid, pair in (("sec1", [0, 1]), ("typical", [4, 7]), ("typical", [7, 8]), ("images", [8, 10])):
            js.append(("mk_obj", dict(shape=sid, D=8, ks=[0, 3, 9, 8, 14, 5, 12], free=pair, seed=seed, cls_range=[5, 5])))
    only = os.environ.get("VERIF_ONLY")
    if only:
        js = [j for j in js if only in repr(j)]
    return js
