"""C27  C integer constant expressions are evaluated as C prescribes.

Real code: the whole C front end through its public entry point ppci.lang.c.api.c_to_ir
(CPreProcessor, CParser, CSemantics [on_number, on_binop, coerce, promote, get_common_type, on_case ...],
ConstantExpressionEvaluator.eval_expr/eval_binop/eval_unop/eval_cast, CContext.pack / eval_expr /
sizeof / get_enum_value, CCodeGenerator.gen_global_ival / gen_global_initialize_* / gen_local_static_variable /
gen_switch / gen_case, LinkTimeExpressionEvaluator).

A program *template* (concrete: the use of the constant expression, the destination type, the
operator tree, the literal suffixes) is compiled by the REAL front end while every integer literal of
the constant expression carries a SYMBOLIC value ranging over the whole non-negative range of its C type
(negative operands arise through unary minus, ~ and casts, as in C).  The literals are made symbolic
by wrapping CSemantics.on_number from the harness side: the real method runs on a placeholder token and
the value of the NumericLiteral it returns is replaced.  Everything downstream (parse-time evaluation
of case labels, typing, implicit conversions, constant evaluation, packing into the byte image, IR
construction) is the real code running on proxies.  On every explored path the run is repeated
concretely with NO instrumentation at all: the literal values of the path's model are printed into the
C text and the unmodified c_to_ir is called; outcomes must agree (encoding validation).

Oracle: ref/csem.py (C11 integer semantics for the target's data model) on the same tree:
value converted to the destination type, object representation in target byte order.
Premise: the expression is free of undefined behaviour / constraint violations (signed overflow,
division by zero, shift count out of range, left shift of a negative value, enumerator not
representable as int, array size not positive).  Obligations per path:
  compiles   c_to_ir returns (no exception of any kind)
  value      the observed bytes / case constant / array size equal the oracle's
"""
import os
import io
import logging
import random
import itertools
from symx.harness import Harness, run_harness, load_known
from symx import core
from symx.core import sym_and, sym_or, sym_not, any_sym
from ref import csem

PROPERTY = "C27"
LEVEL = "model_checking"

ARCH = {  # ppci march -> data model (sizes are re-checked against ppci's arch info at run time)
    "x86_64": csem.LP64,
    "arm": csem.ILP32,
    "msp430": csem.IP16,
    "or1k": csem.DataModel("ilp32be", dict(char=1, short=2, int=4, long=4, llong=8), little_endian=False),
}
DESTS = ["char", "uchar", "short", "ushort", "int", "uint", "long", "ulong", "llong", "ullong"]
SHIFT_COUNT_MAX = 79
MUL_RIGHT_MAX = 0xFFFF
SHIM_MODULES = ("ppci.lang.c.eval", "ppci.lang.c.context", "ppci.lang.c.codegenerator",
                "ppci.lang.c.semantics", "ppci.lang.c.init", "ppci.utils.bitfun", "ppci.utils.integer_set",
                "ppci.irutils.builder", "ppci.ir")

BOUNDS = {
    "quick": {"target": "x86_64 (LP64)",
              "literal values": "every value 0..max of the literal's type (int, unsigned, long, unsigned long by suffix); "
                                f"literals inside a shift count: 0..{SHIFT_COUNT_MAX}; literals inside the right factor of a product that has a compound factor "
                                "(not L, -L, (T)L) or a 64-bit literal in its right factor: 0..65535",
              "expression shapes": "depth 1 exhaustive: leaf op leaf for the 18 binary operators, unary - ~ ! + on a leaf, "
                                   "casts to the 10 integer types, ?:, with leaves L, (-L), (T)L over literal types int/unsigned/long/unsigned long",
              "uses": "global scalar initialiser of every integer type (char ... unsigned long long), each also with a literal of its own width over the type's full range as scalar, array element, struct member and static local; array element, struct field, "
                      "static local, bit-field initialiser, case label, enumerator, array size on a subset"},
    "thorough": {"targets": "x86_64 (LP64), arm (ILP32), msp430 (16-bit int), or1k (ILP32, big endian)",
                 "literal values": "as quick",
                 "expression shapes": "all quick shapes on every target + 3500 depth-2 trees sampled by VERIF_SEED (random use, destination, target)",
                 "uses": "as quick, all uses on every target"},
}
OUTSIDE = ["literal *spelling*: values are decimal, the type is fixed by the suffix and the value ranges over that type "
           "(the typing of unsuffixed literals too large for int, octal/hex literals and character constants is not examined)",
           "bit-field *widths* and array designators as constant expressions (only the uses listed in the bounds)",
           "floating-point and address constants, sizeof, enumeration constants inside the expression",
           "expression trees deeper than 2 operators; among the sampled depth-2 trees those with more than one of * / %, with * / % "
           "next to <<, with more than one <<, with * / % over operands other than L, -L, (T)L, with a product over long/long long literals, or with a growing operator inside a shift count (wide symbolic products and "
           "quotients of sub-expressions are out of the solvers' reach); shapes whose premise no literal assignment satisfies",
           f"shift counts built from literals larger than {SHIFT_COUNT_MAX} (undefined in C for every integer type)",
           "structure layout (padding/alignment): for struct fields only the bytes of the initialised field are compared"]
ASSUMPTIONS = ["C integer semantics as written in /verif/ref/csem.py from ISO C11 6.3.1, 6.5, 6.6 (out-of-range conversion to a "
               "signed type: modulo 2**N as gcc defines it; >> of a negative value: arithmetic), cross-checked against gcc on "
               "concrete points (tools/csem_selftest.py); plain char is signed and enums are int (ppci's documented choice)",
               "undefined behaviour and constraint violations of the source program are premises",
               "symbolic literals enter through a wrapper around CSemantics.on_number that replaces the value of the "
               "NumericLiteral the real method built for a placeholder of the same type; the uninstrumented concrete re-run of "
               "every path validates this"]
SHIMS_USED = ["isinstance", "int", "struct", "bool", "range"]
JOB_TIMEOUT = {"quick": 600, "thorough": 1700}
TASKS_PER_CHILD = 4
RULE = ("one evaluation = one batch job of program templates; every template is one harness (all paths of the real front "
        "end for all literal values); non-trivial = templates whose exploration had more than one path")

ROOT = os.path.dirname(os.path.dirname(os.path.abspath(__file__)))

# tag used in harness names for each operator kind (known-finding patterns match on ',tag,' / ',cmp_*' ...)
OPTAG = {k: k for k in list(csem.UNOPS) + list(csem.BINOPS) + ["cast", "cond"]}
OPTAG.update({k: "cmp_" + k for k in ("lt", "le", "gt", "ge", "eq", "ne")})
OPTAG.update({"land": "log_and", "lor": "log_or", "lnot": "log_not"})


def optags(expr):
    return sorted(OPTAG[k] for k in csem.operators(expr))


def lit(i, suffix=""):
    return ["lit", i, suffix]


def lit_range(dm, suffix):
    if suffix == "auto":
        # unsuffixed decimal constant typed by its value: up to beyond ULLONG_MAX
        return 0, (1 << 64) + 1000
    return 0, dm.hi(csem.SUFFIX_TYPE[suffix])


# ---------------------------------------------------------------------------------------------------
def float_quot_int(a, b):
    """int(a / b) for Python integers a, b: exact model of CPython's true division (the correctly rounded, round-half-even,
    53-bit quotient of the exact integers) followed by truncation; |a|, |b| < 2**64.  Works on plain ints (cross-checked
    against the real operator in .scratch/c27/fq.py) and on SymInt.  Used only when the code under analysis applies `/`
    to symbolic integers (harness-side hook of the engine, see CExprHarness.run)."""
    from ref.csem import _bounded
    ite = core.ite
    if b == 0:
        raise ZeroDivisionError("division by zero")
    neg = (a < 0) != (b < 0)
    A, B = abs(a), abs(b)
    q, rem = A // B, A % B
    L = q.bit_length()
    small = L <= 52
    # integer part shorter than 53 bits: f = 53 - L fraction bits survive; the result is q + 1 iff the fraction rounds
    # up to 1, i.e. rem/B >= 1 - 2**-(f+1)  (a tie goes to the even upper neighbour)
    f1 = _bounded(ite(small, 54 - L, 1), 1, 54)
    res_small = q + ite(((B - rem) << f1) <= B, 1, 0)
    # exactly 53 bits: round to nearest integer, ties to even
    res_53 = q + ite(sym_or(2 * rem > B, sym_and(2 * rem == B, (q & 1) == 1)), 1, 0)
    # longer: the low d = L - 53 bits are rounded away (ties to even; a non-zero remainder breaks the tie upwards)
    d = _bounded(ite(L >= 54, L - 53, 1), 1, 16)
    hi = q >> d
    lo = q - (hi << d)
    half = 1 << (d - 1)
    up = sym_or(lo > half, sym_and(lo == half, sym_or(rem != 0, (hi & 1) == 1)))
    res_large = (hi + ite(up, 1, 0)) << d
    res = ite(small, res_small, ite(L == 53, res_53, res_large))
    return ite(neg, -res, res)


class FloatQuotient:
    """result of `a / b` on symbolic integers; only int() of it is supported (through the engine's int shim)"""

    def __init__(self, a, b):
        self.a, self.b = a, b

    def __symint__(self):
        return float_quot_int(self.a, self.b)


# ---------------------------------------------------------------------------------------------------
# program templates per use:  text(E, T) and the observation made on the ir.Module
def program_text(use, dest, etext):
    T = csem.SPELL[dest]
    if use == "global":
        return f"{T} g = {etext};\n"
    if use == "static":
        return f"int f(void) {{ static {T} g = {etext}; return 0; }}\n"
    if use == "array":
        return f"{T} g[3] = {{1, {etext}, 2}};\n"
    if use == "field":
        return f"struct S {{ char c; {T} f; }};\nstruct S g = {{1, {etext}}};\n"
    if use == "bitfield":
        return f"struct S {{ unsigned a : 3; int b : 4; }};\nstruct S g = {{{etext}, {etext}}};\n"
    if use == "case":
        return f"int f({T} x) {{ switch (x) {{ case {etext}: return 1; }} return 0; }}\n"
    if use == "enum":
        return f"enum E {{ P = 3, A = {etext}, B }};\n{T} g = A;\n{T} h = B;\n"
    if use == "arraysize":
        return f"char g[{etext}];\n"
    if use.startswith("bitwidth"):
        # C28 only: the WIDTH of a bit-field is the symbolic constant; the field is loaded, stored and initialised.
        # bitwidthK: K bits of the same storage type precede the field (its bit offset inside the unit)
        k = int(use[8:] or 0)
        pre = f"{T} a : {k}; " if k else ""
        return (f"struct S {{ {pre}{T} b : {etext}; {T} c : 3; }};\nstruct S g;\n"
                f"{T} rd(void) {{ return g.b; }}\nvoid wr({T} v) {{ g.b = v; g.c = 1; }}\n"
                f"{T} loc({T} v) {{ struct S l = {{ {'1, ' if k else ''}v, 2 }}; return l.b; }}\n")
    raise ValueError(use)


def _flat(value):
    out = []
    for part in value:
        if isinstance(part, tuple):
            out.append(("ptr",) + tuple(part[1:]))
        else:
            out.extend(list(part))
    return out


def _var(mod, name):
    for v in mod.variables:
        if v.name == name or v.name.endswith("_" + name) or v.name.startswith(name):
            return v
    raise LookupError(name)


def observe(use, mod):
    if use.startswith("bitwidth"):
        return 0
    from ppci import ir
    if use in ("global", "array", "field", "bitfield"):
        return _flat(_var(mod, "g").value)
    if use == "static":
        vs = [v for v in mod.variables]
        assert len(vs) == 1, vs
        return _flat(vs[0].value)
    if use == "enum":
        return [_flat(_var(mod, "g").value), _flat(_var(mod, "h").value)]
    if use == "arraysize":
        return _var(mod, "g").amount
    if use == "case":
        consts = []
        for f in mod.functions:
            for block in f.blocks:
                for ins in block:
                    if isinstance(ins, ir.CJump) and ins.cond == "==":
                        consts.append((ins.b.value, str(ins.b.ty)))
        assert len(consts) == 1, consts
        return list(consts[0])
    raise ValueError(use)


class CExprHarness(Harness):
    shim_modules = SHIM_MODULES
    max_paths = 400
    prove_timeout_ms = 120000
    timeout_ms = 60000
    mode = "c27"

    def __init__(self, use, dest, expr, march="x86_64", paren="full", W=None):
        self.use = use
        self.dest = dest
        self.expr = expr
        self.march = march
        self.dm = ARCH[march]
        self.lits = csem.literals(expr)
        ops = optags(expr)
        self.paren = paren
        self.render = csem.render if paren == "full" else csem.render_min
        self.text = self.render(expr, lambda i, s: f"L{i}{'' if s == 'auto' else s}")
        prefix = "c27" if self.mode == "c27" else "c28.c"
        self.name = f"{prefix}.{use}[{march}:{dest}<-{self.text}] ops=,{','.join(ops)},"
        self.params = dict(use=use, dest=dest, expr=expr, march=march, paren=paren)
        # engine width: chosen adaptively by run_batch (EngineBound => retry wider); replay is concrete
        self.W = W or (80 + 64 * self.text.count("*") + (SHIFT_COUNT_MAX + 1) * self.text.count("<<"))
        self.shiftlits = csem.shift_count_literals(expr)
        # products whose factors are both plain literals keep the full ranges; with a compound factor the literals of
        # the right factor are limited (symbolic wide x wide products of sub-expressions are out of the solvers' reach)
        wide = [sfx for sfx, t in csem.SUFFIX_TYPE.items() if self.dm.size(t) == 8]
        self.mullits = csem.mul_right_literals(expr, compound_only=True, wide=wide)

    # -- inputs ------------------------------------------------------------------------------------
    def inputs(self, mk):
        dm = self.dm
        vals = {}
        for i, s in self.lits:
            lo, hi = lit_range(dm, s)
            if i in self.shiftlits:
                hi = min(hi, SHIFT_COUNT_MAX)
            if i in self.mullits:
                hi = min(hi, MUL_RIGHT_MAX)
            vals[i] = mk.int(f"L{i}", lo, hi)
        lv = [vals[i] for i in sorted(vals)]
        exp, defined, flags = self.oracle(lv, mk.assume if self.mode == "c27" else None)
        inp = dict(lits=lv, expected=exp, defined=defined)
        for k, v in flags.items():
            inp["F_" + k] = v
        for i, v in enumerate(lv):
            inp[f"L{i}"] = v
        if self.mode == "c27":
            mk.assume(defined)
        return inp

    def literal_ranges(self):
        out = []
        for i, s in sorted(self.lits):
            lo, hi = lit_range(self.dm, s)
            if i in self.shiftlits:
                hi = min(hi, SHIFT_COUNT_MAX)
            if i in self.mullits:
                hi = min(hi, MUL_RIGHT_MAX)
            out.append((lo, hi))
        return out

    def premise(self, lv):
        """premise of the template on plain integers"""
        return bool(self.oracle(lv)[1])

    def oracle(self, lv, assume=None):
        """-> (expected observation, defined, flags)"""
        dm, use, dest = self.dm, self.use, self.dest
        E = csem.Eval(dm, lv, assume)
        v, t = E.ev(self.expr)
        if use in ("global", "static", "array", "field"):
            exp = E.conv(v, dest)                                      # compared through csem.repr_eq
        elif use == "bitfield":
            a = E.conv(v, "uint") % 8                                  # unsigned a : 3
            b = E.conv(v, "int") % 16                                  # int b : 4 (two's complement bits)
            exp = a | (b << 3)                                         # low 7 bits of the first byte
        elif use == "case":
            exp = E.conv(v, dm.promote(dest))                          # 6.8.4.2p5
        elif use == "enum":
            # 6.7.2.2p2: the value shall be representable as an int; so shall the successor be
            lo, hi = dm.lo("int"), dm.hi("int")
            E._undef(True, sym_or(v < lo, v > hi - 1))
            exp = [E.conv(v, dest), E.conv(v + 1, dest)]
        elif use == "arraysize":
            # 6.7.6.2p1: greater than zero; bound: fits int (ppci converts the size to int)
            E._undef(True, sym_or(v < 1, v > dm.hi("int")))
            exp = v
        elif use.startswith("bitwidth"):
            exp = 0                                                    # C28 only: no value is compared
        else:
            raise ValueError(use)
        return exp, E.defined, E.flags

    # -- the real code -----------------------------------------------------------------------------
    def run(self, inp):
        from ppci.lang.c.api import c_to_ir
        from ppci.lang.c.semantics import CSemantics
        from ppci.api import get_arch
        self._check_model(get_arch(self.march).info)
        logging.disable(logging.CRITICAL)          # ppci warnings ("Function does not return a value") are noise here
        lv = inp["lits"]
        if core.ENG is not None:
            # `a / b` on symbolic integers (only reached if the code under analysis uses true division on integers):
            # exact model of CPython's correctly rounded quotient; int() of it goes through the int shim
            core.ENG.truediv_hook = FloatQuotient
        if core.ENG is not None and self.use == "case":
            # CCodeGenerator.switch_options is keyed by the case values; the template has exactly ONE case label
            # (plus possibly the str key "default"), so collapsing the hashes of symbolic integers is sound
            core.ENG.hash_collapse = True
        if any_sym(*lv):
            from ppci.lang.c import utils as cutils
            table, table_auto = {}, {}

            def littext(i, s):
                if s == "auto":
                    tok = f"{101 + i}"
                    table_auto[tok] = lv[i]
                else:
                    tok = f"{101 + i}{s}"
                    table[tok] = lv[i]
                return tok
            text = program_text(self.use, self.dest, self.render(self.expr, littext))
            orig = CSemantics.on_number
            orig_cnum = cutils.cnum

            def on_number(sem, value, location):
                node = orig(sem, value, location)
                if value in table:
                    node.value = table[value]
                return node

            def cnum(txt):
                # value-typed (unsuffixed) literals: the symbolic value enters BEFORE on_number picks the type
                value, spec = orig_cnum(txt)
                if txt in table_auto:
                    value = table_auto[txt]
                return value, spec
            CSemantics.on_number = on_number
            cutils.cnum = cnum
            try:
                mod = c_to_ir(io.StringIO(text), self.march)
            finally:
                CSemantics.on_number = orig
                cutils.cnum = orig_cnum
                # class-level interning cache of blob types: drop entries keyed by symbolic sizes (bit-field widths)
                from ppci import ir as _ir
                cache = getattr(_ir.BlobDataTyp, "_cache", None)
                if isinstance(cache, dict):
                    keep = [(k, v) for k, v in cache.items()
                            if not any(isinstance(x, core.SymInt) for x in (k if isinstance(k, tuple) else (k,)))]
                    if len(keep) != len(cache):
                        cache.clear()
                        cache.update(keep)
        else:
            text = program_text(self.use, self.dest,
                                self.render(self.expr, lambda i, s: f"{int(lv[i])}{'' if s == 'auto' else s}"))
            mod = c_to_ir(io.StringIO(text), self.march)
        return observe(self.use, mod)

    def _check_model(self, info):
        dm = self.dm
        from ppci.arch.arch_info import Endianness
        assert info.get_size("int") == dm.size("int"), "data model: int"
        assert max(info.get_size("int"), info.get_size("long")) == dm.size("long"), "data model: long"
        assert (info.endianness == Endianness.LITTLE) == dm.little_endian, "data model: byte order"

    # -- the property ------------------------------------------------------------------------------
    def post(self, inp, out):
        if self.mode == "c28":
            return {"only-diagnostics": out.ok or out.exc == "CompilerError"}
        if not out.ok:
            return {"compiles": False}
        exp = inp["expected"]
        got = out.value
        use = self.use
        dm, dest = self.dm, self.dest
        n = dm.size(dest)
        if use in ("global", "static"):
            ok = csem.repr_eq(dm, got, exp, dest)
        elif use == "array":
            ok = sym_and(len(got) == 3 * n, csem.repr_eq(dm, got[:n], 1, dest),
                         csem.repr_eq(dm, got[n:2 * n], exp, dest), csem.repr_eq(dm, got[2 * n:], 2, dest))
        elif use == "field":
            ok = sym_and(len(got) >= n + 1, got[0] == 1, csem.repr_eq(dm, got[-n:], exp, dest))
        elif use == "bitfield":
            ok = (got[0] & 0x7F) == exp
        elif use == "case":
            ok = got[0] == exp
        elif use == "enum":
            ok = sym_and(csem.repr_eq(dm, got[0], exp[0], dest), csem.repr_eq(dm, got[1], exp[1], dest))
        elif use == "arraysize":
            ok = got == exp
        else:
            raise ValueError(use)
        return {"compiles": True, "value": ok}


# ---------------------------------------------------------------------------------------------------
# template families
BIN = list(csem.BINOPS)


LIGHT = ["add", "sub", "shl", "shr", "band", "bor", "bxor"]
HEAVY = ["mul", "div", "mod"]
BOOLY = ["lt", "le", "gt", "ge", "eq", "ne", "land", "lor"]


def quick_templates(march="x86_64"):
    """(use, dest, expr, march) list: every depth-1 shape; every destination type for the value-producing operators,
    the other uses of a constant expression on a subset of operators"""
    T = []
    alt = itertools.cycle(["int", "ulong", "short", "uint", "long", "uchar"])
    for op in BIN:
        dests = DESTS if op in LIGHT else (("char", "uint", "long", "ulong") if op in HEAVY else ("int", "uchar", "ulong"))
        # (1) literal operands int op int / unsigned op int into the destination types
        for sa, sb in (("", ""), ("u", "")):
            for d in dests:
                T.append(("global", d, [op, lit(0, sa), lit(1, sb)]))
        # other literal type pairs
        for sa, sb in (("", "u"), ("l", "u"), ("ul", "")):
            T.append(("global", next(alt), [op, lit(0, sa), lit(1, sb)]))
        # negative and narrow operands
        for d in ("int", "ulong"):
            T.append(("global", d, [op, ["neg", lit(0, "")], lit(1, "")]))
        T.append(("global", "long", [op, lit(0, ""), ["neg", lit(1, "")]]))
        T.append(("global", "uchar", [op, ["neg", lit(0, "")], ["neg", lit(1, "")]]))
        T.append(("global", "int", [op, ["cast", "char", lit(0, "")], lit(1, "")]))
        T.append(("global", "long", [op, ["neg", lit(0, "")], lit(1, "u")]))
    # (2) unary operators and casts
    for op in csem.UNOPS:
        for s in ("", "u", "l"):
            for d in ("char", "uint", "long"):
                T.append(("global", d, [op, lit(0, s)]))
    for t in DESTS:
        for s in ("", "ul"):
            for d in ("int", "ulong"):
                T.append(("global", d, ["cast", t, lit(0, s)]))
        T.append(("global", "long", ["cast", t, ["neg", lit(0, "")]]))
    # plain literal and negated literal into every destination
    for d in DESTS:
        for s in ("", "ul"):
            T.append(("global", d, lit(0, s)))
        T.append(("global", d, ["neg", lit(0, "")]))
    # every integer type initialised by a literal of its own width over the FULL range of the type
    # (scalar, array element, struct member, static local)
    own = {"char": ["cast", "char", lit(0, "u")], "uchar": ["cast", "uchar", lit(0, "u")],
           "short": ["cast", "short", lit(0, "u")], "ushort": ["cast", "ushort", lit(0, "u")],
           "int": ["cast", "int", lit(0, "u")], "uint": lit(0, "u"), "long": ["cast", "long", lit(0, "ul")],
           "ulong": lit(0, "ul"), "llong": ["cast", "llong", lit(0, "ull")], "ullong": lit(0, "ull")}
    for d in DESTS:
        for use in ("global", "array", "field", "static"):
            T.append((use, d, own[d]))
        T.append(("global", d, lit(0, "ull")))
        T.append(("global", d, lit(0, "ll")))
    # (3) conditional operator
    for d in ("int", "ulong", "char"):
        T.append(("global", d, ["cond", lit(0, ""), lit(1, ""), lit(2, "")]))
        T.append(("global", d, ["cond", lit(0, ""), ["neg", lit(1, "")], lit(2, "u")]))
    # (4) other uses
    other_ops = ["add", "sub", "mul", "div", "mod", "shl", "band", "lt", "land", "lor"]
    for use, dests in (("array", ("char", "ulong")), ("field", ("short", "uint")),
                       ("static", ("uchar", "int")), ("bitfield", ("int",)),
                       ("case", ("int", "uint", "char")), ("enum", ("int", "uchar")),
                       ("arraysize", ("char",))):
        for d in dests:
            T.append((use, d, lit(0, "")))
            if use != "arraysize":
                T.append((use, d, ["neg", lit(0, "")]))
            T.append((use, d, ["cast", "uchar", lit(0, "")]))
            for op in other_ops:
                if use in ("static", "bitfield") and op not in ("add", "sub", "div", "shl"):
                    continue
                T.append((use, d, [op, lit(0, ""), lit(1, "u" if op in ("sub",) else "")]))
                if op in ("div", "sub") and use != "arraysize":
                    T.append((use, d, [op, ["neg", lit(0, "")], lit(1, "")]))
    # (5) unsuffixed decimal literals whose TYPE follows from the value (real on_number ladder on the symbolic value)
    for d in ("int", "long", "ulong", "uchar"):
        T.append(("global", d, lit(0, "auto")))
    T.append(("global", "long", ["neg", lit(0, "auto")]))
    T.append(("global", "ulong", ["add", lit(0, "auto"), lit(1, "")]))
    T.append(("global", "int", ["shr", lit(0, "auto"), lit(1, "")]))
    T.append(("case", "long", lit(0, "auto")))
    T = [(u, d, e, march) for u, d, e in T]
    # (6) operator precedence / associativity: depth-2 shapes printed with only the parentheses C needs
    rnd = random.Random(27)
    T += [sp for sp in (("global", "int", e, march, "min") for e in precedence_shapes())
          if has_defined_point(CExprHarness(*sp), rnd)]
    return T


PREC_OPS = ["mul", "add", "sub", "shl", "lt", "eq", "band", "bxor", "bor", "land", "lor"]


def precedence_shapes():
    out = []
    for o1 in PREC_OPS:
        for o2 in PREC_OPS:
            out.append([o1, [o2, lit(0), lit(1)], lit(2)])
            out.append([o1, lit(0), [o2, lit(1), lit(2)]])
    unary = []
    for u in ("neg", "inv", "lnot"):
        for o in PREC_OPS + ["div", "mod"]:
            unary.append([o, [u, lit(0)], lit(1)])        # - L0 * L1  is  (- L0) * L1
            unary.append([u, [o, lit(0), lit(1)]])
    out.append(["cond", ["lt", lit(0), lit(1)], lit(2), ["cond", lit(3), lit(4), lit(5)]])
    out.append(["cond", ["cond", lit(0), lit(1), lit(2)], lit(3), lit(4)])
    out.append(["cast", "char", ["add", lit(0), lit(1)]])
    out.append(["add", ["cast", "char", lit(0)], lit(1)])
    return [e for e in out if tractable(e)] + unary


def _rand_leaf(rnd, idx):
    f = rnd.random()
    s = rnd.choice(["", "", "u", "l", "ul"])
    if f < 0.6:
        return lit(idx, s)
    if f < 0.8:
        return ["neg", lit(idx, rnd.choice(["", "l"]))]
    return ["cast", rnd.choice(["char", "uchar", "short", "ushort", "int", "uint"]), lit(idx, s)]


def _rand_d1(rnd, base):
    """random depth-1 expression over literal numbers base, base+1, ..."""
    f = rnd.random()
    if f < 0.75:
        return [rnd.choice(BIN), _rand_leaf(rnd, base), _rand_leaf(rnd, base + 1)], 2
    if f < 0.87:
        return [rnd.choice(list(csem.UNOPS)), _rand_leaf(rnd, base)], 1
    return ["cast", rnd.choice(DESTS), _rand_leaf(rnd, base)], 1


def _grows_in_count(e, inside=False):
    """an operator that can enlarge its operands occurs inside a shift count"""
    if e[0] == "lit":
        return False
    if inside and e[0] in ("shl", "mul", "add", "sub", "inv", "bor", "bxor", "cond"):
        return True
    if e[0] in ("shl", "shr"):
        return _grows_in_count(e[1], inside) or _grows_in_count(e[2], True)
    return any(_grows_in_count(x, inside) for x in e[1:] if isinstance(x, list))


def _mul_right_leaf(e):
    if e[0] == "lit":
        return True
    if e[0] == "mul" and not csem._is_leaf(e[2]):
        return False
    return all(_mul_right_leaf(x) for x in e[1:] if isinstance(x, list))


def heavy_on_leaves(e):
    """in the sampled trees the operands of * / % are leaves L, -L, (T)L (all leaf combinations are in the
    exhaustive depth-1 family; products and quotients of sub-expressions are out of the solvers' reach)"""
    if e[0] == "lit":
        return True
    if e[0] in ("mul", "div", "mod") and not all(csem._is_leaf(x) for x in e[1:]):
        return False
    if e[0] == "mul" and any(sfx in ("l", "ul", "ll", "ull") for _, sfx in csem.literals(e)):
        return False        # sampled products stay within 32 x 32 bits; the wide ones are in the depth-1 family
    return all(heavy_on_leaves(x) for x in e[1:] if isinstance(x, list))


def tractable(e):
    if not heavy_on_leaves(e):
        return False
    txt = csem.render(e, lambda i, s: "L")
    heavy = txt.count("*") + txt.count("/") + txt.count("%")
    return txt.count("<<") <= 1 and heavy <= 1 and not (heavy and txt.count("<<")) and not _grows_in_count(e)


def has_defined_point(h, rnd, tries=300):
    """shape filter for the sampled families: is there any literal assignment for which the premise of the
    template holds?  (random search on plain integers through the reference semantics; a shape for which it
    finds none - e.g. a shift by a constant-folded huge count - is skipped instead of reported as vacuous)"""
    ranges = h.literal_ranges()
    for _ in range(tries):
        lv = []
        for lo, hi in ranges:
            f = rnd.random()
            if f < 0.5:
                lv.append(min(hi, rnd.choice([0, 1, 1, 2, 3, 5, 8, 17, 100])))
            elif f < 0.6:
                lv.append(hi - rnd.choice([0, 1]))
            else:
                lv.append(rnd.randint(lo, min(hi, 1 << rnd.randint(1, 64))))
        if h.premise(lv):
            return True
    return False


def depth2_templates(rnd, n, marches):
    T = []
    uses = ["global"] * 8 + ["array", "field", "static", "case", "enum"]
    while len(T) < n:
        f = rnd.random()
        a, na = _rand_d1(rnd, 0)
        if f < 0.45:
            e = [rnd.choice(BIN), a, _rand_leaf(rnd, na)]
        elif f < 0.75:
            e = [rnd.choice(BIN), _rand_leaf(rnd, na), a]
        elif f < 0.85:
            b, nb = _rand_d1(rnd, na)
            e = [rnd.choice(BIN), a, b]
        elif f < 0.93:
            e = ["cast", rnd.choice(DESTS), a]
        else:
            e = ["cond", a, _rand_leaf(rnd, na), _rand_leaf(rnd, na + 1)]
        if not tractable(e):
            continue        # keep the bit-vector terms tractable / inside the engine width
        spec = (rnd.choice(uses), rnd.choice(DESTS), csem.renumber(e), rnd.choice(marches))
        if not has_defined_point(CExprHarness(*spec), rnd):
            continue
        T.append(spec)
    return T


def select(tier, seed):
    if tier == "quick":
        return quick_templates("x86_64")
    T = []
    for m in ARCH:
        T += quick_templates(m)
    rnd = random.Random(2700001 * seed + 27)
    T += depth2_templates(rnd, 3500, list(ARCH))
    return T


# ---------------------------------------------------------------------------------------------------
_SUM = ("obligations", "discharged", "validated", "reached", "twin_violated")
WIDTHS = (72, 104, 136, 168, 232, 296)     # engine width ladder: EngineBound (value may not fit) => next width


def run_batch(cls, prop, specs, tag=""):
    """custom job: one harness per template, results merged"""
    known = load_known(os.environ.get("VERIF_KNOWN") or os.path.join(ROOT, "known_findings.json"), prop)
    res = dict(harness=f"batch{tag}[{len(specs)} templates]", violations=[], known_hits=[], inconclusive=[],
               errors=[], funcs=[], samples=[], stats={}, solver={}, outcomes={}, exhaustive=True, nontrivial=0,
               wall_s=0.0, **{k: 0 for k in _SUM})
    funcs = set()
    for n, spec in enumerate(specs):
        for W in WIDTHS:
            h = cls(*spec, W=W)
            r = run_harness(h, known, want_trace=(n < 2))
            if not any(e.get("kind") == "EngineBound" for e in r.get("errors", [])):
                break
        for k in _SUM:
            res[k] += r.get(k, 0)
        for k in ("violations", "known_hits", "inconclusive", "errors"):
            res[k] += r.get(k, [])
        funcs.update(r.get("funcs", []))
        if len(res["samples"]) < 2:
            res["samples"] += r.get("samples", [])[:1]
        for k, v in r.get("stats", {}).items():
            res["stats"][k] = res["stats"].get(k, 0) + v
        for k, v in r.get("solver", {}).items():
            res["solver"][k] = res["solver"].get(k, 0) + v
        for k, v in r.get("outcomes", {}).items():
            res["outcomes"][k] = res["outcomes"].get(k, 0) + v
        res["exhaustive"] = res["exhaustive"] and r.get("exhaustive", False)
        if r.get("stats", {}).get("paths", 0) > 1:
            res["nontrivial"] += 1
        res["wall_s"] += r.get("wall_s", 0.0)
        if len(res["violations"]) >= 3 or len(res["errors"]) >= 3:
            res["exhaustive"] = False
            break
    res["funcs"] = sorted(funcs)
    return res


def mk_batch(specs, tag=""):
    return run_batch(CExprHarness, PROPERTY, specs, tag)


def _cost(expr):
    txt = csem.render(expr, lambda i, s: "L")
    return 1 + 6 * txt.count("*") + 4 * txt.count("/") + 4 * txt.count("%") + 2 * txt.count("<<")


def batches(specs, nbatch, key=2):
    """spread templates over nbatch jobs, balancing the expensive operators (key = position of the expression)"""
    specs = sorted(specs, key=lambda s: _cost(s[key]), reverse=True)
    bins = [[] for _ in range(nbatch)]
    load = [0] * nbatch
    for s in specs:
        k = load.index(min(load))
        bins[k].append(s)
        load[k] += _cost(s[key])
    return [b for b in bins if b]


def jobs(tier, seed):
    specs = select(tier, seed)
    only = os.environ.get("VERIF_ONLY")
    if only:
        specs = [s for s in specs if only in repr(s) or only in CExprHarness(*s).name]
    nb = 48 if tier == "quick" else 160
    return [("mk_batch", dict(specs=b, tag=f"#{i}")) for i, b in enumerate(batches(specs, nb))]
